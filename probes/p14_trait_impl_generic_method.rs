use vstd::prelude::*;
verus! {
pub struct RuntimeError;
pub trait SystemApi<E> { }
#[derive(PartialEq, Eq, Clone)]
pub struct RecoveryProposal { pub a: u64 }
#[derive(PartialEq, Eq)]
pub enum PrimaryRoleRecoveryAttemptState { NoRecoveryAttempt, RecoveryAttempt(RecoveryProposal) }
#[derive(PartialEq, Eq)]
pub enum Lk { Unlocked, Locked }
pub struct AccessControllerV2Substate { pub state: (Lk, PrimaryRoleRecoveryAttemptState) }

pub trait TransitionMut<I> {
    type Output;
    fn transition_mut<Y: SystemApi<RuntimeError>>(&mut self, api: &mut Y, input: I) -> Result<Self::Output, RuntimeError>;
}
pub struct InitInput { pub proposal: RecoveryProposal }

impl TransitionMut<InitInput> for AccessControllerV2Substate {
    type Output = ();
    fn transition_mut<Y: SystemApi<RuntimeError>>(&mut self, _api: &mut Y, input: InitInput) -> (ret: Result<Self::Output, RuntimeError>)
        ensures ret is Ok <==> old(self).state.1 == PrimaryRoleRecoveryAttemptState::NoRecoveryAttempt,
                ret is Ok ==> final(self).state.1 == PrimaryRoleRecoveryAttemptState::RecoveryAttempt(input.proposal) && final(self).state.0 == old(self).state.0,
                ret is Err ==> final(self).state == old(self).state,
    {
        match self.state {
            (
                _,
                ref mut
                primary_role_recovery_attempt_state @ PrimaryRoleRecoveryAttemptState::NoRecoveryAttempt,
            ) => {
                *primary_role_recovery_attempt_state =
                    PrimaryRoleRecoveryAttemptState::RecoveryAttempt(input.proposal);
                Ok(())
            }
            _ => Err(RuntimeError),
        }
    }
}
}
fn main() {}
