use vstd::prelude::*;
verus! {
#[derive(PartialEq, Eq)]
pub enum A { No, Yes(u64) }
#[derive(PartialEq, Eq)]
pub enum B { No, Attempt }
pub struct S { pub state: (A, B), }
pub struct Err1;
impl S {
    fn t(&mut self, p: u64) -> (r: Result<(), Err1>)
        ensures r.is_ok() <==> old(self).state.0 == A::No,
          r.is_ok() ==> final(self).state.0 == A::Yes(p) && final(self).state.1 == old(self).state.1,
          r.is_err() ==> final(self).state == old(self).state,
    {
        match self.state {
            (ref mut a @ A::No, _) => { *a = A::Yes(p); Ok(()) }
            _ => Err(Err1),
        }
    }
}
}
fn main() {}
