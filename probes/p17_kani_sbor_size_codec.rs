use radix_common::prelude::*;
use sbor::*;

#[cfg(kani)]
#[kani::proof]
#[kani::unwind(6)]
fn size_roundtrip() {
    let n: usize = kani::any();
    let mut buf = Vec::with_capacity(8);
    let mut enc = VecEncoder::<NoCustomValueKind>::new(&mut buf, 8);
    let r = enc.write_size(n);
    if n > 0x0FFF_FFFF { assert!(r.is_err()); return; }
    assert!(r.is_ok());
    assert!(buf.len() >= 1 && buf.len() <= 4);
    let mut dec = VecDecoder::<NoCustomValueKind>::new(&buf, 8);
    let m = dec.read_size();
    assert!(m == Ok(n));
    assert!(dec.get_offset() == buf.len());
}

#[cfg(kani)]
#[kani::proof]
#[kani::unwind(6)]
fn size_canonical() {
    let bytes: [u8; 5] = kani::any();
    let mut dec = VecDecoder::<NoCustomValueKind>::new(&bytes, 8);
    if let Ok(n) = dec.read_size() {
        let k = dec.get_offset();
        let mut buf = Vec::with_capacity(8);
        let mut enc = VecEncoder::<NoCustomValueKind>::new(&mut buf, 8);
        assert!(enc.write_size(n).is_ok());
        assert!(buf.len() == k);
        let mut i = 0;
        while i < k { assert!(buf[i] == bytes[i]); i += 1; }
    }
}
