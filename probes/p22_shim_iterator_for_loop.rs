use vstd::prelude::*;
verus! {
#[verifier::external_body]
#[verifier::reject_recursive_types(K)]
#[verifier::reject_recursive_types(V)]
pub struct IndexMap<K, V> { k: core::marker::PhantomData<(K,V)> }

#[verifier::external_body]
#[verifier::reject_recursive_types(K)]
pub struct Keys<'a, K> { k: core::marker::PhantomData<&'a K> }

impl<K, V> IndexMap<K, V> {
    pub uninterp spec fn key_seq(&self) -> Seq<K>;      // insertion order, distinct
    #[verifier::external_body]
    pub fn keys(&self) -> (r: Keys<'_, K>)
        ensures r.rest().len() == self.key_seq().len(), forall|i: int| 0 <= i < self.key_seq().len() ==> *r.rest()[i] == self.key_seq()[i]
    { unimplemented!() }
}
impl<'a, K> Keys<'a, K> {
    pub uninterp spec fn rest(&self) -> Seq<&'a K>;
}
impl<'a, K> Iterator for Keys<'a, K> {
    type Item = &'a K;
    #[verifier::external_body]
    fn next(&mut self) -> (r: Option<&'a K>)
    { unimplemented!() }
}
impl<'a, K> vstd::std_specs::iter::IteratorSpecImpl for Keys<'a, K> {
    open spec fn obeys_prophetic_iter_laws(&self) -> bool { true }
    open spec fn remaining(&self) -> Seq<&'a K> { self.rest() }
    open spec fn will_return_none(&self) -> bool { true }
    open spec fn peek(&self, index: int) -> Option<&'a K> { if 0 <= index < self.rest().len() { Some(self.rest()[index]) } else { None } }
    open spec fn decrease(&self) -> Option<nat> { Some(self.rest().len()) }
}

pub struct L { pub amounts: IndexMap<u64, usize> }
impl L {
    pub fn amount(&self) -> (ret: u64)
        ensures forall|i: int| 0 <= i < self.amounts.key_seq().len() ==> self.amounts.key_seq()[i] <= ret,
                ret == 0 || self.amounts.key_seq().contains(ret),
    {
        let mut max = 0u64;
        for amount in it: self.amounts.keys()
            invariant
                forall|i: int| 0 <= i < it.index@ ==> self.amounts.key_seq()[i] <= max,
                max == 0 || self.amounts.key_seq().contains(max),
        {
            if amount > &max {
                max = *amount
            }
        }
        max
    }
}
}
fn main() {}
