use vstd::prelude::*;
use core::mem;
verus! {
#[verifier::external_body]
pub struct IndexedScryptoValue { b: Vec<u8> }
impl Clone for IndexedScryptoValue { #[verifier::external_body] fn clone(&self) -> (r: Self) ensures r == *self { unimplemented!() } }

pub assume_specification<T> [core::mem::replace] (dest: &mut T, src: T) -> (r: T) ensures r == *old(dest), *final(dest) == src;
pub struct RuntimeSubstate { pub value: IndexedScryptoValue }
impl RuntimeSubstate { pub fn new(value: IndexedScryptoValue) -> (r: Self) ensures r.value == value { Self { value } } }
pub enum ReadOnly { NonExistent, Existent(RuntimeSubstate) }
pub enum Write { Update(RuntimeSubstate), Delete }
impl Write {
    pub fn into_value(self) -> (ret: Option<IndexedScryptoValue>)
      ensures ret == (match self { Write::Update(s) => Some(s.value), Write::Delete => None })
    {
        match self {
            Write::Update(substate) => Some(substate.value),
            Write::Delete => None,
        }
    }
}
pub enum TrackedSubstateValue {
    New(RuntimeSubstate),
    ReadOnly(ReadOnly),
    ReadExistAndWrite(IndexedScryptoValue, Write),
    ReadNonExistAndWrite(RuntimeSubstate),
    WriteOnly(Write),
    Garbage,
}
pub open spec fn cur(t: TrackedSubstateValue) -> Option<IndexedScryptoValue> {
    match t {
        TrackedSubstateValue::New(s) => Some(s.value),
        TrackedSubstateValue::ReadOnly(ReadOnly::NonExistent) => None,
        TrackedSubstateValue::ReadOnly(ReadOnly::Existent(s)) => Some(s.value),
        TrackedSubstateValue::ReadExistAndWrite(_, Write::Update(s)) => Some(s.value),
        TrackedSubstateValue::ReadExistAndWrite(_, Write::Delete) => None,
        TrackedSubstateValue::ReadNonExistAndWrite(s) => Some(s.value),
        TrackedSubstateValue::WriteOnly(Write::Update(s)) => Some(s.value),
        TrackedSubstateValue::WriteOnly(Write::Delete) => None,
        TrackedSubstateValue::Garbage => None,
    }
}
/// what the database is known to hold: None = unknown, Some(x) = read as x
pub open spec fn base(t: TrackedSubstateValue) -> Option<Option<IndexedScryptoValue>> {
    match t {
        TrackedSubstateValue::ReadOnly(ReadOnly::NonExistent) => Some(None),
        TrackedSubstateValue::ReadOnly(ReadOnly::Existent(s)) => Some(Some(s.value)),
        TrackedSubstateValue::ReadExistAndWrite(r, _) => Some(Some(r)),
        TrackedSubstateValue::ReadNonExistAndWrite(_) => Some(None),
        _ => None,
    }
}
impl TrackedSubstateValue {
    pub fn set(&mut self, value: IndexedScryptoValue)
        ensures cur(*final(self)) == Some(value), base(*final(self)) == base(*old(self)),
    {
        match self {
            TrackedSubstateValue::Garbage => {
                *self = TrackedSubstateValue::WriteOnly(Write::Update(RuntimeSubstate::new(value)));
            }
            TrackedSubstateValue::New(substate) => {
                substate.value = value;
            }
            TrackedSubstateValue::WriteOnly(Write::Update(substate)) => {
                substate.value = value;
            }
            TrackedSubstateValue::ReadExistAndWrite(_, Write::Update(substate)) => {
                substate.value = value;
            }
            TrackedSubstateValue::ReadNonExistAndWrite(substate) => {
                substate.value = value;
            }
            TrackedSubstateValue::ReadOnly(ReadOnly::NonExistent) => {
                let new_tracked =
                    TrackedSubstateValue::ReadNonExistAndWrite(RuntimeSubstate::new(value));
                *self = new_tracked;
            }
            TrackedSubstateValue::ReadOnly(ReadOnly::Existent(old)) => {
                let new_tracked = TrackedSubstateValue::ReadExistAndWrite(
                    old.value.clone(),
                    Write::Update(RuntimeSubstate::new(value)),
                );
                *self = new_tracked;
            }
            TrackedSubstateValue::ReadExistAndWrite(_, write @ Write::Delete) => {
                *write = Write::Update(RuntimeSubstate::new(value));
            }
            TrackedSubstateValue::WriteOnly(write @ Write::Delete) => {
                *write = Write::Update(RuntimeSubstate::new(value));
            }
        };
    }

    pub fn into_value(self) -> (ret: Option<IndexedScryptoValue>) ensures ret == cur(self)
    {
        match self {
            TrackedSubstateValue::New(substate)
            | TrackedSubstateValue::WriteOnly(Write::Update(substate))
            | TrackedSubstateValue::ReadOnly(ReadOnly::Existent(substate))
            | TrackedSubstateValue::ReadNonExistAndWrite(substate)
            | TrackedSubstateValue::ReadExistAndWrite(_, Write::Update(substate)) => {
                Some(substate.value)
            }
            TrackedSubstateValue::WriteOnly(Write::Delete)
            | TrackedSubstateValue::ReadExistAndWrite(_, Write::Delete)
            | TrackedSubstateValue::ReadOnly(ReadOnly::NonExistent)
            | TrackedSubstateValue::Garbage => None,
        }
    }

    pub fn take(&mut self) -> (ret: Option<IndexedScryptoValue>)
        ensures ret == cur(*old(self)), cur(*final(self)) is None,
    {
        match self {
            TrackedSubstateValue::Garbage => None,
            TrackedSubstateValue::New(..) => {
                let old = mem::replace(self, TrackedSubstateValue::Garbage);
                old.into_value()
            }
            TrackedSubstateValue::WriteOnly(_) => {
                let old = mem::replace(self, TrackedSubstateValue::WriteOnly(Write::Delete));
                old.into_value()
            }
            TrackedSubstateValue::ReadExistAndWrite(_, write) => {
                let write = mem::replace(write, Write::Delete);
                write.into_value()
            }
            TrackedSubstateValue::ReadNonExistAndWrite(..) => {
                let old = mem::replace(self, TrackedSubstateValue::ReadOnly(ReadOnly::NonExistent));
                old.into_value()
            }
            TrackedSubstateValue::ReadOnly(ReadOnly::Existent(v)) => {
                let new_tracked =
                    TrackedSubstateValue::ReadExistAndWrite(v.value.clone(), Write::Delete);
                let old = mem::replace(self, new_tracked);
                old.into_value()
            }
            TrackedSubstateValue::ReadOnly(ReadOnly::NonExistent) => None,
        }
    }
}
}
fn main() {}
