use vstd::prelude::*;
verus! {
pub struct Epoch(pub u64);
impl Epoch { pub fn number(&self) -> (r: u64) ensures r == self.0 { self.0 } }
pub struct TransactionTrackerSubstateV1 {
    pub start_epoch: u64,
    pub start_partition: u8,
    pub partition_range_start_inclusive: u8,
    pub partition_range_end_inclusive: u8,
    pub epochs_per_partition: u64,
}
pub open spec fn n(t: TransactionTrackerSubstateV1) -> int { t.partition_range_end_inclusive - t.partition_range_start_inclusive + 1 }
pub open spec fn wf(t: TransactionTrackerSubstateV1) -> bool {
    t.partition_range_start_inclusive <= t.start_partition <= t.partition_range_end_inclusive
    && t.epochs_per_partition > 0 && n(t) <= 255
    && t.start_epoch + n(t) * t.epochs_per_partition <= u64::MAX
}
pub open spec fn slot(t: TransactionTrackerSubstateV1, bucket: int) -> int {
    t.partition_range_start_inclusive + (t.start_partition - t.partition_range_start_inclusive + bucket) % n(t)
}
fn rt_assert(b: bool) requires b {}

impl TransactionTrackerSubstateV1 {
    pub fn partition_for_expiry_epoch(&self, epoch: Epoch) -> (ret: Option<u8>)
        requires wf(*self)
        ensures
            (self.start_epoch <= epoch.0 < self.start_epoch + n(*self) * self.epochs_per_partition)
                ==> ret == Some(slot(*self, (epoch.0 - self.start_epoch) / (self.epochs_per_partition as int)) as u8),
            !(self.start_epoch <= epoch.0 < self.start_epoch + n(*self) * self.epochs_per_partition) ==> ret is None,
    {
        let epoch = epoch.number();

        // Check if epoch is within range
        let num_partitions =
            self.partition_range_end_inclusive - self.partition_range_start_inclusive + 1;
        let max_epoch_exclusive =
            self.start_epoch + num_partitions as u64 * self.epochs_per_partition;
        if epoch < self.start_epoch || epoch >= max_epoch_exclusive {
            return None;
        }

        // Calculate the destination partition number
        proof {
            let q = (epoch - self.start_epoch) as int / (self.epochs_per_partition as int);
            let d = (epoch - self.start_epoch) as int; let e = self.epochs_per_partition as int; let nn = n(*self);
            assert(0 <= q < nn) by (nonlinear_arith) requires q == d / e, 0 <= d < nn * e, e > 0;
            let x = self.start_partition - self.partition_range_start_inclusive + q;
            assert(x % nn == (if x < nn { x } else { x - nn })) by (nonlinear_arith) requires 0 <= x < 2 * nn, nn > 0;
        }
        let mut partition_number =
            self.start_partition as u64 + (epoch - self.start_epoch) / self.epochs_per_partition;
        if partition_number > self.partition_range_end_inclusive as u64 {
            partition_number -= num_partitions as u64;
        }

        rt_assert(partition_number >= self.partition_range_start_inclusive as u64);
        rt_assert(partition_number <= self.partition_range_end_inclusive as u64);

        Some(partition_number as u8)
    }
}
}
fn main() {}
