use vstd::prelude::*;
verus! {
pub struct SubstateLockError;

#[derive(Debug, Copy, Clone, PartialEq, Eq)]
pub enum SubstateLockState {
    Read(usize),
    Write,
}

impl SubstateLockState {
    fn no_lock() -> (r: Self) ensures r == SubstateLockState::Read(0) {
        Self::Read(0)
    }

    fn is_locked(&self) -> (b: bool) ensures b == (*self != SubstateLockState::Read(0)) {
        !matches!(self, SubstateLockState::Read(0usize))
    }

    fn try_lock(&mut self, read_only: bool) -> (r: Result<(), SubstateLockError>)
        requires *old(self) matches SubstateLockState::Read(n) ==> n < usize::MAX,
 ensures r.is_ok() <==> (if read_only { *old(self) is Read } else { *old(self) == SubstateLockState::Read(0) }),
    {
        match self {
            SubstateLockState::Read(n) => {
                if read_only {
                    *n += 1;
                } else {
                    if *n != 0 {
                        return Err(SubstateLockError);
                    }
                    *self = SubstateLockState::Write;
                }
            }
            SubstateLockState::Write => {
                return Err(SubstateLockError);
            }
        }

        Ok(())
    }
}
}
fn main() {}
