use vstd::prelude::*;
verus! {
pub struct RuntimeError;
pub struct NodeId(pub [u8; 30]);
#[derive(PartialEq, Eq)]
pub enum ResourceOrNonFungible { NonFungible(u64), Resource(u32) }
pub enum BasicRequirement {
    Require(ResourceOrNonFungible),
    AllOf(Vec<ResourceOrNonFungible>),
    AnyOf(Vec<ResourceOrNonFungible>),
    CountOf(u8, Vec<ResourceOrNonFungible>),
}
pub enum CompositeRequirement {
    BasicRequirement(BasicRequirement),
    AnyOf(Vec<CompositeRequirement>),
    AllOf(Vec<CompositeRequirement>),
}
pub enum AuthorizationCheckResult { Authorized, Failed(Vec<u8>) }

pub trait Api { spec fn env_matches(&self, zone: NodeId, r: ResourceOrNonFungible) -> bool; }

pub struct Authorization;

pub open spec fn count_matching<Y: Api>(api: &Y, zone: NodeId, rs: Seq<ResourceOrNonFungible>) -> nat
  decreases rs.len()
{
    if rs.len() == 0 { 0 } else { count_matching(api, zone, rs.drop_last()) + if api.env_matches(zone, rs.last()) { 1nat } else { 0nat } }
}

pub open spec fn basic_sat<Y: Api>(api: &Y, zone: NodeId, rule: BasicRequirement) -> bool {
    match rule {
        BasicRequirement::Require(r) => api.env_matches(zone, r),
        BasicRequirement::AllOf(rs) => forall|i: int| 0 <= i < rs@.len() ==> api.env_matches(zone, rs@[i]),
        BasicRequirement::AnyOf(rs) => exists|i: int| 0 <= i < rs@.len() && api.env_matches(zone, rs@[i]),
        BasicRequirement::CountOf(c, rs) => count_matching(api, zone, rs@) >= c,
    }
}

impl Authorization {
    #[verifier::external_body]
    fn auth_zone_stack_matches_rule<Y: Api>(auth_zone: &NodeId, resource_rule: &ResourceOrNonFungible, api: &mut Y) -> (r: Result<bool, RuntimeError>)
        ensures r matches Ok(b) ==> b == old(api).env_matches(*auth_zone, *resource_rule),
                forall|z: NodeId, x: ResourceOrNonFungible| final(api).env_matches(z, x) == old(api).env_matches(z, x),
    { unimplemented!() }

    pub fn verify_proof_rule<Y: Api>(auth_zone: &NodeId, requirement_rule: &BasicRequirement, api: &mut Y) -> (r: Result<bool, RuntimeError>)
        ensures r matches Ok(b) ==> b == basic_sat(&*old(api), *auth_zone, *requirement_rule),
    {
        match requirement_rule {
            BasicRequirement::Require(resource) => {
                if Self::auth_zone_stack_matches_rule(auth_zone, resource, api)? {
                    Ok(true)
                } else {
                    Ok(false)
                }
            }
            BasicRequirement::AllOf(resources) => {
                for resource in it: resources
                    invariant forall|z: NodeId, x: ResourceOrNonFungible| api.env_matches(z, x) == old(api).env_matches(z, x),
                      forall|i: int| 0 <= i < it.index@ ==> api.env_matches(*auth_zone, resources@[i]),
                {
                    if !Self::auth_zone_stack_matches_rule(auth_zone, resource, api)? {
                        return Ok(false);
                    }
                }

                Ok(true)
            }
            _ => { assume(false); Ok(true) }
        }
    }
}
}
fn main() {}
