use vstd::prelude::*;
verus! {
pub mod shim {
    use vstd::prelude::*;
    use core::ops::SubAssign;
    use core::cmp::Ordering;
    #[verifier::external_body]
    #[derive(Clone, Copy)]
    pub struct Decimal { inner: [u64; 3] }
    pub uninterp spec fn dec_int(d: Decimal) -> int;
    pub uninterp spec fn dec_of(i: int) -> Decimal;
    pub open spec fn dec_in_range(i: int) -> bool { -0x8000_0000_0000_0000_0000_0000_0000_0000_0000_0000_0000_0000 <= i <= 0x7fff_ffff_ffff_ffff_ffff_ffff_ffff_ffff_ffff_ffff_ffff_ffff }
    pub broadcast axiom fn ax_dec_of(i: int) requires dec_in_range(i) ensures #[trigger] dec_int(dec_of(i)) == i;
    pub broadcast axiom fn ax_dec_range(d: Decimal) ensures dec_in_range(#[trigger] dec_int(d));
    pub broadcast axiom fn ax_dec_ext(a: Decimal, b: Decimal) ensures (#[trigger] dec_int(a) == #[trigger] dec_int(b)) ==> a == b;

    impl PartialEq for Decimal { #[verifier::external_body] fn eq(&self, o: &Decimal) -> (r: bool) ensures r == (dec_int(*self) == dec_int(*o)) { unimplemented!() } }
    impl PartialOrd for Decimal {
        #[verifier::external_body]
        fn partial_cmp(&self, b: &Decimal) -> (r: Option<Ordering>)
            ensures r == Some(if dec_int(*self) < dec_int(*b) { Ordering::Less } else if dec_int(*self) == dec_int(*b) { Ordering::Equal } else { Ordering::Greater })
        { unimplemented!() }
    }
    impl vstd::std_specs::ops::SubAssignSpecImpl<Decimal> for Decimal {
        open spec fn obeys_sub_assign_spec() -> bool { true }
        open spec fn sub_assign_req(&self, rhs: Decimal) -> bool { dec_in_range(dec_int(*self) - dec_int(rhs)) }
        open spec fn sub_assign_spec(&self, rhs: Decimal) -> Decimal { dec_of(dec_int(*self) - dec_int(rhs)) }
    }
    impl SubAssign for Decimal { #[verifier::external_body] fn sub_assign(&mut self, rhs: Decimal) { unimplemented!() } }
    impl Decimal {
        #[verifier::external_body]
        pub fn checked_mul_u32(self, b: u32) -> (r: Option<Decimal>)
          ensures r matches Some(x) ==> dec_int(x) == dec_int(self) * b,
                  r is None <==> !dec_in_range(dec_int(self) * b)
        { unimplemented!() }
    }
}
pub mod unit {
    use vstd::prelude::*;
    use super::shim::*; use super::shim::Decimal;
    broadcast use {ax_dec_of, ax_dec_range, ax_dec_ext};

pub enum FeeReserveError { InsufficientBalance { required: Decimal, remaining: Decimal }, Overflow, LimitExceeded { limit: u32, committed: u32, new: u32 } }

pub struct R { pub xrd_balance: Decimal, pub price: Decimal, pub committed: u32, pub limit: u32 }

fn checked_add(a: u32, b: u32) -> (r: Result<u32, FeeReserveError>)
  ensures r matches Ok(x) ==> x == a + b, r is Err <==> a + b > u32::MAX
{
    a.checked_add(b).ok_or(FeeReserveError::Overflow)
}

impl R {
    fn check_execution_cost_unit_limit(&self, cost_units: u32) -> (r: Result<(), FeeReserveError>)
      ensures r is Ok <==> self.committed + cost_units <= self.limit
    {
        if checked_add(self.committed, cost_units)?
            > self.limit
        {
            return Err(FeeReserveError::LimitExceeded {
                limit: self.limit,
                committed: self.committed,
                new: cost_units,
            });
        }
        Ok(())
    }

    fn consume_execution_internal(&mut self, cost_units: u32) -> (r: Result<(), FeeReserveError>)
      requires dec_int(old(self).xrd_balance) >= 0, dec_int(old(self).price) >= 0,
      ensures r is Ok ==> dec_int(final(self).xrd_balance) == dec_int(old(self).xrd_balance) - dec_int(old(self).price) * cost_units
           && final(self).committed == old(self).committed + cost_units && final(self).committed <= final(self).limit,
         dec_int(final(self).xrd_balance) >= 0,
         r is Err ==> *final(self) == *old(self),
    {
        self.check_execution_cost_unit_limit(cost_units)?;

        let amount = self
            .price
            .checked_mul_u32(cost_units)
            .ok_or(FeeReserveError::Overflow)?;
        if self.xrd_balance < amount {
            Err(FeeReserveError::InsufficientBalance {
                required: amount,
                remaining: self.xrd_balance,
            })
        } else {
            self.xrd_balance -= amount;
            self.committed += cost_units;
            Ok(())
        }
    }
}
}
}
fn main() {}
