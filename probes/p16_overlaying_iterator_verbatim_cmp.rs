use vstd::prelude::*;
use core::cmp::Ordering;
verus! {
// ---- shim: a Peekable over a finite sequence --------------------------------
#[verifier::external_body]
#[verifier::reject_recursive_types(T)]
pub struct Peekable<T> { v: Vec<T> }
impl<T> Peekable<T> {
    pub uninterp spec fn rest(&self) -> Seq<T>;   // remaining items
    #[verifier::external_body]
    pub fn next(&mut self) -> (r: Option<T>)
        ensures old(self).rest().len() == 0 ==> r is None && final(self).rest() == old(self).rest(),
                old(self).rest().len() > 0 ==> r == Some(old(self).rest()[0]) && final(self).rest() == old(self).rest().subrange(1, old(self).rest().len() as int),
    { unimplemented!() }
}
impl<V> Peekable<(u64, V)> {
    #[verifier::external_body]
    pub fn peek_key(&mut self) -> (r: Option<&u64>)
        ensures final(self).rest() == old(self).rest(),
                old(self).rest().len() == 0 ==> r is None,
                old(self).rest().len() > 0 ==> r == Some(&old(self).rest()[0].0),
    { unimplemented!() }
}
#[verifier::external_body]
pub fn cmp_u64(a: &u64, b: &u64) -> (o: Ordering)
    ensures o == (if *a < *b { Ordering::Less } else if *a == *b { Ordering::Equal } else { Ordering::Greater })
{ a.cmp(b) }

#[verifier::reject_recursive_types(V)]
pub struct OverlayingIterator<V> {
    pub underlying: Peekable<(u64, V)>,
    pub overlaying: Peekable<(u64, Option<V>)>,
}

// ---- oracle: ordered merge ---------------------------------------------------
pub open spec fn merged<V>(u: Seq<(u64, V)>, o: Seq<(u64, Option<V>)>) -> Seq<(u64, V)>
    decreases u.len() + o.len()
{
    if o.len() == 0 { u }
    else if u.len() > 0 && u[0].0 < o[0].0 { seq![u[0]] + merged(u.subrange(1, u.len() as int), o) }
    else {
        let u2 = if u.len() > 0 && u[0].0 == o[0].0 { u.subrange(1, u.len() as int) } else { u };
        let rest = merged(u2, o.subrange(1, o.len() as int));
        match o[0].1 { Some(v) => seq![(o[0].0, v)] + rest, None => rest }
    }
}

impl<V> OverlayingIterator<V> {
    fn next(&mut self) -> (ret: Option<(u64, V)>)
        ensures
            ({ let m = merged(old(self).underlying.rest(), old(self).overlaying.rest());
               let m2 = merged(final(self).underlying.rest(), final(self).overlaying.rest());
               if m.len() == 0 { ret is None && m2.len() == 0 } else { ret == Some(m[0]) && m2 == m.subrange(1, m.len() as int) } }),
    {
        loop
            invariant merged(self.underlying.rest(), self.overlaying.rest()) == merged(old(self).underlying.rest(), old(self).overlaying.rest()),
            decreases self.underlying.rest().len() + self.overlaying.rest().len(),
        {
            if let Some(overlaying_key) = self.overlaying.peek_key() {
                if let Some(underlying_key) = self.underlying.peek_key() {
                    match underlying_key.cmp(overlaying_key) {
                        Ordering::Less => {
                            return self.underlying.next(); // return and move it forward
                        }
                        Ordering::Equal => {
                            self.underlying.next(); // only move it forward
                        }
                        Ordering::Greater => {
                            // leave it as-is
                        }
                    };
                }
                let (overlaying_key, overlaying_change) = self.overlaying.next().unwrap();
                match overlaying_change {
                    Some(value) => return Some((overlaying_key, value)),
                    None => continue, // we may need to skip over an unbounded number of deletes
                }
            } else {
                return self.underlying.next();
            }
        }
    }
}
}
fn main() {}
