use vstd::prelude::*;
verus! {
pub struct RuntimeError;
pub enum BasicRequirement { Require(u32) }
pub enum CompositeRequirement {
    BasicRequirement(BasicRequirement),
    AnyOf(Vec<CompositeRequirement>),
    AllOf(Vec<CompositeRequirement>),
}
pub enum AuthorizationCheckResult { Authorized, Failed(Vec<u8>) }
pub trait Api { spec fn env(&self) -> Set<u32>; }

pub open spec fn sat(env: Set<u32>, rule: CompositeRequirement) -> bool
    decreases rule
{
    match rule {
        CompositeRequirement::BasicRequirement(BasicRequirement::Require(r)) => env.contains(r),
        CompositeRequirement::AnyOf(rules) => exists|i: int| 0 <= i < rules@.len() && sat(env, #[trigger] rules@[i]),
        CompositeRequirement::AllOf(rules) => forall|i: int| 0 <= i < rules@.len() ==> sat(env, #[trigger] rules@[i]),
    }
}
pub struct Authorization;
impl Authorization {
    #[verifier::external_body]
    pub fn verify_proof_rule<Y: Api>(rule: &BasicRequirement, api: &mut Y) -> (r: Result<bool, RuntimeError>)
        ensures r matches Ok(b) ==> b == (match *rule { BasicRequirement::Require(x) => old(api).env().contains(x) }),
                final(api).env() == old(api).env(),
    { unimplemented!() }

    #[verifier::exec_allows_no_decreases_clause]
    pub fn verify_auth_rule<Y: Api>(requirement_rule: &CompositeRequirement, api: &mut Y) -> (ret: Result<AuthorizationCheckResult, RuntimeError>)
        ensures ret matches Ok(res) ==> (res is Authorized <==> sat(old(api).env(), *requirement_rule)),
                final(api).env() == old(api).env(),
    {
        match requirement_rule {
            CompositeRequirement::BasicRequirement(rule) => {
                if Self::verify_proof_rule(rule, api)? {
                    Ok(AuthorizationCheckResult::Authorized)
                } else {
                    Ok(AuthorizationCheckResult::Failed(vec![]))
                }
            }
            CompositeRequirement::AnyOf(rules) => {
                for r in it: rules
                    invariant api.env() == old(api).env(),
                       forall|i: int| 0 <= i < it.index@ ==> !sat(old(api).env(), #[trigger] rules@[i]),
                       *requirement_rule is AnyOf, requirement_rule->AnyOf_0 == *rules,
                {
                    proof { assert(*r == rules@[it.index@ as int]); }
                    let rtn = Self::verify_auth_rule(r, api)?;
                    proof { assert((rtn is Authorized) == sat(old(api).env(), rules@[it.index@ as int])); }
                    if matches!(rtn, AuthorizationCheckResult::Authorized) {
                        proof {
                            reveal_with_fuel(sat, 2);
                            assert(rtn is Authorized);
                            assert(0 <= it.index@ < rules@.len());
                            assert(sat(old(api).env(), rules@[it.index@ as int]));
                            assert(decreases_to!(*requirement_rule => rules@[it.index@ as int]));
 assert(sat(old(api).env(), *requirement_rule));
                        }
                        return Ok(rtn);
                    }
                }
                Ok(AuthorizationCheckResult::Failed(vec![]))
            }
            CompositeRequirement::AllOf(rules) => {
                for r in it: rules
                    invariant api.env() == old(api).env(),
                       forall|i: int| 0 <= i < it.index@ ==> sat(old(api).env(), #[trigger] rules@[i]),
                       *requirement_rule is AllOf, requirement_rule->AllOf_0 == *rules,
                {
                    proof { assert(*r == rules@[it.index@ as int]); }
                    let rtn = Self::verify_auth_rule(r, api)?;
                    proof { assert((rtn is Authorized) == sat(old(api).env(), rules@[it.index@ as int])); }
                    if matches!(rtn, AuthorizationCheckResult::Failed(..)) {
                        proof {
                            reveal_with_fuel(sat, 2);
                            assert(!sat(old(api).env(), rules@[it.index@ as int]));
                            assert(decreases_to!(*requirement_rule => rules@[it.index@ as int]));
 assert(!sat(old(api).env(), *requirement_rule));
                        }
                        return Ok(rtn);
                    }
                }

                Ok(AuthorizationCheckResult::Authorized)
            }
        }
    }
}
}
fn main() {}
