use vstd::prelude::*;
verus! {
pub mod shim {
    use vstd::prelude::*;
    pub struct RuntimeError { pub code: u32 }
    pub type FieldHandle = u32;
    pub type FieldIndex = u8;
    pub type ActorStateHandle = u32;
    pub const ACTOR_STATE_SELF: ActorStateHandle = 0u32;
    pub struct LockFlags { pub bits: u32 }
    impl LockFlags {
        pub const MUTABLE: LockFlags = LockFlags { bits: 1 };
        pub fn read_only() -> (r: LockFlags) ensures r.bits == 0 { LockFlags { bits: 0 } }
    }
    /// ghost value of a field: an abstract scalar per field is enough for this unit
    pub enum GhostVal { Milli(i64), Minute(i32), Other }
    pub trait VerifPayload: Sized { spec fn ghost(&self) -> GhostVal; }

    pub trait SystemApi<E>: Sized {
        /// ghost heap: field index -> value ; open handles: handle -> (field, mutable)
        spec fn fields(&self) -> Map<FieldIndex, GhostVal>;
        spec fn handles(&self) -> Map<FieldHandle, (FieldIndex, bool)>;

        fn actor_open_field(&mut self, object_handle: ActorStateHandle, field: FieldIndex, flags: LockFlags) -> (r: Result<FieldHandle, E>)
            ensures final(self).fields() == old(self).fields(),
                    r matches Ok(h) ==> !old(self).handles().contains_key(h) && final(self).handles() == old(self).handles().insert(h, (field, flags.bits == 1)),
                    r is Err ==> final(self).handles() == old(self).handles();
        fn field_read_typed<S: VerifPayload>(&mut self, handle: FieldHandle) -> (r: Result<S, E>)
            requires old(self).handles().contains_key(handle)
            ensures final(self).fields() == old(self).fields(), final(self).handles() == old(self).handles(),
                    r matches Ok(s) ==> s.ghost() == old(self).fields()[old(self).handles()[handle].0];
        fn field_write_typed<S: VerifPayload>(&mut self, handle: FieldHandle, substate: &S) -> (r: Result<(), E>)
            requires old(self).handles().contains_key(handle), old(self).handles()[handle].1
            ensures final(self).handles() == old(self).handles(),
                    r is Ok ==> final(self).fields() == old(self).fields().insert(old(self).handles()[handle].0, substate.ghost()),
                    r is Err ==> final(self).fields() == old(self).fields();
        fn field_close(&mut self, handle: FieldHandle) -> (r: Result<(), E>)
            requires old(self).handles().contains_key(handle)
            ensures final(self).fields() == old(self).fields(),
                    r is Ok ==> final(self).handles() == old(self).handles().remove(handle);
    }
    // typed payloads of this unit (shim of the versioned-payload wrappers)
    pub struct ProposerMilliTimestampSubstate { pub epoch_milli: i64 }
    pub struct ConsensusManagerProposerMilliTimestampFieldPayload { pub content: ProposerMilliTimestampSubstate }
    impl VerifPayload for ConsensusManagerProposerMilliTimestampFieldPayload { open spec fn ghost(&self) -> GhostVal { GhostVal::Milli(self.content.epoch_milli) } }
    impl ConsensusManagerProposerMilliTimestampFieldPayload {
        pub fn fully_update_and_into_latest_version(self) -> (r: ProposerMilliTimestampSubstate) ensures r == self.content { self.content }
        pub fn from_content_source(c: ProposerMilliTimestampSubstate) -> (r: Self) ensures r.content == c { Self { content: c } }
    }
    pub enum ConsensusManagerField { Configuration, State, ValidatorRewards, CurrentValidatorSet, CurrentProposalStatistic, ProposerMinuteTimestamp, ProposerMilliTimestamp }
    impl ConsensusManagerField {
        pub fn into(self) -> (r: u8) ensures r == (match self { ConsensusManagerField::ProposerMilliTimestamp => 6u8, ConsensusManagerField::ProposerMinuteTimestamp => 5u8, _ => 0u8 }) {
            match self { ConsensusManagerField::ProposerMilliTimestamp => 6u8, ConsensusManagerField::ProposerMinuteTimestamp => 5u8, _ => 0u8 }
        }
    }
    pub fn invalid_ts(from_millis: i64, to_millis: i64) -> RuntimeError { RuntimeError { code: 1 } }
}
pub mod unit {
    use vstd::prelude::*;
    use super::shim::*;
    pub struct ConsensusManagerBlueprint;
    impl ConsensusManagerBlueprint {
    fn check_non_decreasing_and_update_timestamps<Y: SystemApi<RuntimeError>>(
        current_time_ms: i64,
        api: &mut Y,
    ) -> (ret: Result<(), RuntimeError>)
        requires old(api).fields().contains_key(6u8), old(api).fields()[6u8] is Milli,
        ensures
            ret is Ok ==> final(api).fields()[6u8] == GhostVal::Milli(current_time_ms)
                       && current_time_ms >= old(api).fields()[6u8]->Milli_0,
            (old(api).fields()[6u8]->Milli_0 > current_time_ms) ==> ret is Err && final(api).fields() == old(api).fields(),
    {
        let handle = api.actor_open_field(
            ACTOR_STATE_SELF,
            ConsensusManagerField::ProposerMilliTimestamp.into(),
            LockFlags::MUTABLE,
        )?;
        let exact_time_substate: ConsensusManagerProposerMilliTimestampFieldPayload =
            api.field_read_typed(handle)?;
        let mut exact_time_substate = exact_time_substate.fully_update_and_into_latest_version();
        let previous_timestamp = exact_time_substate.epoch_milli;
        if current_time_ms < previous_timestamp {
            return Err(invalid_ts(previous_timestamp, current_time_ms));
        } else if current_time_ms > previous_timestamp {
            exact_time_substate.epoch_milli = current_time_ms;
            api.field_write_typed(
                handle,
                &ConsensusManagerProposerMilliTimestampFieldPayload::from_content_source(
                    exact_time_substate,
                ),
            )?;
        }
        api.field_close(handle)?;
        Ok(())
    }
    }
}
}
fn main() {}
