use vstd::prelude::*;
verus! {
#[verifier::external_body]
#[verifier::reject_recursive_types(K)]
#[verifier::reject_recursive_types(V)]
pub struct NonIterMap<K, V> { k: core::marker::PhantomData<(K,V)> }
#[verifier::external_body]
#[verifier::reject_recursive_types(K)]
#[verifier::reject_recursive_types(V)]
pub struct Entry<'a, K, V> { m: &'a mut NonIterMap<K, V>, }
impl<'a, K, V> Entry<'a, K, V> {
    pub uninterp spec fn key(&self) -> K;
    pub uninterp spec fn map0(&self) -> Map<K, V>;
    #[verifier::external_body]
    pub fn or_insert(self, default: V) -> (r: &'a mut V)
        ensures *r == (if self.map0().contains_key(self.key()) { self.map0()[self.key()] } else { default }),
    { unimplemented!() }
}
impl<K, V> NonIterMap<K, V> {
    pub uninterp spec fn view(&self) -> Map<K, V>;
    #[verifier::external_body]
    pub fn entry(&mut self, key: K) -> (e: Entry<'_, K, V>)
        ensures e.key() == key, e.map0() == old(self)@,
    { unimplemented!() }
}
pub struct L { pub node_num_locked: NonIterMap<u32, usize> }
impl L {
    pub fn lock(&mut self, node_id: &u32)
      requires old(self).node_num_locked@.contains_key(*node_id) ==> old(self).node_num_locked@[*node_id] < usize::MAX
    {
        let count = self.node_num_locked.entry(*node_id).or_insert(0);
        *count += 1;
    }
}
}
fn main() {}
