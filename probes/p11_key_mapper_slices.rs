use vstd::prelude::*;
verus! {
pub uninterp spec fn spec_hash(b: Seq<u8>) -> Seq<u8>;
pub broadcast axiom fn ax_hash_len(b: Seq<u8>) ensures #[trigger] spec_hash(b).len() == 32;

pub struct Hash(pub [u8; 32]);
#[verifier::external_body]
pub fn hash(data: &[u8]) -> (h: Hash) ensures h.0@ == spec_hash(data@) { unimplemented!() }

pub open spec fn flat(s: Seq<&[u8]>) -> Seq<u8> decreases s.len() { if s.len() == 0 { Seq::empty() } else { flat(s.drop_last()) + s.last()@ } }
#[verifier::external_body]
pub fn concat2(a: &[u8], b: &[u8]) -> (r: Vec<u8>) ensures r@ == a@ + b@ { [a, b].concat() }
pub struct SpreadPrefixKeyMapper;
impl SpreadPrefixKeyMapper {
    const HASHED_PREFIX_LENGTH: usize = 20;

    fn to_hash_prefixed(plain_bytes: &[u8]) -> (ret: Vec<u8>)
        ensures ret@ == spec_hash(plain_bytes@).subrange(0, 20) + plain_bytes@
    {
        let hashed_prefix = &hash(plain_bytes).0[..Self::HASHED_PREFIX_LENGTH];
        concat2(hashed_prefix, plain_bytes)
    }

    fn from_hash_prefixed(prefixed_bytes: &[u8]) -> (ret: &[u8])
        requires prefixed_bytes@.len() >= 20
        ensures ret@ == prefixed_bytes@.subrange(20, prefixed_bytes@.len() as int)
    {
        &prefixed_bytes[Self::HASHED_PREFIX_LENGTH..]
    }
}
}
fn main() {}
