use vstd::prelude::*;
verus! {
pub struct E;
#[verifier::external_body]
#[derive(Clone, Copy)]
pub struct Decimal { i: [u64;3] }
pub uninterp spec fn di(d: Decimal) -> int;
impl Decimal {
    #[verifier::external_body]
    pub fn checked_div(self, o: Decimal) -> (r: Option<Decimal>)
        ensures r matches Some(x) ==> di(o) != 0 && di(x) == (di(self) * 1000) / di(o)
    { unimplemented!() }
    #[verifier::external_body]
    pub fn checked_mul(self, o: Decimal) -> (r: Option<Decimal>)
        ensures r matches Some(x) ==> di(x) == (di(self) * di(o)) / 1000
    { unimplemented!() }
    #[verifier::external_body]
    pub fn is_zero(&self) -> (b: bool) ensures b == (di(*self) == 0) { unimplemented!() }
}
fn calculate_stake_unit_amount(
    xrd_amount: Decimal,
    total_stake_xrd_amount: Decimal,
    total_stake_unit_supply: Decimal,
) -> (ret: Result<Decimal, E>)
  ensures ret matches Ok(u) ==> (if di(total_stake_xrd_amount) == 0 { u == xrd_amount } else {
        di(u) == (di(xrd_amount) * ((di(total_stake_unit_supply) * 1000) / di(total_stake_xrd_amount))) / 1000 })
{
    if total_stake_xrd_amount.is_zero() {
        Ok(xrd_amount)
    } else {
        total_stake_unit_supply
            .checked_div(total_stake_xrd_amount)
            .and_then(|amount: Decimal| -> (r: Option<Decimal>)
                ensures r matches Some(x) ==> di(x) == (di(xrd_amount) * di(amount)) / 1000
                { xrd_amount.checked_mul(amount) })
            .ok_or(E)
    }
}
}
fn main() {}
