use vstd::prelude::*;
verus! {
pub const SECONDS_IN_A_DAY: i64 = 86400;
pub const SECONDS_IN_AN_HOUR: i64 = 3600;
pub const SECONDS_IN_A_MINUTE: i64 = 60;
const UNIX_EPOCH_YEAR: u32 = 1970;
const SECONDS_IN_A_NON_LEAP_YEAR: i64 = 365 * 24 * 60 * 60;
const SECONDS_IN_A_LEAP_YEAR: i64 = 366 * 24 * 60 * 60;
const LEAP_YEAR_DAYS_IN_MONTHS: [u8; 12] = [31, 29, 31, 30, 31, 30, 31, 31, 30, 31, 30, 31];

pub struct Instant { pub seconds_since_unix_epoch: i64 }
impl Instant { pub fn new(s: i64) -> (r: Instant) ensures r.seconds_since_unix_epoch == s { Instant { seconds_since_unix_epoch: s } } }

pub struct UtcDateTime { pub year: u32, pub month: u8, pub day_of_month: u8, pub hour: u8, pub minute: u8, pub second: u8 }

// ---------- oracle (from the Gregorian rule) ----------
pub open spec fn leap(y: int) -> bool { y % 4 == 0 && (y % 100 != 0 || y % 400 == 0) }
pub open spec fn dim(y: int, m: int) -> int {
    if m == 2 { if leap(y) { 29 } else { 28 } } else if m == 4 || m == 6 || m == 9 || m == 11 { 30 } else { 31 }
}
pub open spec fn days_before_month(y: int, m: int) -> int decreases m { if m <= 1 { 0 } else { days_before_month(y, m - 1) + dim(y, m - 1) } }
pub open spec fn leaps_before(y: int) -> int { (y - 1) / 4 - (y - 1) / 100 + (y - 1) / 400 }   // leap years in [1, y)
pub open spec fn days_before_year(y: int) -> int { 365 * (y - 1) + leaps_before(y) }               // days since 0001-01-01
pub open spec fn civil_days(y: int, m: int, d: int) -> int { days_before_year(y) + days_before_month(y, m) + (d - 1) - days_before_year(1970) }
pub open spec fn civil_secs(dt: UtcDateTime) -> int { civil_days(dt.year as int, dt.month as int, dt.day_of_month as int) * 86400 + dt.hour * 3600 + dt.minute * 60 + dt.second }
pub open spec fn valid(dt: UtcDateTime) -> bool {
    dt.year >= 1 && 1 <= dt.month <= 12 && 1 <= dt.day_of_month <= dim(dt.year as int, dt.month as int) && dt.hour <= 23 && dt.minute <= 59 && dt.second <= 59
}

#[verifier::external_body]
fn is_multiple_of(a: u32, b: u32) -> (r: bool) requires b != 0 ensures r == (a % b == 0) { a % b == 0 }

impl UtcDateTime {
    fn num_leap_years_up_to_exclusive(year: u32) -> (ret: u32)
        requires year >= 1
        ensures ret == leaps_before(year as int)
    {
        let prev = year - 1;
        (prev / 4) - (prev / 100) + (prev / 400)
    }

    fn is_leap_year(year: u32) -> (ret: bool) ensures ret == leap(year as int) {
        is_multiple_of(year, 4) && (!is_multiple_of(year, 100) || is_multiple_of(year, 400))
    }

    pub fn to_instant_post1970(&self) -> (ret: Instant)
        requires valid(*self), self.year >= 1970
        ensures ret.seconds_since_unix_epoch == civil_secs(*self)
    {
        let is_leap_year = Self::is_leap_year(self.year);
        proof { assert(0 <= leaps_before(self.year as int) - leaps_before(1971) <= self.year - 1970); }
            let num_leap_years_between_self_and_epoch =
                (Self::num_leap_years_up_to_exclusive(self.year)
                    - Self::num_leap_years_up_to_exclusive(UNIX_EPOCH_YEAR + 1))
                    as i64;

            let num_non_leap_years_between_self_and_epoch =
                (self.year - UNIX_EPOCH_YEAR) as i64 - num_leap_years_between_self_and_epoch;

            let seconds_up_to_the_beginning_of_the_year = (num_non_leap_years_between_self_and_epoch
                * SECONDS_IN_A_NON_LEAP_YEAR)
                + (num_leap_years_between_self_and_epoch * SECONDS_IN_A_LEAP_YEAR);

            let mut seconds_in_ended_months = 0;
            for n in iter: 0..self.month - 1
                invariant
                    valid(*self), is_leap_year == leap(self.year as int),
                    seconds_in_ended_months == days_before_month(self.year as int, n as int + 1) * 86400,
                    0 <= n <= 11, self.month - 1 <= 11,
                    0 <= seconds_in_ended_months <= 366 * 86400,
            {
                proof { reveal_with_fuel(days_before_month, 13); }
                seconds_in_ended_months +=
                    LEAP_YEAR_DAYS_IN_MONTHS[n as usize] as i64 * SECONDS_IN_A_DAY;
                if !is_leap_year && n == 1 {
                    seconds_in_ended_months -= SECONDS_IN_A_DAY;
                }
            }

            let total_seconds_since_unix_epoch = seconds_up_to_the_beginning_of_the_year
                + seconds_in_ended_months
                + (self.day_of_month - 1) as i64 * SECONDS_IN_A_DAY
                + self.hour as i64 * SECONDS_IN_AN_HOUR
                + self.minute as i64 * SECONDS_IN_A_MINUTE
                + self.second as i64;

            Instant::new(total_seconds_since_unix_epoch)
    }
}
}
fn main() {}
