use vstd::prelude::*;
verus! {
#[verifier::external_body]
#[verifier::reject_recursive_types(K)]
#[verifier::reject_recursive_types(V)]
pub struct NonIterMap<K, V> { k: core::marker::PhantomData<(K,V)> }
impl<K, V> NonIterMap<K, V> {
    pub uninterp spec fn view(&self) -> Map<K, V>;
    #[verifier::external_body]
    pub fn get_mut(&mut self, key: &K) -> (r: Option<&mut V>)
        ensures
            match r {
                Some(v) => old(self)@.contains_key(*key) && *v == old(self)@[*key] && final(self)@ == old(self)@.insert(*key, *final(v)),
                None => !old(self)@.contains_key(*key) && final(self)@ == old(self)@,
            }
    { unimplemented!() }
}
pub struct V1 { pub bucket_ids: NonIterMap<u32, usize> }
pub enum E { NotFound(u32) }
impl V1 {
    pub fn new_proof(&mut self, bucket_id: &u32) -> (r: Result<(), E>)
      requires old(self).bucket_ids@.contains_key(*bucket_id) ==> old(self).bucket_ids@[*bucket_id] < usize::MAX
      ensures r is Ok <==> old(self).bucket_ids@.contains_key(*bucket_id),
         r is Ok ==> final(self).bucket_ids@ == old(self).bucket_ids@.insert(*bucket_id, (old(self).bucket_ids@[*bucket_id] + 1) as usize),
    {
        if let Some(cnt) = self.bucket_ids.get_mut(bucket_id) {
            *cnt += 1;
        } else {
            return Err(E::NotFound(*bucket_id));
        }
        Ok(())
    }
}
}
fn main() {}
