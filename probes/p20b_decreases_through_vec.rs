use vstd::prelude::*;
verus! {
pub enum C { B(u32), AnyOf(Vec<C>), AllOf(Vec<C>) }
pub open spec fn sat(env: Set<u32>, rule: C) -> bool
    decreases rule
{
    match rule {
        C::B(r) => env.contains(r),
        C::AnyOf(rules) => exists|i: int| 0 <= i < rules@.len() && sat(env, #[trigger] rules@[i]),
        C::AllOf(rules) => forall|i: int| 0 <= i < rules@.len() ==> sat(env, #[trigger] rules@[i]),
    }
}
proof fn t(env: Set<u32>, rule: C, k: int)
    requires rule is AnyOf, 0 <= k < rule->AnyOf_0@.len(), sat(env, rule->AnyOf_0@[k])
    ensures sat(env, rule)
{
    let rules = rule->AnyOf_0;
    assert(decreases_to!(rule => rules));
    assert(decreases_to!(rules => rules@));
    assert(decreases_to!(rules@ => rules@[k]));
    assert(decreases_to!(rule => rules@[k]));
}
}
fn main() {}
