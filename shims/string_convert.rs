// ---- shims/string_convert.rs : std String / From / Into facts that vstd does not specify ---------
// ASSUMED from the std documentation; all three are statements about std code, none about /repo.
pub mod string_convert {
    use vstd::prelude::*;
    /// `impl PartialEq<str> for String`: content comparison
    pub assume_specification[<String as PartialEq<str>>::eq](a: &String, b: &str) -> (r: bool)
        ensures r == (a@ == b@);
    /// `impl From<&str> for String`: copies the characters
    pub assume_specification<'a, 'b>[<String as From<&'a str>>::from](s: &'b str) -> (r: String)
        ensures r@ == s@;
    /// `impl<T> From<T> for T`: identity
    pub assume_specification<T>[<T as From<T>>::from](t: T) -> (r: T)
        ensures r == t;
}
