// ---- shims/ledger_sdk_c42.rs : ghost-ledger model of the system API / native SDK calls used by the consensus
// manager's epoch-end accounting and by the validator blueprint (unit c42_emissions) ---------------------------
// TRUSTED BASE.  Everything here is an ASSUMED contract of code that is NOT under proof:
//   * radix-engine-interface `SystemApi` field API (actor_open_field / field_read_typed / field_write_typed /
//     field_close) for the validator's `State` field: a read yields the stored ValidatorSubstate, a write (through a
//     handle opened MUTABLE) replaces it, open/close only manage handles;  reading through a handle that is not the
//     State field of the executing component is a failed precondition (the real code panics on the wrong payload);
//   * radix-native-sdk wrappers `Vault`, `Bucket`, `FungibleBucket`, `ResourceManager`, `Runtime::emit_event` (each is
//     `api.call_method(..)` into the resource blueprints), specified over a ghost `World`:
//         vaults / buckets : Own -> Holding { resource, amount }      supply : resource -> Option<amount>
//     resource-container facts used (properties C03/C38/C39): amounts are never negative; `put` adds exactly the
//     bucket's amount and consumes the bucket; `take` succeeds only for 0 <= amount <= balance and moves exactly
//     `amount` into a fresh bucket; `mint_fungible` creates a fresh bucket of exactly `amount` (>= 0) and raises the
//     tracked supply by it; `drop_empty` succeeds only on an empty bucket and removes it;
//   * `SystemApi::call_method` into a VALIDATOR component with the `apply_emission` / `apply_reward` invocation
//     (the only call_method uses of apply_validator_emissions_and_rewards): the bucket named in the arguments is
//     moved to the callee (it must exist), the XRD supply is not changed by the callee, vaults owned by the calling
//     component are not touched, and the call is appended to a ghost call log.  The first two facts are what this
//     same unit PROVES for ValidatorBlueprint::{apply_emission, apply_reward} on the callee side;
//   * `scrypto_encode` of the two fixed-shape invocation structs succeeds and is injective (the callee decodes
//     exactly the arguments that were encoded);
//   * ValidatorBlueprint::index_update (secondary index of registered validators, in the consensus manager's
//     collection): does not touch the ledger of resources.  Its `requires` is an OBLIGATION at the call sites: the stake
//     recorded in the index must be the balance of the validator's stake vault.
// A call that returns Err leaves the state unspecified (the transaction is aborted and reverted as a whole, C02).
// The including unit must provide `pub mod env` (RuntimeError, ValidatorSubstate, Epoch, ..) and shims/decimal.rs.
pub mod ledger {
    use vstd::prelude::*;
    use super::env::*;
    use super::decimal::*;
    use super::decimal::Decimal;

    #[derive(Clone, Copy)]
    pub struct NodeId(pub [u8; 30]);
    #[derive(Clone, Copy)]
    pub struct Own(pub NodeId);
    #[derive(Clone, Copy)]
    pub struct ResourceAddress(pub NodeId);
    /// radix-common: `pub struct ComponentAddress(NodeId)`
    #[derive(Clone, Copy)]
    pub struct ComponentAddress(pub NodeId);
    impl ComponentAddress {
        pub fn as_node_id(&self) -> (r: &NodeId) ensures *r == self.0 { &self.0 }
    }
    /// radix-common constants: the address of the XRD resource (value irrelevant here)
    #[verifier::external_body]
    pub const XRD: ResourceAddress = ResourceAddress(NodeId([0u8; 30]));

    /// radix-engine-interface :: `pub struct Vault(pub Own)`, `pub struct Bucket(pub Own)`, `pub struct FungibleBucket(pub Bucket)`
    pub struct Vault(pub Own);
    pub struct Bucket(pub Own);
    pub struct FungibleBucket(pub Bucket);
    /// radix-native-sdk :: `pub struct ResourceManager(pub ResourceAddress)`
    pub struct ResourceManager(pub ResourceAddress);
    impl From<FungibleBucket> for Bucket {
        /*@fn radix-engine-interface/src/blueprints/resource/bucket.rs :: impl From<FungibleBucket> for Bucket :: fn from
        @*/
    }
    impl vstd::std_specs::convert::FromSpecImpl<FungibleBucket> for Bucket {
        open spec fn obeys_from_spec() -> bool { true }
        open spec fn from_spec(value: FungibleBucket) -> Bucket { value.0 }
    }

    pub ghost struct Holding { pub resource: ResourceAddress, pub amount: Decimal }
    pub ghost struct World {
        pub vaults: Map<Own, Holding>,
        pub buckets: Map<Own, Holding>,
        pub supply: Map<ResourceAddress, Option<Decimal>>,
    }
    /// resource-container invariant (C03): no negative balances or supplies
    pub open spec fn world_wf(w: World) -> bool {
        &&& forall|o: Own| w.vaults.contains_key(o) ==> (#[trigger] w.vaults[o]).amount.v() >= 0
        &&& forall|o: Own| w.buckets.contains_key(o) ==> (#[trigger] w.buckets[o]).amount.v() >= 0
        &&& forall|r: ResourceAddress| (#[trigger] w.supply[r]) matches Some(s) ==> s.v() >= 0
    }

    /// what an invocation's encoded arguments say (ghost decoding of the SBOR bytes)
    pub ghost enum CallArgs {
        ApplyEmission { bucket: Own, epoch: Epoch, made: u64, missed: u64 },
        ApplyReward { bucket: Own, epoch: Epoch },
        Other,
    }
    pub open spec fn sent_bucket(a: CallArgs) -> Option<Own> {
        match a { CallArgs::ApplyEmission { bucket, .. } => Some(bucket), CallArgs::ApplyReward { bucket, .. } => Some(bucket), CallArgs::Other => None }
    }
    /// one `call_method` into a validator: who, which method, with what, and how much XRD the passed bucket held
    pub ghost struct CallRec { pub receiver: NodeId, pub method: Seq<char>, pub args: CallArgs, pub resource: ResourceAddress, pub amount: int }

    pub type FieldHandle = u32;
    pub type FieldIndex = u8;
    pub type ActorStateHandle = u32;
    /// radix-engine-interface/src/api/mod.rs
    pub const ACTOR_STATE_SELF: ActorStateHandle = 0u32;
    pub const ACTOR_STATE_OUTER_OBJECT: ActorStateHandle = 1u32;
    /// radix-engine-interface/src/api/field_api.rs (bitflags): MUTABLE = 0b0000_0001, read_only() = empty()
    pub struct LockFlags { pub bits: u32 }
    impl LockFlags {
        pub const MUTABLE: LockFlags = LockFlags { bits: 1 };
        pub fn read_only() -> (r: LockFlags) ensures r.bits == 0 { LockFlags { bits: 0 } }
    }
    pub open spec fn is_mutable(flags: LockFlags) -> bool { flags.bits == 1 }
    /// `declare_native_blueprint_state!{ blueprint_ident: Validator, fields: { state, protocol_update_readiness_signal } }`
    /// generates a `#[repr(u8)]` enum in declaration order and `impl From<ValidatorField> for u8 { value as u8 }`.
    pub enum ValidatorField { State, ProtocolUpdateReadinessSignal }
    pub open spec fn vfidx(f: ValidatorField) -> FieldIndex {
        match f { ValidatorField::State => 0u8, ValidatorField::ProtocolUpdateReadinessSignal => 1u8 }
    }
    impl ValidatorField {
        /// stands for `<ValidatorField as Into<u8>>::into`
        #[verifier::external_body]
        pub fn into(self) -> (r: FieldIndex) ensures r == vfidx(self) { unimplemented!() }
    }
    /// an open lock: (object handle, field index, opened MUTABLE?)
    pub type Lock = (ActorStateHandle, FieldIndex, bool);
    pub open spec fn is_state_lock(l: Lock) -> bool { l.0 == ACTOR_STATE_SELF && l.1 == vfidx(ValidatorField::State) }

    /// ghost state behind the `api` object
    pub ghost struct ApiState {
        /// the ledger of resources
        pub world: World,
        /// content of the `State` field of the executing VALIDATOR component (meaningless for other actors)
        pub vstate: ValidatorSubstate,
        /// open field locks
        pub handles: Map<FieldHandle, Lock>,
        /// log of `call_method` invocations
        pub calls: Seq<CallRec>,
        /// vaults owned by the executing component (no other component's method can touch them)
        pub actor_vaults: Set<Own>,
    }

    /// radix-engine-interface `SystemApiError` (bound of `SystemApi<E>`), with the one fact this unit uses:
    /// ASSUMED -- the system API and the vault / bucket / resource-manager blueprints never fail with a
    /// *ValidatorError* (those are raised by validator.rs only).
    pub trait SystemApiError: Sized { spec fn is_validator_error(&self) -> bool; }
    impl SystemApiError for RuntimeError {
        open spec fn is_validator_error(&self) -> bool { *self matches RuntimeError::ApplicationError(ApplicationError::ValidatorError(_)) }
    }
    /// a payload type of the validator's State field (stands for ScryptoEncode/ScryptoDecode of the versioned wrapper)
    pub trait StatePayload: Sized { spec fn content(&self) -> ValidatorSubstate; }

    pub trait SystemApi<E: SystemApiError>: Sized {
        spec fn st(&self) -> ApiState;

        fn actor_open_field(&mut self, object_handle: ActorStateHandle, field: FieldIndex, flags: LockFlags) -> (r: Result<FieldHandle, E>)
            ensures
                r matches Ok(h) ==> !old(self).st().handles.contains_key(h)
                    && final(self).st() == (ApiState { handles: old(self).st().handles.insert(h, (object_handle, field, is_mutable(flags))), ..old(self).st() }),
                r matches Err(e) ==> !e.is_validator_error();

        fn field_read_typed<S: StatePayload>(&mut self, handle: FieldHandle) -> (r: Result<S, E>)
            requires
                old(self).st().handles.contains_key(handle),
                is_state_lock(old(self).st().handles[handle]),
            ensures
                r is Ok ==> final(self).st() == old(self).st(),
                r matches Ok(s) ==> s.content() == old(self).st().vstate,
                r matches Err(e) ==> !e.is_validator_error();

        fn field_write_typed<S: StatePayload>(&mut self, handle: FieldHandle, substate: &S) -> (r: Result<(), E>)
            requires
                old(self).st().handles.contains_key(handle),
                is_state_lock(old(self).st().handles[handle]),
                old(self).st().handles[handle].2,
            ensures
                r is Ok ==> final(self).st() == (ApiState { vstate: substate.content(), ..old(self).st() }),
                r matches Err(e) ==> !e.is_validator_error();

        fn field_close(&mut self, handle: FieldHandle) -> (r: Result<(), E>)
            requires old(self).st().handles.contains_key(handle)
            ensures
                r is Ok ==> final(self).st() == (ApiState { handles: old(self).st().handles.remove(handle), ..old(self).st() }),
                r matches Err(e) ==> !e.is_validator_error();

        /// ASSUMED for the two validator invocations `apply_emission` / `apply_reward` (see the file header)
        fn call_method(&mut self, receiver: &NodeId, method_name: &str, args: Vec<u8>) -> (r: Result<Vec<u8>, E>)
            ensures
                r is Ok ==> ({
                    let s = old(self).st(); let s2 = final(self).st(); let a = decoded_args(args@);
                    sent_bucket(a) matches Some(b) ==> {
                        &&& s.world.buckets.contains_key(b)
                        &&& s2.world.buckets =~= s.world.buckets.remove(b)
                        &&& s2.world.supply[XRD] == s.world.supply[XRD]
                        &&& forall|v: Own| s.actor_vaults.contains(v) ==>
                                s2.world.vaults.contains_key(v) == s.world.vaults.contains_key(v) && #[trigger] s2.world.vaults[v] == s.world.vaults[v]
                        &&& s2.vstate == s.vstate && s2.handles == s.handles && s2.actor_vaults == s.actor_vaults
                        &&& s2.calls == s.calls.push(CallRec { receiver: *receiver, method: method_name@, args: a,
                                resource: s.world.buckets[b].resource, amount: s.world.buckets[b].amount.v() })
                    }
                });
    }

    // ---- SBOR encoding of invocation arguments -----------------------------------------------------------
    /// ghost decoding of encoded invocation arguments
    pub uninterp spec fn decoded_args(bytes: Seq<u8>) -> CallArgs;
    pub trait ScryptoEncode { spec fn as_args(&self) -> CallArgs; }
    #[derive(Debug)]
    pub struct EncodeError;
    /// radix-common `scrypto_encode`: succeeds on these fixed-shape values; decoding gives back what was encoded
    #[verifier::external_body]
    pub fn scrypto_encode<T: ScryptoEncode>(value: &T) -> (r: Result<Vec<u8>, EncodeError>)
        ensures r matches Ok(b) && decoded_args(b@) == value.as_args()
    { unimplemented!() }

    // ---- native SDK wrappers -------------------------------------------------------------------------------
    pub open spec fn with_world(s: ApiState, w: World) -> ApiState { ApiState { world: w, ..s } }

    impl Vault {
        #[verifier::external_body]
        pub fn amount<Y: SystemApi<E>, E: SystemApiError>(&self, api: &mut Y) -> (r: Result<Decimal, E>)
            ensures r is Ok ==> final(api).st() == old(api).st(), r matches Err(e) ==> !e.is_validator_error(),
                    r matches Ok(a) ==> old(api).st().world.vaults.contains_key(self.0) && a == old(api).st().world.vaults[self.0].amount,
        { unimplemented!() }
        /// deposits the whole bucket (same resource required by the vault blueprint) and consumes it
        #[verifier::external_body]
        pub fn put<Y: SystemApi<E>, E: SystemApiError>(&mut self, bucket: Bucket, api: &mut Y) -> (r: Result<(), E>)
            ensures *final(self) == *old(self), r matches Err(e) ==> !e.is_validator_error(),
                    r is Ok ==> ({
                        let w = old(api).st().world;
                        &&& w.vaults.contains_key(old(self).0) && w.buckets.contains_key(bucket.0)
                        &&& w.buckets[bucket.0].resource == w.vaults[old(self).0].resource
                        &&& in_dec(w.vaults[old(self).0].amount.v() + w.buckets[bucket.0].amount.v())
                        &&& final(api).st() == with_world(old(api).st(), World {
                                vaults: w.vaults.insert(old(self).0, Holding { resource: w.vaults[old(self).0].resource, amount: Decimal::of(w.vaults[old(self).0].amount.v() + w.buckets[bucket.0].amount.v()) }),
                                buckets: w.buckets.remove(bucket.0),
                                ..w })
                    }),
        { unimplemented!() }
        /// withdraws exactly `amount` into a fresh bucket; fails unless 0 <= amount <= balance
        #[verifier::external_body]
        pub fn take<Y: SystemApi<E>, E: SystemApiError>(&mut self, amount: Decimal, api: &mut Y) -> (r: Result<Bucket, E>)
            ensures *final(self) == *old(self), r matches Err(e) ==> !e.is_validator_error(),
                    r matches Ok(b) ==> ({
                        let w = old(api).st().world;
                        &&& w.vaults.contains_key(old(self).0) && !w.buckets.contains_key(b.0)
                        &&& 0 <= amount.v() <= w.vaults[old(self).0].amount.v()
                        &&& final(api).st() == with_world(old(api).st(), World {
                                vaults: w.vaults.insert(old(self).0, Holding { resource: w.vaults[old(self).0].resource, amount: Decimal::of(w.vaults[old(self).0].amount.v() - amount.v()) }),
                                buckets: w.buckets.insert(b.0, Holding { resource: w.vaults[old(self).0].resource, amount: amount }),
                                ..w })
                    }),
        { unimplemented!() }
    }
    pub open spec fn bucket_take_post(s: ApiState, from: Own, amount: Decimal, out: Own, s2: ApiState) -> bool {
        let w = s.world;
        &&& w.buckets.contains_key(from) && !w.buckets.contains_key(out)
        &&& 0 <= amount.v() <= w.buckets[from].amount.v()
        &&& s2 == with_world(s, World {
                buckets: w.buckets.insert(from, Holding { resource: w.buckets[from].resource, amount: Decimal::of(w.buckets[from].amount.v() - amount.v()) })
                                  .insert(out, Holding { resource: w.buckets[from].resource, amount: amount }),
                ..w })
    }
    impl Bucket {
        #[verifier::external_body]
        pub fn amount<Y: SystemApi<E>, E: SystemApiError>(&self, api: &mut Y) -> (r: Result<Decimal, E>)
            ensures r is Ok ==> final(api).st() == old(api).st(), r matches Err(e) ==> !e.is_validator_error(),
                    r matches Ok(a) ==> old(api).st().world.buckets.contains_key(self.0) && a == old(api).st().world.buckets[self.0].amount,
        { unimplemented!() }
        /// splits exactly `amount` off into a fresh bucket; fails unless 0 <= amount <= content
        #[verifier::external_body]
        pub fn take<Y: SystemApi<E>, E: SystemApiError>(&self, amount: Decimal, api: &mut Y) -> (r: Result<Bucket, E>)
            ensures r matches Err(e) ==> !e.is_validator_error(),
                    r matches Ok(b) ==> bucket_take_post(old(api).st(), self.0, amount, b.0, final(api).st()),
        { unimplemented!() }
    }
    impl FungibleBucket {
        /// `impl<T: SpecificBucket> NativeBucket for T`: the same call on the wrapped bucket, result re-wrapped
        #[verifier::external_body]
        pub fn take<Y: SystemApi<E>, E: SystemApiError>(&self, amount: Decimal, api: &mut Y) -> (r: Result<FungibleBucket, E>)
            ensures r matches Err(e) ==> !e.is_validator_error(),
                    r matches Ok(b) ==> bucket_take_post(old(api).st(), self.0.0, amount, b.0.0, final(api).st()),
        { unimplemented!() }
        /// RESOURCE_MANAGER_DROP_EMPTY_BUCKET: drops the bucket, Err(DropNonEmptyBucket) unless it is empty
        #[verifier::external_body]
        pub fn drop_empty<Y: SystemApi<E>, E: SystemApiError>(self, api: &mut Y) -> (r: Result<(), E>)
            ensures r matches Err(e) ==> !e.is_validator_error(),
                    r is Ok ==> ({
                        let w = old(api).st().world;
                        &&& w.buckets.contains_key(self.0.0) && w.buckets[self.0.0].amount.v() == 0
                        &&& final(api).st() == with_world(old(api).st(), World { buckets: w.buckets.remove(self.0.0), ..w })
                    }),
        { unimplemented!() }
    }
    impl ResourceManager {
        #[verifier::external_body]
        pub fn total_supply<Y: SystemApi<E>, E: SystemApiError>(&self, api: &mut Y) -> (r: Result<Option<Decimal>, E>)
            ensures r is Ok ==> final(api).st() == old(api).st(), r matches Err(e) ==> !e.is_validator_error(),
                    r matches Ok(a) ==> a == old(api).st().world.supply[self.0],
        { unimplemented!() }
        /// mints exactly `amount` into a fresh bucket and raises the tracked supply by it
        #[verifier::external_body]
        pub fn mint_fungible<Y: SystemApi<E>, E: SystemApiError>(&mut self, amount: Decimal, api: &mut Y) -> (r: Result<FungibleBucket, E>)
            ensures *final(self) == *old(self), r matches Err(e) ==> !e.is_validator_error(),
                    r matches Ok(b) ==> ({
                        let w = old(api).st().world;
                        &&& !w.buckets.contains_key(b.0.0)
                        &&& amount.v() >= 0
                        &&& (w.supply[old(self).0] matches Some(s) ==> in_dec(s.v() + amount.v()))
                        &&& final(api).st() == with_world(old(api).st(), World {
                                buckets: w.buckets.insert(b.0.0, Holding { resource: old(self).0, amount: amount }),
                                supply: w.supply.insert(old(self).0, match w.supply[old(self).0] { Some(s) => Some(Decimal::of(s.v() + amount.v())), None => None }),
                                ..w })
                    }),
        { unimplemented!() }
    }
    pub struct Runtime;
    impl Runtime {
        /// events do not touch the ledger
        #[verifier::external_body]
        pub fn emit_event<Y: SystemApi<E>, E: SystemApiError, T>(api: &mut Y, event: T) -> (r: Result<(), E>)
            ensures r is Ok ==> final(api).st() == old(api).st(), r matches Err(e) ==> !e.is_validator_error(),
        { unimplemented!() }
    }
}
