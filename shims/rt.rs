// ---- shims/rt.rs : run-time panic sites as proof obligations (rewrite R5) ----------------------
pub mod rt {
    use vstd::prelude::*;
    /// `assert!(e)` in /repo is rewritten to `rt_assert(e)`: the assertion becomes an obligation.
    pub fn rt_assert(b: bool) requires b {}
    /// `panic!/unreachable!/unimplemented!` are rewritten to this: reaching it is a proof failure.
    #[verifier::external_body]
    pub fn rt_unreachable() -> ! requires false { unimplemented!() }
}
