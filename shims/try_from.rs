// ---- shims/try_from.rs : what `?` does with the error value (gap in vstd's model of `?`) ---------
// vstd specifies `<Result<T, F> as FromResidual<Result<Infallible, E>>>::from_residual` (the call the
// `?` operator desugars to) only through the UNINTERPRETED predicate `spec_from::<F, E>(e, e2)` and
// gives an axiom for the identity conversion (E == F) alone. Rust's core library implements that
// function as `Err(e) => Err(From::from(e))`, so the converted error is a result of `F::from(e)`.
pub mod try_from {
    use vstd::prelude::*;
    /// ASSUMED (core::result, `impl FromResidual<Result<Infallible, E>> for Result<T, F>`):
    /// the error produced by `?` satisfies the postcondition of the `From` impl that was called.
    pub broadcast axiom fn axiom_question_mark_calls_from<E, F: From<E>>(e: E, r: F)
        ensures #[trigger] vstd::std_specs::control_flow::spec_from::<F, E>(e, r)
            ==> call_ensures(<F as From<E>>::from, (e,), r);
}
