// ---- shims/option_ext.rs : std Option methods that vstd does not specify yet ----------------------
pub mod option_ext {
    use vstd::prelude::*;
    /// ASSUMED (std doc): `is_some_and(f)` is `false` for `None`, and `f(x)` for `Some(x)`.
    pub assume_specification<T, F: FnOnce(T) -> bool>[Option::<T>::is_some_and](o: Option<T>, f: F) -> (r: bool)
        requires o matches Some(x) ==> f.requires((x,)),
        ensures o is None ==> !r, o matches Some(x) ==> f.ensures((x,), r);
}
