// ---- shims/tuple_default.rs : Default for 5-tuples (vstd specifies it for 2- and 3-tuples only) ------
pub mod tuple_default {
    use vstd::prelude::*;
    /// ASSUMED (core::tuple): `<(A, B, C, D, E) as Default>::default()` is `(A::default(), .., E::default())`.
    pub assume_specification<A: Default, B: Default, C: Default, D: Default, E: Default>[<(A, B, C, D, E) as Default>::default]() -> (r: (A, B, C, D, E))
        ensures
            call_ensures(A::default, (), r.0),
            call_ensures(B::default, (), r.1),
            call_ensures(C::default, (), r.2),
            call_ensures(D::default, (), r.3),
            call_ensures(E::default, (), r.4);
}
