// ---- shims/bytes.rs : ASSUMED contracts for hashing and byte-slice helpers --------------------
pub mod bytes {
    use vstd::prelude::*;
    /// Blake2b-256 is uninterpreted: only its output length is assumed.
    pub uninterp spec fn spec_hash(b: Seq<u8>) -> Seq<u8>;
    pub broadcast axiom fn ax_hash_len(b: Seq<u8>) ensures #[trigger] spec_hash(b).len() == 32;
    pub struct Hash(pub [u8; 32]);
    #[verifier::external_body]
    pub fn hash(data: &[u8]) -> (h: Hash) ensures h.0@ == spec_hash(data@) { unimplemented!() }

    /// rewrite R10: `[a, b].concat()` on byte slices
    #[verifier::external_body]
    pub fn concat2(a: &[u8], b: &[u8]) -> (r: Vec<u8>) ensures r@ == a@ + b@ { unimplemented!() }
    #[verifier::external_body]
    pub fn concat3(a: &[u8], b: &[u8], c: &[u8]) -> (r: Vec<u8>) ensures r@ == a@ + b@ + c@ { unimplemented!() }

    /// radix-rust/src/slice.rs :: copy_u8_array -- panics unless the length matches
    #[verifier::external_body]
    pub fn copy_u8_array<const N: usize>(slice: &[u8]) -> (r: [u8; N])
        requires slice@.len() == N
        ensures r@ == slice@
    { unimplemented!() }

    /// `<[T]>::to_vec` clones element-wise
    pub assume_specification<T: Clone> [<[T]>::to_vec] (s: &[T]) -> (r: Vec<T>)
        ensures r@.len() == s@.len(), forall|i: int| 0 <= i < s@.len() ==> cloned(s@[i], #[trigger] r@[i]);
}
