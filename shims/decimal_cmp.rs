// ---- shims/decimal_cmp.rs : ASSUMED contract of radix_common::math::Decimal (comparison side) ----
// `Decimal` is a 192-bit signed fixed-point number with 18 decimal places.  The shim keeps it
// opaque and exposes its integer view `dec_int` = the number of attos (10^-18 units), i.e. the
// value of the inner I192.  Only comparison / sign / floor / conversion facts are assumed here;
// no arithmetic.  Real implementations: radix-common/src/math/decimal.rs (derived Ord on the
// inner I192, is_zero/is_positive/is_negative, checked_floor, From<usize>, ZERO, MAX, from_attos).
pub mod decimal_cmp {
    use vstd::prelude::*;
    use core::cmp::Ordering;

    #[verifier::external_body]
    #[derive(Clone, Copy)]
    pub struct Decimal { inner: [u64; 3] }
    #[verifier::external_body]
    #[derive(Clone, Copy)]
    pub struct I192 { inner: [u64; 3] }

    /// integer view: the amount in attos
    pub uninterp spec fn dec_int(d: Decimal) -> int;
    pub uninterp spec fn i192_int(d: I192) -> int;
    /// 1.0 in attos (Decimal::SCALE = 18)
    pub open spec fn dec_one() -> int { 1_000_000_000_000_000_000 }
    pub open spec fn dec_max_int() -> int { 0x7fff_ffff_ffff_ffff_ffff_ffff_ffff_ffff_ffff_ffff_ffff_ffffint }
    pub open spec fn dec_in_range(i: int) -> bool { -dec_max_int() - 1 <= i <= dec_max_int() }
    pub open spec fn dec_cmp(a: Decimal, b: Decimal) -> Ordering {
        if dec_int(a) < dec_int(b) { Ordering::Less } else if dec_int(a) == dec_int(b) { Ordering::Equal } else { Ordering::Greater }
    }
    /// every Decimal is a 192-bit value
    pub broadcast axiom fn ax_dec_range(d: Decimal) ensures dec_in_range(#[trigger] dec_int(d));
    /// the integer view is injective (Decimal is a plain wrapper of I192)
    pub broadcast axiom fn ax_dec_ext(a: Decimal, b: Decimal) ensures (#[trigger] dec_int(a) == #[trigger] dec_int(b)) ==> a == b;

    impl PartialEq for Decimal {
        #[verifier::external_body]
        fn eq(&self, o: &Decimal) -> (r: bool) ensures r == (dec_int(*self) == dec_int(*o)) { unimplemented!() }
    }
    impl Eq for Decimal {}
    impl vstd::std_specs::cmp::PartialEqSpecImpl for Decimal {
        open spec fn obeys_eq_spec() -> bool { true }
        open spec fn eq_spec(&self, o: &Decimal) -> bool { dec_int(*self) == dec_int(*o) }
    }
    impl PartialOrd for Decimal {
        #[verifier::external_body]
        fn partial_cmp(&self, b: &Decimal) -> (r: Option<Ordering>) ensures r == Some(dec_cmp(*self, *b)) { unimplemented!() }
    }
    impl vstd::std_specs::cmp::PartialOrdSpecImpl for Decimal {
        open spec fn obeys_partial_cmp_spec() -> bool { true }
        open spec fn partial_cmp_spec(&self, o: &Decimal) -> Option<Ordering> { Some(dec_cmp(*self, *o)) }
    }
    impl Ord for Decimal {
        #[verifier::external_body]
        fn cmp(&self, b: &Decimal) -> (r: Ordering) ensures r == dec_cmp(*self, *b) { unimplemented!() }
    }
    impl vstd::std_specs::cmp::OrdSpecImpl for Decimal {
        open spec fn obeys_cmp_spec() -> bool { true }
        open spec fn cmp_spec(&self, o: &Decimal) -> Ordering { dec_cmp(*self, *o) }
    }
    /// `Decimal::from(n)` for an unsigned machine integer is the whole number n (n * 10^18 attos);
    /// usize::MAX * 10^18 < 2^191 so the conversion cannot overflow.
    impl From<usize> for Decimal {
        #[verifier::external_body]
        fn from(n: usize) -> (r: Decimal) ensures dec_int(r) == n * dec_one() { unimplemented!() }
    }

    #[verifier::external_body]
    pub const fn i192_one() -> (r: I192) ensures i192_int(r) == 1 { I192 { inner: [1, 0, 0] } }
    #[verifier::external_body]
    pub const fn i192_zero() -> (r: I192) ensures i192_int(r) == 0 { I192 { inner: [0, 0, 0] } }
    #[verifier::external_body]
    pub const fn dec_zero() -> (r: Decimal) ensures dec_int(r) == 0 { Decimal { inner: [0, 0, 0] } }
    #[verifier::external_body]
    pub const fn dec_max() -> (r: Decimal) ensures dec_int(r) == dec_max_int() { Decimal { inner: [u64::MAX, u64::MAX, u64::MAX >> 1] } }

    impl I192 {
        pub exec const ONE: I192 ensures i192_int(Self::ONE) == 1 { i192_one() }
        pub exec const ZERO: I192 ensures i192_int(Self::ZERO) == 0 { i192_zero() }
    }
    impl Decimal {
        pub exec const ZERO: Decimal ensures dec_int(Self::ZERO) == 0 { dec_zero() }
        pub exec const MAX: Decimal ensures dec_int(Self::MAX) == dec_max_int() { dec_max() }

        #[verifier::external_body]
        pub fn from_attos(a: I192) -> (r: Decimal) ensures dec_int(r) == i192_int(a) { unimplemented!() }
        #[verifier::external_body]
        pub fn is_zero(&self) -> (r: bool) ensures r == (dec_int(*self) == 0) { unimplemented!() }
        #[verifier::external_body]
        pub fn is_positive(&self) -> (r: bool) ensures r == (dec_int(*self) > 0) { unimplemented!() }
        #[verifier::external_body]
        pub fn is_negative(&self) -> (r: bool) ensures r == (dec_int(*self) < 0) { unimplemented!() }
        /// largest whole number <= self; None only when that number is not representable, which
        /// cannot happen when self is itself a whole number
        #[verifier::external_body]
        pub fn checked_floor(&self) -> (r: Option<Decimal>)
            ensures r matches Some(f) ==> dec_int(f) % dec_one() == 0 && dec_int(f) <= dec_int(*self) < dec_int(f) + dec_one(),
                    r is None ==> dec_int(*self) % dec_one() != 0,
        { unimplemented!() }
    }
}
