// ---- shims/indexmap_iter.rs : ASSUMED contract for read-only iteration over indexmap::IndexMap --
// `external_body`: the real indexmap crate is trusted to iterate its entries once each, in
// insertion order (documented behaviour).  Only what read-only validation code needs.
pub mod imap {
    use vstd::prelude::*;

    #[verifier::external_body]
    #[verifier::reject_recursive_types(K)]
    #[verifier::reject_recursive_types(V)]
    pub struct IndexMap<K, V> { k: core::marker::PhantomData<(K, V)> }

    #[verifier::external_body]
    #[verifier::reject_recursive_types(K)]
    #[verifier::reject_recursive_types(V)]
    pub struct Iter<'a, K, V> { k: core::marker::PhantomData<&'a (K, V)> }

    impl<K, V> IndexMap<K, V> {
        /// the (key, value) pairs in insertion order
        pub uninterp spec fn entries(&self) -> Seq<(K, V)>;

        #[verifier::external_body]
        pub fn iter(&self) -> (r: Iter<'_, K, V>)
            ensures r.rest().len() == self.entries().len(),
                    forall|i: int| 0 <= i < self.entries().len() ==>
                        *(#[trigger] r.rest()[i]).0 == self.entries()[i].0 && *r.rest()[i].1 == self.entries()[i].1,
        { unimplemented!() }

        #[verifier::external_body]
        pub fn is_empty(&self) -> (r: bool) ensures r == (self.entries().len() == 0) { unimplemented!() }

        #[verifier::external_body]
        pub fn len(&self) -> (r: usize) ensures r == self.entries().len() { unimplemented!() }
    }
    impl<'a, K, V> Iter<'a, K, V> {
        pub uninterp spec fn rest(&self) -> Seq<(&'a K, &'a V)>;
    }
    impl<'a, K, V> Iterator for Iter<'a, K, V> {
        type Item = (&'a K, &'a V);
        #[verifier::external_body]
        fn next(&mut self) -> (r: Option<(&'a K, &'a V)>)
        { unimplemented!() }
    }
    impl<'a, K, V> vstd::std_specs::iter::IteratorSpecImpl for Iter<'a, K, V> {
        open spec fn obeys_prophetic_iter_laws(&self) -> bool { true }
        open spec fn remaining(&self) -> Seq<(&'a K, &'a V)> { self.rest() }
        open spec fn will_return_none(&self) -> bool { true }
        open spec fn peek(&self, index: int) -> Option<(&'a K, &'a V)> {
            if 0 <= index < self.rest().len() { Some(self.rest()[index]) } else { None }
        }
        open spec fn decrease(&self) -> Option<nat> { Some(self.rest().len()) }
    }
}
