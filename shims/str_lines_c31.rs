// ---- shims/str_lines_c31.rs : `str::lines` (+ count / enumerate), `Chars::count`, `cmp::min`, and the ---------
//      annotate-snippets 0.10.2 data types / renderer used by radix-transactions' `create_snippet`
// vstd (0.2026.09.13) models `str` as `Seq<char>` (`s@`), specifies `str::chars` (the remaining items of the
// `Chars` iterator are `s@`), `String::{new, push, push_str, as_str}`, `str::len` (BYTE length of the UTF-8 form,
// cast to usize). It has no specification for `str::lines`, `core::str::Lines`, the iterator adapters
// `Iterator::{count, enumerate}`, `core::cmp::min`.
//   * `lines_c31(s)` stands for `s.lines()` (ONE @subst per occurrence in the client) and returns the shim type
//     `LinesShim`, whose inherent `count()` / `enumerate()` stand for `Iterator::count` / `Iterator::enumerate`
//     on `core::str::Lines`; `enumerate()` returns the shim iterator `EnumLines` (Item = (usize, &str)).
// ASSUMED (statements about core / annotate-snippets only, none about /repo):
//   (L1) `str::lines` (std doc: "Lines are split at line endings that are either newlines (\n) or sequences of a
//        carriage return followed by a line feed (\r\n). Line terminators are not included in the lines returned
//        by the iterator. ... any carriage return followed by a line feed ... a bare carriage return at the end of
//        a line is preserved. The final line ending is optional"): the lines are `lines_of(s@)` below -- the text is
//        cut after every '\n'; a cut piece loses its '\n' and then ONE '\r' if it ends with one; a non-empty rest
//        after the last '\n' is the last line, unchanged. (Behaviour of Rust >= 1.77; /repo pins 1.92.)
//   (L2) `Iterator::count` on it is the number of lines; `Iterator::enumerate` yields (k, line k) for k = 0, 1, ..
//   (L3) `Chars::count()` is the number of remaining characters.
//   (L4) `core::cmp::min(a, b)` is `b` if `b < a`, else `a` (std: "Returns the first argument if the comparison
//        determines them to be equal").
//   (R1) annotate-snippets 0.10.2 `Renderer::render(snippet)` + `to_string()`: the crate's ONLY documented/explicit
//        panic (renderer/display_list.rs:944 "SourceAnnotation range `..` is beyond the end of buffer `..`") fires
//        iff some annotation has `range.1 > source.chars().count() + 1`; this is kept as the PRECONDITION
//        `snippet_ok` of `render`. Everything else about the renderer (its other internal indexing) is TRUSTED:
//        it is third-party code and not under contract.
//   (R2) `Renderer::plain()` / `Renderer::styled()` are total constructors.
// The types Snippet / Slice / SourceAnnotation / Annotation / AnnotationType are re-declared with the same field
// names, types and lifetimes as in annotate-snippets 0.10.2 src/snippet.rs.
pub mod str_lines_c31 {
    use vstd::prelude::*;

    // ---- (L1) the lines of a text -------------------------------------------------------------------
    /// a piece cut at a '\n' (the '\n' itself already removed): one trailing '\r' is removed
    pub open spec fn strip_cr(raw: Seq<char>) -> Seq<char> {
        if raw.len() > 0 && raw.last() == '\r' { raw.drop_last() } else { raw }
    }
    /// lines of `t[start..]` when scanning stands at `i` (no '\n' in `t[start..i]`)
    pub open spec fn lines_scan(t: Seq<char>, start: int, i: int) -> Seq<Seq<char>>
        decreases t.len() - i
    {
        if i < 0 || i >= t.len() {
            if 0 <= start < t.len() { seq![t.subrange(start, t.len() as int)] } else { Seq::<Seq<char>>::empty() }
        } else if t[i] == '\n' {
            seq![strip_cr(t.subrange(start, i))] + lines_scan(t, i + 1, i + 1)
        } else {
            lines_scan(t, start, i + 1)
        }
    }
    pub open spec fn lines_of(t: Seq<char>) -> Seq<Seq<char>> { lines_scan(t, 0, 0) }

    /// stands for `core::str::Lines<'a>`
    #[verifier::external_body]
    pub struct LinesShim<'a> { s: &'a str }
    /// stands for `core::iter::Enumerate<core::str::Lines<'a>>`
    #[verifier::external_body]
    pub struct EnumLines<'a> { it: core::iter::Enumerate<core::str::Lines<'a>> }

    impl<'a> LinesShim<'a> {
        pub uninterp spec fn text(&self) -> Seq<char>;
        /// (L2) `Iterator::count`
        #[verifier::external_body]
        pub fn count(self) -> (r: usize)
            ensures r == lines_of(self.text()).len()
        { self.s.lines().count() }
        /// (L2) `Iterator::enumerate`
        #[verifier::external_body]
        pub fn enumerate(self) -> (r: EnumLines<'a>)
            ensures
                r.rest().len() == lines_of(self.text()).len(),
                forall|k: int| 0 <= k < r.rest().len() ==> (#[trigger] r.rest()[k]).0 == k && r.rest()[k].1@ == lines_of(self.text())[k],
        { EnumLines { it: self.s.lines().enumerate() } }
    }
    impl<'a> EnumLines<'a> {
        pub uninterp spec fn rest(&self) -> Seq<(usize, &'a str)>;
    }
    impl<'a> Iterator for EnumLines<'a> {
        type Item = (usize, &'a str);
        #[verifier::external_body]
        fn next(&mut self) -> (r: Option<(usize, &'a str)>) { self.it.next() }
    }
    impl<'a> vstd::std_specs::iter::IteratorSpecImpl for EnumLines<'a> {
        open spec fn obeys_prophetic_iter_laws(&self) -> bool { true }
        open spec fn remaining(&self) -> Seq<(usize, &'a str)> { self.rest() }
        open spec fn will_return_none(&self) -> bool { true }
        open spec fn peek(&self, index: int) -> Option<(usize, &'a str)> {
            if 0 <= index < self.rest().len() { Some(self.rest()[index]) } else { None }
        }
        open spec fn decrease(&self) -> Option<nat> { Some(self.rest().len()) }
    }
    /// `s.lines()`
    #[verifier::external_body]
    pub fn lines_c31<'a>(s: &'a str) -> (r: LinesShim<'a>)
        ensures r.text() == s@
    { LinesShim { s } }

    // ---- (L3), (L4) ------------------------------------------------------------------------------------
    pub assume_specification<'a> [<core::str::Chars<'a> as Iterator>::count] (c: core::str::Chars<'a>) -> (r: usize)
        ensures r == vstd::std_specs::iter::IteratorSpec::remaining(&c).len();
    pub assume_specification<T: Ord> [core::cmp::min::<T>] (a: T, b: T) -> (r: T)
        ensures r == (if vstd::std_specs::cmp::OrdSpec::cmp_spec(&b, &a) == core::cmp::Ordering::Less { b } else { a });

    // ---- annotate-snippets 0.10.2 ---------------------------------------------------------------------
    pub struct Snippet<'a> {
        pub title: Option<Annotation<'a>>,
        pub footer: Vec<Annotation<'a>>,
        pub slices: Vec<Slice<'a>>,
    }
    pub struct Slice<'a> {
        pub source: &'a str,
        pub line_start: usize,
        pub origin: Option<&'a str>,
        pub annotations: Vec<SourceAnnotation<'a>>,
        pub fold: bool,
    }
    pub enum AnnotationType { Error, Warning, Info, Note, Help }
    pub struct SourceAnnotation<'a> {
        pub range: (usize, usize),
        pub label: &'a str,
        pub annotation_type: AnnotationType,
    }
    pub struct Annotation<'a> {
        pub id: Option<&'a str>,
        pub label: Option<&'a str>,
        pub annotation_type: AnnotationType,
    }
    /// (R1) the renderer's explicit panic condition, negated
    pub open spec fn snippet_ok(sn: Snippet) -> bool {
        forall|i: int, j: int| 0 <= i < sn.slices@.len() && 0 <= j < sn.slices@[i].annotations@.len()
            ==> (#[trigger] sn.slices@[i].annotations@[j]).range.1 <= sn.slices@[i].source@.len() + 1
    }
    #[verifier::external_body]
    pub struct Renderer { _p: () }
    /// stands for the `impl Display + 'a` returned by `Renderer::render`
    #[verifier::external_body]
    pub struct Rendered<'a> { _p: &'a () }
    impl Renderer {
        #[verifier::external_body]
        pub fn plain() -> Renderer { unimplemented!() }
        #[verifier::external_body]
        pub fn styled() -> Renderer { unimplemented!() }
        #[verifier::external_body]
        pub fn render<'a>(&'a self, snippet: Snippet<'a>) -> Rendered<'a>
            requires snippet_ok(snippet)
        { unimplemented!() }
    }
    impl<'a> Rendered<'a> {
        /// `ToString::to_string` through `Display`
        #[verifier::external_body]
        pub fn to_string(&self) -> String { unimplemented!() }
    }
}
