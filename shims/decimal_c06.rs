// ---- shims/decimal_c06.rs : ASSUMED contracts used by units c06_fee_reserve / c06_fee_summary -----
// Companion of shims/decimal.rs and shims/bigint.rs (both must be included BEFORE this file; both are
// generated and frozen).  Adds only what the fee code needs and the generated shim lacks:
//   Decimal::from_attos / Decimal::attos    (radix-common/src/math/decimal.rs: `Self(attos)` / `self.0`)
//   Decimal::ONE_HUNDREDTH                  (decimal.rs: I192::from_digits([10^(SCALE-2), 0, 0]) = 10^16 attos)
//   dec_lit_0_01() / dec_lit_0_0001()       the values of the proc-macro literals `dec!(0.01)` / `dec!(0.0001)`
//                                           (radix-common-derive; cannot be expanded here): 10^16 / 10^14 attos
//   min(a, b)                               core::cmp::min on Decimal (derived Ord on the inner I192)
// Not to be included together with shims/decimal_attos.rs or shims/decimal_validator_ext.rs (they declare
// their own I192 / attos).
pub mod decimal_c06 {
    use vstd::prelude::*;
    use super::decimal::*;
    use super::decimal::Decimal;
    use super::bigint::I192;

    impl Decimal {
        /// `pub const ONE_HUNDREDTH: Self = Self(I192::from_digits([10_u64.pow(Decimal::SCALE - 2), 0, 0]))`
        #[verifier::external_body]
        pub const ONE_HUNDREDTH: Decimal = unsafe { core::mem::transmute::<[u64; 3], Decimal>([0u64; 3]) };

        /// `pub const fn from_attos(attos: I192) -> Self { Self(attos) }` : the raw number of 10^-18 sub-units
        #[verifier::external_body]
        pub fn from_attos(attos: I192) -> (r: Decimal) ensures r.v() == attos.v() { unimplemented!() }

        /// `pub const fn attos(self) -> I192 { self.0 }`
        #[verifier::external_body]
        pub fn attos(self) -> (r: I192) ensures r.v() == self.v() { unimplemented!() }
    }
    /// 0.01 = 10^16 attos
    pub broadcast axiom fn ax_dec_one_hundredth()
        ensures #[trigger] Decimal::ONE_HUNDREDTH.v() == 10_000_000_000_000_000int;

    /// value of the literal `dec!(0.01)`
    #[verifier::external_body]
    pub fn dec_lit_0_01() -> (r: Decimal) ensures r.v() == 10_000_000_000_000_000int { unimplemented!() }
    /// value of the literal `dec!(0.0001)`
    #[verifier::external_body]
    pub fn dec_lit_0_0001() -> (r: Decimal) ensures r.v() == 100_000_000_000_000int { unimplemented!() }

    /// `core::cmp::min::<Decimal>` (Ord on Decimal = integer order of the attos; on a tie returns the first)
    #[verifier::external_body]
    pub fn min(a: Decimal, b: Decimal) -> (r: Decimal)
        ensures r == (if a.v() <= b.v() { a } else { b })
    { unimplemented!() }

    pub broadcast group group_decimal_c06 { ax_dec_one_hundredth }
}
