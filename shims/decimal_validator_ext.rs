// ---- shims/decimal_validator_ext.rs : ASSUMED contracts used by unit c42_validator_math ------------
// Companion of shims/decimal.rs (needs it included BEFORE this file).  Declares its own minimal opaque
// I192 (value view, From<u16>, comparison, TryFrom -> u16) so that units need not load shims/bigint.rs.
// Real code: radix-common/src/math/decimal.rs :: Decimal::{SCALE, attos, checked_powi},
//            radix-common/src/math/bnum_integer/convert.rs :: impl_to_builtin!(I192 -> u16),
//            core :: u16::to_be_bytes (as the extension method to_be_bytes_u16).
// (Not to be included together with shims/decimal_attos.rs or shims/bigint.rs: duplicate declarations.)
pub mod decimal_validator_ext {
    use vstd::prelude::*;
    use super::decimal::*;
    use super::decimal::Decimal;
    use core::cmp::Ordering;

    /// radix-common bnum_integer.rs :: I192 (192-bit signed integer), opaque with the integer view `v()`
    #[verifier::external_body]
    #[derive(Clone, Copy)]
    pub struct I192 { d: [u64; 3] }
    impl I192 { pub uninterp spec fn v(self) -> int; }
    /// impl_from_builtin!(I192, .., u16): exact
    impl From<u16> for I192 { #[verifier::external_body] fn from(x: u16) -> (r: I192) ensures r.v() == x as int { unimplemented!() } }
    impl vstd::std_specs::convert::FromSpecImpl<u16> for I192 {
        open spec fn obeys_from_spec() -> bool { false }
        uninterp spec fn from_spec(x: u16) -> I192;
    }
    /// derived comparison on the wrapped bnum integer == comparison of the values
    impl PartialEq for I192 { #[verifier::external_body] fn eq(&self, o: &I192) -> (r: bool) ensures r == (self.v() == o.v()) { unimplemented!() } }
    impl vstd::std_specs::cmp::PartialEqSpecImpl for I192 {
        open spec fn obeys_eq_spec() -> bool { true }
        open spec fn eq_spec(&self, o: &I192) -> bool { self.v() == o.v() }
    }
    impl PartialOrd for I192 {
        #[verifier::external_body]
        fn partial_cmp(&self, o: &I192) -> (r: Option<Ordering>) ensures r == Some(cmp_int(self.v(), o.v())) { unimplemented!() }
    }
    impl vstd::std_specs::cmp::PartialOrdSpecImpl for I192 {
        open spec fn obeys_partial_cmp_spec() -> bool { true }
        open spec fn partial_cmp_spec(&self, o: &I192) -> Option<Ordering> { Some(cmp_int(self.v(), o.v())) }
    }

    /// mathematical integer power (own copy: bigint::ipow lives in a module with clashing names)
    pub open spec fn ipow(b: int, n: nat) -> int decreases n { if n == 0 { 1 } else { b * ipow(b, (n - 1) as nat) } }

    impl Decimal {
        /// radix-common decimal.rs: `pub const SCALE: u32 = 18;`
        pub const SCALE: u32 = 18;

        /// `pub const fn attos(self) -> I192 { self.0 }` : the raw number of 10^-18 sub-units
        #[verifier::external_body]
        pub fn attos(self) -> (r: I192) ensures r.v() == self.v() { unimplemented!() }

        /// `checked_powi` (square-and-multiply over truncating multiplications).  ASSUMED only for a
        /// WHOLE-NUMBER base n = self.v() / 10^18 (self.v() a multiple of 10^18) and exp >= 0: every intermediate value is then a whole
        /// number n^k with k <= exp, every truncating multiplication is exact, and |n^k| <= |n^exp|,
        /// so the result is Some(n^exp) whenever n^exp is representable.  Nothing is assumed for
        /// fractional bases or negative exponents (result unconstrained).
        #[verifier::external_body]
        pub fn checked_powi(&self, exp: i64) -> (r: Option<Decimal>)
            ensures (exp >= 0 && self.v() % one18() == 0 && in_dec(ipow(self.v() / one18(), exp as nat) * one18()))
                        ==> r == Some(Decimal::of(ipow(self.v() / one18(), exp as nat) * one18()))
        { unimplemented!() }
    }

    /// radix-common bnum_integer: `ParseI192Error` (only the Overflow case arises here)
    #[derive(Debug)]
    pub enum ParseI192Error { Overflow }
    /// impl_to_builtin!(I192, .., u16): `u16::try_from(bnum)`; Ok exactly when the value fits.
    impl TryFrom<I192> for u16 {
        type Error = ParseI192Error;
        #[verifier::external_body]
        fn try_from(x: I192) -> (r: Result<u16, ParseI192Error>)
            ensures r is Ok <==> 0 <= x.v() <= 0xffff, r matches Ok(y) ==> y as int == x.v()
        { unimplemented!() }
    }

    /// core: `i64::from(u32)` (reached through `.into()`) is the lossless widening; vstd has no spec for it.
    pub assume_specification[<i64 as From<u32>>::from](x: u32) -> (r: i64) ensures r == x as int;

    /// core: big-endian bytes of a u16 (most significant byte first).  Verus cannot attach a spec to
    /// `u16::to_be_bytes` itself (its std signature has an anonymous-const array length that
    /// `assume_specification` cannot name), so units @subst `.to_be_bytes()` => `.to_be_bytes_u16()`;
    /// the receiver expression stays verbatim.
    pub trait U16BeBytes: Sized {
        spec fn as_u16(self) -> u16;
        fn to_be_bytes_u16(self) -> (r: [u8; 2])
            ensures r[0] as int == (self.as_u16() as int) / 256, r[1] as int == (self.as_u16() as int) % 256;
    }
    impl U16BeBytes for u16 {
        open spec fn as_u16(self) -> u16 { self }
        #[verifier::external_body]
        fn to_be_bytes_u16(self) -> (r: [u8; 2]) { self.to_be_bytes() }
    }
}
