// ---- shims/string_len.rs : byte length of a std String (vstd has no spec for String::len) ------
pub mod string_len {
    use vstd::prelude::*;
    /// the length in bytes of the UTF-8 encoding (what `String::len` returns); uninterpreted
    pub uninterp spec fn string_len(s: &String) -> usize;
    pub assume_specification [std::string::String::len] (s: &std::string::String) -> (r: usize)
        ensures r == string_len(s);
}
