// ---- shims/string_len.rs : String::len as an uninterpreted byte length ---------------------------
pub mod string_len {
    use vstd::prelude::*;
    /// length in bytes of the UTF-8 encoding (what `String::len` returns); no string reasoning is done
    pub uninterp spec fn string_byte_len(s: &String) -> usize;
    pub assume_specification[String::len](s: &String) -> (r: usize) ensures r == string_byte_len(s);
}
