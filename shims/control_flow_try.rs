// ---- shims/control_flow_try.rs : the `?` operator on core::ops::ControlFlow (gap in vstd) ---------
// vstd specifies `?` for Result/Option only. `x?` on a `ControlFlow<B, C>` desugars to
//     match Try::branch(x) { Continue(v) => v, Break(r) => return FromResidual::from_residual(r) }
// ASSUMED (core::ops::control_flow, the two impls are literally):
//     fn branch(self) -> ControlFlow<ControlFlow<B, Infallible>, C> {
//         match self { Continue(c) => Continue(c), Break(b) => Break(ControlFlow::Break(b)) } }
//     fn from_residual(residual: ControlFlow<B, Infallible>) -> Self { match residual { Break(b) => Break(b) } }
// i.e. there is NO conversion of the break value (unlike Result's `?`).
pub mod cf_try {
    use vstd::prelude::*;
    use core::ops::ControlFlow;
    use core::convert::Infallible;

    pub assume_specification<B, C>[<ControlFlow<B, C> as core::ops::Try>::branch](c: ControlFlow<B, C>)
        -> (r: ControlFlow<<ControlFlow<B, C> as core::ops::Try>::Residual, <ControlFlow<B, C> as core::ops::Try>::Output>)
        ensures
            c matches ControlFlow::Continue(x) ==> r == ControlFlow::<ControlFlow<B, Infallible>, C>::Continue(x),
            c matches ControlFlow::Break(b) ==> r == ControlFlow::<ControlFlow<B, Infallible>, C>::Break(ControlFlow::Break(b));

    pub assume_specification<B, C>[<ControlFlow<B, C> as core::ops::FromResidual<ControlFlow<B, Infallible>>>::from_residual](c: ControlFlow<B, Infallible>)
        -> (r: ControlFlow<B, C>)
        ensures
            c matches ControlFlow::Break(b) ==> r == ControlFlow::<B, C>::Break(b);
}
