// ---- shims/option_std_extra.rs : std Option combinators not specified by vstd ----------------------
// ASSUMED (std documentation).  Having these specified means that a code change which starts using
// one of them is verified against the contract instead of ending as an "unsupported function" UNDECIDED.
pub mod option_std_extra {
    use vstd::prelude::*;
    pub assume_specification<T, U>[Option::<T>::and](o: Option<T>, optb: Option<U>) -> (r: Option<U>)
        ensures r == (if o is None { None::<U> } else { optb });
    pub assume_specification<T>[Option::<T>::xor](o: Option<T>, optb: Option<T>) -> (r: Option<T>)
        ensures r == (if o is Some && optb is None { o } else if o is None && optb is Some { optb } else { None::<T> });
}
