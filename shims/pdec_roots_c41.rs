// ---- shims/pdec_roots_c41.rs : client-side ASSUMED contracts of PreciseDecimal::{checked_sqrt,
// checked_nth_root, checked_round} and Ord::{max, min} on PreciseDecimal (unit c41_multi_pools) ----------
// Companion of shims/decimal.rs and shims/decimal_round_client.rs (include both BEFORE this file).
// TRUSTED BASE.  The contracts are the postconditions discharged for the real functions of
// radix-common/src/math/precise_decimal.rs by other units:
//   * checked_sqrt / checked_nth_root : unit c26_roots   (None iff negative radicand with an even root / n == 0;
//         otherwise the root of the VALUE truncated toward zero at 36 places:
//         r^n <= x * (10^36)^(n-1) < (r+1)^n  on sub-units, for x >= 0)
//   * checked_round                   : unit c25_rounding (the multiple of 10^(36-dp) sub-units selected by the
//         mode, None iff it does not fit 256 bits; the real fn asserts 0 <= dp <= 36 -- precondition here).
//     The real signature is generic `T: Into<i32>`; the pool blueprints call it with the literal `18` only
//     (T = i32 by integer fallback, `into` is the identity), so the shim takes an `i32`.
//   * `a.max(b)` / `a.min(b)` are core's provided `Ord::max` / `Ord::min` on the derived total order of the
//     wrapped integer (modelled as inherent methods; inherent methods shadow the trait's).
pub mod pdec_roots {
    use vstd::prelude::*;
    use super::decimal::*;
    use super::decimal::PreciseDecimal;
    use super::decimal_round_client::*;

    pub open spec fn ipow(b: int, n: nat) -> int decreases n { if n == 0 { 1 } else { b * ipow(b, (n - 1) as nat) } }
    /// floor of the real n-th root for non-negative x (n >= 1): the unique r >= 0 with r^n <= x < (r+1)^n
    pub open spec fn is_floor_root(x: int, n: nat, r: int) -> bool { r >= 0 && ipow(r, n) <= x < ipow(r + 1, n) }
    /// the rounding step at `dp` decimal places of a 36-dp fixed point number, in sub-units
    pub open spec fn step36(dp: int) -> int { pow10((36 - dp) as nat) }

    /// q / 10^36 is the square root of x / 10^36 truncated to 36 places  <=>  q^2 <= x * 10^36 < (q+1)^2
    pub open spec fn is_sqrt36(x: int, q: int) -> bool { q >= 0 && q * q <= x * one36() < (q + 1) * (q + 1) }

    impl PreciseDecimal {
        #[verifier::external_body]
        pub fn checked_sqrt(&self) -> (r: Option<PreciseDecimal>)
            ensures r is None <==> self.v() < 0,
                    r matches Some(q) ==> is_sqrt36(self.v(), q.v()),
        { unimplemented!() }

        #[verifier::external_body]
        pub fn checked_nth_root(&self, n: u32) -> (r: Option<PreciseDecimal>)
            ensures r is None <==> ((self.v() < 0 && n % 2 == 0) || n == 0),
                    (self.v() >= 0 && n >= 1) ==> (r matches Some(q) && is_floor_root(self.v() * ipow(one36(), (n - 1) as nat), n as nat, q.v())),
        { unimplemented!() }

        #[verifier::external_body]
        pub fn checked_round(&self, decimal_places: i32, mode: RoundingMode) -> (r: Option<PreciseDecimal>)
            requires 0 <= decimal_places <= 36,
            ensures ({
                let y = round_to(self.v(), step36(decimal_places as int), mode);
                r == (if in_pdec(y) { Some(PreciseDecimal::of(y)) } else { None })
            })
        { unimplemented!() }

        #[verifier::external_body]
        pub fn max(self, other: PreciseDecimal) -> (r: PreciseDecimal)
            ensures r.v() == (if self.v() > other.v() { self.v() } else { other.v() })
        { unimplemented!() }
    }
}
