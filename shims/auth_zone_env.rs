// ---- shims/auth_zone_env.rs : environment of the auth-zone walkers (unit c08_auth_zone) -----------
// Needs shims/auth_env.rs (opaque value types, IndexedScryptoValue, AuthEnv / ApiState / ok_or_fault).
// Adds what the walkers of radix-engine/src/system/system_modules/auth/authorization.rs touch in
// addition: std BTreeSet / indexmap IndexSet (set view only), ordering of Decimal, equality specs of
// the address newtypes, PackageAddress, and the GHOST MODEL OF A PROOF NODE (resource, amount, ids)
// that the native proof SDK calls are assumed to return.
// Nothing in here is under contract; every external_body / uninterp item is trusted base.
pub mod auth_zone_env {
    use vstd::prelude::*;
    use core::cmp::Ordering;
    use super::auth_env::*;
    use super::auth_env::Decimal;

    // ---- equality of the address newtypes (derived PartialEq in auth_env: structural) ------------
    impl vstd::std_specs::cmp::PartialEqSpecImpl for NodeId {
        open spec fn obeys_eq_spec() -> bool { true }
        open spec fn eq_spec(&self, o: &NodeId) -> bool { *self == *o }
    }
    impl vstd::std_specs::cmp::PartialEqSpecImpl for ResourceAddress {
        open spec fn obeys_eq_spec() -> bool { true }
        open spec fn eq_spec(&self, o: &ResourceAddress) -> bool { *self == *o }
    }
    impl vstd::std_specs::cmp::PartialEqSpecImpl for GlobalAddress {
        open spec fn obeys_eq_spec() -> bool { true }
        open spec fn eq_spec(&self, o: &GlobalAddress) -> bool { *self == *o }
    }

    /// radix-common PackageAddress: a NodeId with a checked entity type
    #[derive(Clone, Copy)]
    pub struct PackageAddress(pub NodeId);

    // ---- Decimal: order + the few constructors a change of the amount check could plausibly use ----
    /// integer view of a Decimal: its value in attos (10^-18); Decimal's derived Ord is the order of
    /// the inner 192-bit signed integer
    pub uninterp spec fn dec_val(d: Decimal) -> int;
    pub open spec fn dec_order(a: Decimal, b: Decimal) -> Ordering {
        if dec_val(a) < dec_val(b) { Ordering::Less } else if dec_val(a) == dec_val(b) { Ordering::Equal } else { Ordering::Greater }
    }
    pub open spec fn dec_fits(i: int) -> bool {
        -0x8000_0000_0000_0000_0000_0000_0000_0000_0000_0000_0000_0000int <= i <= 0x7fff_ffff_ffff_ffff_ffff_ffff_ffff_ffff_ffff_ffff_ffff_ffffint
    }
    impl PartialEq for Decimal {
        #[verifier::external_body]
        fn eq(&self, o: &Decimal) -> (r: bool) ensures r == (dec_val(*self) == dec_val(*o)) { unimplemented!() }
    }
    impl vstd::std_specs::cmp::PartialEqSpecImpl for Decimal {
        open spec fn obeys_eq_spec() -> bool { true }
        open spec fn eq_spec(&self, o: &Decimal) -> bool { dec_val(*self) == dec_val(*o) }
    }
    impl PartialOrd for Decimal {
        #[verifier::external_body]
        fn partial_cmp(&self, b: &Decimal) -> (r: Option<Ordering>) ensures r == Some(dec_order(*self, *b)) { unimplemented!() }
    }
    impl vstd::std_specs::cmp::PartialOrdSpecImpl for Decimal {
        open spec fn obeys_partial_cmp_spec() -> bool { true }
        open spec fn partial_cmp_spec(&self, o: &Decimal) -> Option<Ordering> { Some(dec_order(*self, *o)) }
    }
    #[verifier::external_body]
    pub const fn decimal_zero() -> (r: Decimal) ensures dec_val(r) == 0 { Decimal([0, 0, 0]) }
    #[verifier::external_body]
    pub const fn decimal_max() -> (r: Decimal) ensures dec_val(r) == 0x7fff_ffff_ffff_ffff_ffff_ffff_ffff_ffff_ffff_ffff_ffff_ffffint { Decimal([u64::MAX, u64::MAX, u64::MAX >> 1]) }
    impl Decimal {
        pub exec const ZERO: Decimal ensures dec_val(Self::ZERO) == 0 { decimal_zero() }
        pub exec const MAX: Decimal ensures dec_val(Self::MAX) == 0x7fff_ffff_ffff_ffff_ffff_ffff_ffff_ffff_ffff_ffff_ffff_ffffint { decimal_max() }
        #[verifier::external_body]
        pub fn zero() -> (r: Decimal) ensures dec_val(r) == 0 { unimplemented!() }
        /// Decimal::checked_add: None exactly on 192-bit overflow
        #[verifier::external_body]
        pub fn checked_add(self, o: Decimal) -> (r: Option<Decimal>)
            ensures dec_fits(dec_val(self) + dec_val(o)) ==> (r is Some && dec_val(r->Some_0) == dec_val(self) + dec_val(o)),
                    !dec_fits(dec_val(self) + dec_val(o)) ==> r is None,
        { unimplemented!() }
    }

    // ---- std::collections::BTreeSet (set view only; iteration is not used by the walkers) ----------
    #[verifier::external_body]
    #[verifier::reject_recursive_types(T)]
    pub struct BTreeSet<T> { k: core::marker::PhantomData<T> }
    impl<T> BTreeSet<T> {
        pub uninterp spec fn view(&self) -> Set<T>;
        #[verifier::external_body]
        pub fn new() -> (r: Self) ensures r@ == Set::<T>::empty() { unimplemented!() }
        /// true iff the value was not present before
        #[verifier::external_body]
        pub fn insert(&mut self, value: T) -> (r: bool)
            ensures final(self)@ == old(self)@.insert(value), r == !old(self)@.contains(value)
        { unimplemented!() }
        /// `Extend::extend` with another BTreeSet as the source: inserts every member of `other`
        #[verifier::external_body]
        pub fn extend(&mut self, other: BTreeSet<T>) ensures final(self)@ == old(self)@.union(other@) { unimplemented!() }
        #[verifier::external_body]
        pub fn contains(&self, value: &T) -> (r: bool) ensures r == self@.contains(*value) { unimplemented!() }
        #[verifier::external_body]
        pub fn is_empty(&self) -> (r: bool) ensures r == (self@ =~= Set::<T>::empty()) { unimplemented!() }
        #[verifier::external_body]
        pub fn len(&self) -> (r: usize) ensures r == self@.len() { unimplemented!() }
    }
    /// derived-style Clone: same members (T::clone is assumed to return an equal value, true for the
    /// plain-data key types stored in auth zones)
    impl<T: Clone> Clone for BTreeSet<T> {
        #[verifier::external_body]
        fn clone(&self) -> (r: Self) ensures r@ == self@ { unimplemented!() }
    }

    // ---- indexmap::IndexSet (what `non_fungible_local_ids` returns; only `contains` is used) ------
    #[verifier::external_body]
    #[verifier::reject_recursive_types(T)]
    pub struct IndexSet<T> { k: core::marker::PhantomData<T> }
    impl<T> IndexSet<T> {
        pub uninterp spec fn view(&self) -> Set<T>;
        #[verifier::external_body]
        pub fn contains(&self, value: &T) -> (r: bool) ensures r == self@.contains(*value) { unimplemented!() }
        #[verifier::external_body]
        pub fn len(&self) -> (r: usize) ensures r == self@.len() { unimplemented!() }
    }

    // ---- GHOST MODEL OF A PROOF NODE -------------------------------------------------------------------
    // A proof is an owned node (`Proof(Own(node))`); the walkers learn about it only through three
    // native-SDK calls.  Their answers are functions of the environment and the proof's node id:
    /// the resource manager the proof object belongs to (its outer object)
    pub uninterp spec fn proof_resource(env: AuthEnv, proof_node: NodeId) -> ResourceAddress;
    /// `Proof_get_amount`: the amount this one proof attests (several proofs may be created against
    /// the same tokens, so amounts of different proofs must not be added up)
    pub uninterp spec fn proof_amount(env: AuthEnv, proof_node: NodeId) -> Decimal;
    /// `NonFungibleProof_get_local_ids`
    pub uninterp spec fn proof_ids(env: AuthEnv, proof_node: NodeId) -> Set<NonFungibleLocalId>;

    // ---- implicit badges ---------------------------------------------------------------------------------
    /// ghost: the non-fungible id `hash(scrypto_encode(package))` under PACKAGE_OF_DIRECT_CALLER_RESOURCE
    pub uninterp spec fn package_of_direct_caller_badge_spec(p: PackageAddress) -> NonFungibleGlobalId;
    impl NonFungibleGlobalId {
        /// radix-common NonFungibleGlobalId::package_of_direct_caller_badge (hashing + encoding: not under contract)
        #[verifier::external_body]
        pub fn package_of_direct_caller_badge(address: PackageAddress) -> (ret: Self)
            ensures ret == package_of_direct_caller_badge_spec(address)
        { unimplemented!() }
    }
}
