// ---- shims/collections.rs : ASSUMED contracts for std BTreeMap / indexmap IndexSet -------------
// Every item here is `external_body`: the real implementations (std::collections::BTreeMap,
// indexmap::IndexSet) are trusted to meet their documented behaviour. Only the operations that
// units actually call are provided. Requires shims/maps.rs to be included as well (the `Default`
// impl for NonIterMap lives here because maps.rs is frozen).
pub mod colls {
    use vstd::prelude::*;
    use super::maps::NonIterMap;

    // ---- BTreeMap -------------------------------------------------------------------------------
    #[verifier::external_body]
    #[verifier::reject_recursive_types(K)]
    #[verifier::reject_recursive_types(V)]
    pub struct BTreeMap<K, V> { k: core::marker::PhantomData<(K, V)> }

    impl<K, V> BTreeMap<K, V> {
        pub uninterp spec fn view(&self) -> Map<K, V>;

        #[verifier::external_body]
        pub fn new() -> (r: Self) ensures r@ == Map::<K, V>::empty() { unimplemented!() }

        #[verifier::external_body]
        pub fn get(&self, key: &K) -> (r: Option<&V>)
            ensures match r { Some(v) => self@.contains_key(*key) && *v == self@[*key], None => !self@.contains_key(*key) }
        { unimplemented!() }

        #[verifier::external_body]
        pub fn contains_key(&self, key: &K) -> (r: bool) ensures r == self@.contains_key(*key) { unimplemented!() }

        #[verifier::external_body]
        pub fn insert(&mut self, key: K, value: V) -> (r: Option<V>)
            ensures final(self)@ == old(self)@.insert(key, value),
                    r == (if old(self)@.contains_key(key) { Some(old(self)@[key]) } else { None::<V> }),
        { unimplemented!() }

        #[verifier::external_body]
        pub fn remove(&mut self, key: &K) -> (r: Option<V>)
            ensures final(self)@ == old(self)@.remove(*key),
                    r == (if old(self)@.contains_key(*key) { Some(old(self)@[*key]) } else { None::<V> }),
        { unimplemented!() }

        #[verifier::external_body]
        pub fn len(&self) -> (r: usize) ensures r == self@.dom().len() { unimplemented!() }

        /// `m.keys()`: every key of the map exactly once (std: in ascending order; the order is
        /// not exposed here).
        #[verifier::external_body]
        pub fn keys(&self) -> (r: BTreeKeys<'_, K, V>)
            ensures r.seq().no_duplicates(), r.seq().to_set() == self@.dom(),
        { unimplemented!() }
    }

    impl<K, V> Default for BTreeMap<K, V> {
        #[verifier::external_body]
        fn default() -> (r: Self) ensures r@ == Map::<K, V>::empty() { unimplemented!() }
    }

    /// the iterator chain `m.keys().copied().collect::<Vec<_>>()` (iterator adapters are outside
    /// Verus; the chain as a whole yields the key sequence as a Vec)
    #[verifier::external_body]
    #[verifier::reject_recursive_types(K)]
    #[verifier::reject_recursive_types(V)]
    pub struct BTreeKeys<'a, K, V> { m: &'a BTreeMap<K, V> }
    #[verifier::external_body]
    #[verifier::reject_recursive_types(K)]
    pub struct CopiedKeys<K> { k: core::marker::PhantomData<K> }

    impl<'a, K, V> BTreeKeys<'a, K, V> {
        pub uninterp spec fn seq(&self) -> Seq<K>;
        #[verifier::external_body]
        pub fn copied(self) -> (r: CopiedKeys<K>) where K: Copy ensures r.seq() == self.seq() { unimplemented!() }
    }
    pub trait FromKeySeq<K>: Sized {
        spec fn key_seq(&self) -> Seq<K>;
    }
    impl<K> FromKeySeq<K> for Vec<K> {
        open spec fn key_seq(&self) -> Seq<K> { self@ }
    }
    impl<K> CopiedKeys<K> {
        pub uninterp spec fn seq(&self) -> Seq<K>;
        #[verifier::external_body]
        pub fn collect<B: FromKeySeq<K>>(self) -> (r: B) ensures r.key_seq() == self.seq() { unimplemented!() }
    }

    // ---- IndexSet -------------------------------------------------------------------------------
    #[verifier::external_body]
    #[verifier::reject_recursive_types(T)]
    pub struct IndexSet<T> { k: core::marker::PhantomData<T> }

    impl<T> IndexSet<T> {
        pub uninterp spec fn view(&self) -> Set<T>;

        #[verifier::external_body]
        pub fn new() -> (r: Self) ensures r@ == Set::<T>::empty() { unimplemented!() }

        /// returns true iff the value was newly inserted
        #[verifier::external_body]
        pub fn insert(&mut self, value: T) -> (r: bool)
            ensures final(self)@ == old(self)@.insert(value), r == !old(self)@.contains(value),
        { unimplemented!() }

        /// returns true iff the value was present
        #[verifier::external_body]
        pub fn swap_remove(&mut self, value: &T) -> (r: bool)
            ensures final(self)@ == old(self)@.remove(*value), r == old(self)@.contains(*value),
        { unimplemented!() }

        #[verifier::external_body]
        pub fn contains(&self, value: &T) -> (r: bool) ensures r == self@.contains(*value) { unimplemented!() }

        #[verifier::external_body]
        pub fn len(&self) -> (r: usize) ensures r == self@.len() { unimplemented!() }
    }

    impl<T> Default for IndexSet<T> {
        #[verifier::external_body]
        fn default() -> (r: Self) ensures r@ == Set::<T>::empty() { unimplemented!() }
    }

    // NonIterMap (radix-rust/src/rust.rs): `fn default() -> Self { Self::new() }`, the empty map.
    impl<K, V> Default for NonIterMap<K, V> {
        #[verifier::external_body]
        fn default() -> (r: Self) ensures r@ == Map::<K, V>::empty() { unimplemented!() }
    }
}
