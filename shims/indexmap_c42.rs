// ---- shims/indexmap_c42.rs : ASSUMED contracts for indexmap::IndexMap as used by the consensus manager's
// epoch-end accounting (unit c42_emissions) ------------------------------------------------------------------
// Every item here is `external_body`: the real indexmap crate is trusted to meet its documented behaviour:
//   * the entries are kept in insertion order; `insert` of a NEW key appends at the end and returns None,
//     `insert` of a PRESENT key replaces the value in place and returns the old value;
//   * `get(&k)` borrows the value stored under `k`; `swap_remove(&k)` removes the binding of `k` and returns its
//     value (the order of the remaining entries changes: the last entry is swapped into the hole -- the order
//     after a swap_remove is therefore left UNSPECIFIED here); `clear()` removes everything;
//   * `get_index(i)` addresses the i-th entry in insertion order; `len()` / `is_empty()` count the entries;
//   * `values()`, `iter()`, `(&map).into_iter()`, `map.into_iter()` yield every entry once, in insertion order;
//     `Iterator::enumerate` pairs the items with 0, 1, 2, ...; `Iterator::map(f)` applies f to every item in order
// Two views of the same object:  `entries(): Seq<(K, V)>` (insertion order) and `map(): Map<K, V>` (the finite map
// the entries represent).  Each contract is stated over the view(s) it is naturally about; NO axiom links the two views
// (clients use one view per map object).
pub mod omap42 {
    use vstd::prelude::*;

    #[verifier::external_body]
    #[verifier::reject_recursive_types(K)]
    #[verifier::reject_recursive_types(V)]
    pub struct IndexMap<K, V> { k: core::marker::PhantomData<(K, V)> }

    pub open spec fn has_key<K, V>(s: Seq<(K, V)>, k: K) -> bool {
        exists|i: int| 0 <= i < s.len() && (#[trigger] s[i]).0 == k
    }
    /// a position holding key `k` (THE position: keys of an IndexMap are pairwise distinct)
    pub open spec fn key_index<K, V>(s: Seq<(K, V)>, k: K) -> int {
        choose|i: int| 0 <= i < s.len() && (#[trigger] s[i]).0 == k
    }

    impl<K, V> IndexMap<K, V> {
        /// the (key, value) pairs in insertion order
        pub uninterp spec fn entries(&self) -> Seq<(K, V)>;
        /// the finite map represented by the entries
        pub uninterp spec fn map(&self) -> Map<K, V>;

        #[verifier::external_body]
        pub fn insert(&mut self, key: K, value: V) -> (r: Option<V>)
            ensures
                final(self).map() == old(self).map().insert(key, value),
                has_key(old(self).entries(), key) ==>
                    r == Some(old(self).entries()[key_index(old(self).entries(), key)].1)
                    && final(self).entries() == old(self).entries().update(key_index(old(self).entries(), key), (key, value)),
                !has_key(old(self).entries(), key) ==>
                    r is None && final(self).entries() == old(self).entries().push((key, value)),
        { unimplemented!() }

        #[verifier::external_body]
        pub fn get(&self, key: &K) -> (r: Option<&V>)
            ensures match r {
                Some(v) => self.map().contains_key(*key) && *v == self.map()[*key],
                None => !self.map().contains_key(*key),
            }
        { unimplemented!() }

        #[verifier::external_body]
        pub fn swap_remove(&mut self, key: &K) -> (r: Option<V>)
            ensures final(self).map() == old(self).map().remove(*key),
                    r == (if old(self).map().contains_key(*key) { Some(old(self).map()[*key]) } else { None::<V> }),
        { unimplemented!() }

        #[verifier::external_body]
        pub fn clear(&mut self)
            ensures final(self).map() == Map::<K, V>::empty(), final(self).entries() == Seq::<(K, V)>::empty(),
        { unimplemented!() }

        #[verifier::external_body]
        pub fn get_index(&self, index: usize) -> (r: Option<(&K, &V)>)
            ensures match r {
                Some(kv) => index < self.entries().len()
                    && *kv.0 == self.entries()[index as int].0 && *kv.1 == self.entries()[index as int].1,
                None => index >= self.entries().len(),
            }
        { unimplemented!() }

        #[verifier::external_body]
        pub fn len(&self) -> (r: usize) ensures r == self.entries().len() { unimplemented!() }

        #[verifier::external_body]
        pub fn is_empty(&self) -> (r: bool) ensures r == (self.entries().len() == 0) { unimplemented!() }

        #[verifier::external_body]
        pub fn values(&self) -> (r: Values<'_, K, V>)
            ensures r.rest().len() == self.entries().len(),
                    forall|i: int| 0 <= i < self.entries().len() ==> *(#[trigger] r.rest()[i]) == self.entries()[i].1,
        { unimplemented!() }

        #[verifier::external_body]
        pub fn iter(&self) -> (r: Iter<'_, K, V>)
            ensures r.rest().len() == self.entries().len(),
                    forall|i: int| 0 <= i < self.entries().len() ==>
                        *(#[trigger] r.rest()[i]).0 == self.entries()[i].0 && *r.rest()[i].1 == self.entries()[i].1,
        { unimplemented!() }
    }
    #[verifier::external_body]
    pub fn index_map_new<K, V>() -> (r: IndexMap<K, V>)
        ensures r.entries() == Seq::<(K, V)>::empty(), r.map() == Map::<K, V>::empty()
    { unimplemented!() }

    /// `for (k, v) in &map` is `map.iter()` (indexmap: `impl IntoIterator for &IndexMap`)
    impl<'a, K, V> IntoIterator for &'a IndexMap<K, V> {
        type Item = (&'a K, &'a V);
        type IntoIter = Iter<'a, K, V>;
        #[verifier::external_body]
        fn into_iter(self) -> (r: Iter<'a, K, V>)
            ensures r.rest().len() == self.entries().len(),
                    forall|i: int| 0 <= i < self.entries().len() ==>
                        *(#[trigger] r.rest()[i]).0 == self.entries()[i].0 && *r.rest()[i].1 == self.entries()[i].1,
        { unimplemented!() }
    }
    /// `for (k, v) in map` / `map.into_iter()` (by value): the owned entries in insertion order
    impl<K, V> IntoIterator for IndexMap<K, V> {
        type Item = (K, V);
        type IntoIter = IntoIter<K, V>;
        #[verifier::external_body]
        fn into_iter(self) -> (r: IntoIter<K, V>) ensures r.rest() == self.entries() { unimplemented!() }
    }

    // ---- &V iterator -------------------------------------------------------------------------------------
    #[verifier::external_body]
    #[verifier::reject_recursive_types(K)]
    #[verifier::reject_recursive_types(V)]
    pub struct Values<'a, K, V> { k: core::marker::PhantomData<&'a (K, V)> }
    impl<'a, K, V> Values<'a, K, V> { pub uninterp spec fn rest(&self) -> Seq<&'a V>; }
    impl<'a, K, V> Iterator for Values<'a, K, V> {
        type Item = &'a V;
        #[verifier::external_body]
        fn next(&mut self) -> (r: Option<&'a V>) { unimplemented!() }
    }
    impl<'a, K, V> vstd::std_specs::iter::IteratorSpecImpl for Values<'a, K, V> {
        open spec fn obeys_prophetic_iter_laws(&self) -> bool { true }
        open spec fn remaining(&self) -> Seq<&'a V> { self.rest() }
        open spec fn will_return_none(&self) -> bool { true }
        open spec fn peek(&self, index: int) -> Option<&'a V> { if 0 <= index < self.rest().len() { Some(self.rest()[index]) } else { None } }
        open spec fn decrease(&self) -> Option<nat> { Some(self.rest().len()) }
    }

    // ---- (&K, &V) iterator -------------------------------------------------------------------------------
    #[verifier::external_body]
    #[verifier::reject_recursive_types(K)]
    #[verifier::reject_recursive_types(V)]
    pub struct Iter<'a, K, V> { k: core::marker::PhantomData<&'a (K, V)> }
    impl<'a, K, V> Iter<'a, K, V> {
        pub uninterp spec fn rest(&self) -> Seq<(&'a K, &'a V)>;
        /// `Iterator::map(f)` (inherent here, shadows the trait method): `f` applied to each remaining entry, in order
        #[verifier::external_body]
        pub fn map<B, F: Fn((&'a K, &'a V)) -> B>(self, f: F) -> (r: Mapped<B>)
            requires forall|i: int| 0 <= i < self.rest().len() ==> f.requires((#[trigger] self.rest()[i],)),
            ensures r.rest().len() == self.rest().len(),
                    forall|i: int| #![trigger self.rest()[i]] #![trigger r.rest()[i]] 0 <= i < self.rest().len() ==> f.ensures((self.rest()[i],), r.rest()[i]),
        { unimplemented!() }
    }
    /// the iterator produced by `map`: yields the mapped items
    #[verifier::external_body]
    #[verifier::reject_recursive_types(B)]
    pub struct Mapped<B> { k: core::marker::PhantomData<B> }
    impl<B> Mapped<B> { pub uninterp spec fn rest(&self) -> Seq<B>; }
    impl<B> Iterator for Mapped<B> {
        type Item = B;
        #[verifier::external_body]
        fn next(&mut self) -> (r: Option<B>) { unimplemented!() }
    }
    impl<B> vstd::std_specs::iter::IteratorSpecImpl for Mapped<B> {
        open spec fn obeys_prophetic_iter_laws(&self) -> bool { true }
        open spec fn remaining(&self) -> Seq<B> { self.rest() }
        open spec fn will_return_none(&self) -> bool { true }
        open spec fn peek(&self, index: int) -> Option<B> { if 0 <= index < self.rest().len() { Some(self.rest()[index]) } else { None } }
        open spec fn decrease(&self) -> Option<nat> { Some(self.rest().len()) }
    }
    impl<'a, K, V> Iterator for Iter<'a, K, V> {
        type Item = (&'a K, &'a V);
        #[verifier::external_body]
        fn next(&mut self) -> (r: Option<(&'a K, &'a V)>) { unimplemented!() }
    }
    impl<'a, K, V> vstd::std_specs::iter::IteratorSpecImpl for Iter<'a, K, V> {
        open spec fn obeys_prophetic_iter_laws(&self) -> bool { true }
        open spec fn remaining(&self) -> Seq<(&'a K, &'a V)> { self.rest() }
        open spec fn will_return_none(&self) -> bool { true }
        open spec fn peek(&self, index: int) -> Option<(&'a K, &'a V)> { if 0 <= index < self.rest().len() { Some(self.rest()[index]) } else { None } }
        open spec fn decrease(&self) -> Option<nat> { Some(self.rest().len()) }
    }

    // ---- (K, V) by-value iterator and its enumerate() ----------------------------------------------------
    #[verifier::external_body]
    #[verifier::reject_recursive_types(K)]
    #[verifier::reject_recursive_types(V)]
    pub struct IntoIter<K, V> { k: core::marker::PhantomData<(K, V)> }
    impl<K, V> IntoIter<K, V> {
        pub uninterp spec fn rest(&self) -> Seq<(K, V)>;
        /// `Iterator::enumerate` (inherent here, shadows the trait method): items paired with their position
        #[verifier::external_body]
        pub fn enumerate(self) -> (r: Enumerate<K, V>)
            ensures r.rest().len() == self.rest().len(),
                    forall|i: int| 0 <= i < self.rest().len() ==> (#[trigger] r.rest()[i]).0 == i && r.rest()[i].1 == self.rest()[i],
        { unimplemented!() }
    }
    impl<K, V> Iterator for IntoIter<K, V> {
        type Item = (K, V);
        #[verifier::external_body]
        fn next(&mut self) -> (r: Option<(K, V)>) { unimplemented!() }
    }
    impl<K, V> vstd::std_specs::iter::IteratorSpecImpl for IntoIter<K, V> {
        open spec fn obeys_prophetic_iter_laws(&self) -> bool { true }
        open spec fn remaining(&self) -> Seq<(K, V)> { self.rest() }
        open spec fn will_return_none(&self) -> bool { true }
        open spec fn peek(&self, index: int) -> Option<(K, V)> { if 0 <= index < self.rest().len() { Some(self.rest()[index]) } else { None } }
        open spec fn decrease(&self) -> Option<nat> { Some(self.rest().len()) }
    }
    #[verifier::external_body]
    #[verifier::reject_recursive_types(K)]
    #[verifier::reject_recursive_types(V)]
    pub struct Enumerate<K, V> { k: core::marker::PhantomData<(K, V)> }
    impl<K, V> Enumerate<K, V> { pub uninterp spec fn rest(&self) -> Seq<(usize, (K, V))>; }
    impl<K, V> Iterator for Enumerate<K, V> {
        type Item = (usize, (K, V));
        #[verifier::external_body]
        fn next(&mut self) -> (r: Option<(usize, (K, V))>) { unimplemented!() }
    }
    impl<K, V> vstd::std_specs::iter::IteratorSpecImpl for Enumerate<K, V> {
        open spec fn obeys_prophetic_iter_laws(&self) -> bool { true }
        open spec fn remaining(&self) -> Seq<(usize, (K, V))> { self.rest() }
        open spec fn will_return_none(&self) -> bool { true }
        open spec fn peek(&self, index: int) -> Option<(usize, (K, V))> { if 0 <= index < self.rest().len() { Some(self.rest()[index]) } else { None } }
        open spec fn decrease(&self) -> Option<nat> { Some(self.rest().len()) }
    }
}
