// ---- shims/format_opaque.rs : `format!("...")` as an UNSPECIFIED String ----------------------------
// Verus has no model of core::fmt. This macro shadows std's `format!` inside the unit so that the
// real code can stay verbatim: a `format!` with a single literal (implicit captures only, e.g.
// `format!("{state:?}")`) evaluates to some String about which NOTHING is known. Sound because
// formatting has no effect on the program state; contracts can therefore say nothing about the text.
pub mod fmt_opaque {
    use vstd::prelude::*;
    #[verifier::external_body]
    pub fn formatted_string() -> String { unimplemented!() }
}
macro_rules! format { ($s:literal) => { $crate::fmt_opaque::formatted_string() } }
