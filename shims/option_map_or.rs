// ---- shims/option_map_or.rs : Option::map_or (not specified by vstd) --------------------------------
pub mod option_map_or {
    use vstd::prelude::*;
    /// ASSUMED (std doc): `map_or(default, f)` is `default` for `None`, and `f(x)` for `Some(x)`.
    pub assume_specification<T, U, F: FnOnce(T) -> U>[Option::<T>::map_or](o: Option<T>, default: U, f: F) -> (r: U)
        requires o matches Some(x) ==> f.requires((x,)),
        ensures o is None ==> r == default, o matches Some(x) ==> f.ensures((x,), r);
}
