// ---- shims/maps.rs : ASSUMED contracts for std / indexmap / NonIterMap collections -------------
// Every item here is `external_body`: the real implementations (std HashMap/BTreeMap, indexmap,
// radix-rust NonIterMap = wrapper around HashMap) are trusted to meet their documented behaviour.
pub mod maps {
    use vstd::prelude::*;

    #[verifier::external_body]
    #[verifier::reject_recursive_types(K)]
    #[verifier::reject_recursive_types(V)]
    pub struct NonIterMap<K, V> { k: core::marker::PhantomData<(K, V)> }

    #[verifier::external_body]
    #[verifier::reject_recursive_types(K)]
    #[verifier::reject_recursive_types(V)]
    pub struct NimEntry<'a, K, V> { m: &'a mut NonIterMap<K, V> }

    impl<'a, K, V> NimEntry<'a, K, V> {
        pub uninterp spec fn key(&self) -> K;
        pub uninterp spec fn map0(&self) -> Map<K, V>;
        /// prophesied map at the end of the borrow started by `entry`
        pub uninterp spec fn fin(&self) -> Map<K, V>;
        /// the map after the entry call, as a function of the final value behind the returned
        /// reference: exactly `key` is (re)bound, every other binding is untouched
        #[verifier::external_body]
        pub fn or_insert(self, default: V) -> (r: &'a mut V)
            ensures *r == (if self.map0().contains_key(self.key()) { self.map0()[self.key()] } else { default }),
                    self.fin() == self.map0().insert(self.key(), *final(r)),
        { unimplemented!() }
    }

    impl<K, V> NonIterMap<K, V> {
        pub uninterp spec fn view(&self) -> Map<K, V>;

        #[verifier::external_body]
        pub fn new() -> (r: Self) ensures r@ == Map::<K, V>::empty() { unimplemented!() }

        #[verifier::external_body]
        pub fn get(&self, key: &K) -> (r: Option<&V>)
            ensures match r { Some(v) => self@.contains_key(*key) && *v == self@[*key], None => !self@.contains_key(*key) }
        { unimplemented!() }

        #[verifier::external_body]
        pub fn contains_key(&self, key: &K) -> (r: bool) ensures r == self@.contains_key(*key) { unimplemented!() }

        #[verifier::external_body]
        pub fn get_mut(&mut self, key: &K) -> (r: Option<&mut V>)
            ensures match r {
                Some(v) => old(self)@.contains_key(*key) && *v == old(self)@[*key] && final(self)@ == old(self)@.insert(*key, *final(v)),
                None => !old(self)@.contains_key(*key) && final(self)@ == old(self)@,
            }
        { unimplemented!() }

        #[verifier::external_body]
        pub fn insert(&mut self, key: K, value: V) -> (r: Option<V>)
            ensures final(self)@ == old(self)@.insert(key, value),
                    r == (if old(self)@.contains_key(key) { Some(old(self)@[key]) } else { None::<V> }),
        { unimplemented!() }

        #[verifier::external_body]
        pub fn remove(&mut self, key: &K) -> (r: Option<V>)
            ensures final(self)@ == old(self)@.remove(*key),
                    r == (if old(self)@.contains_key(*key) { Some(old(self)@[*key]) } else { None::<V> }),
        { unimplemented!() }

        #[verifier::external_body]
        pub fn clear(&mut self) ensures final(self)@ == Map::<K, V>::empty() { unimplemented!() }

        /// `entry(k).or_insert(d)` : the returned reference is the slot of `k`; the final map is the
        /// old map with `k` bound to whatever is finally stored behind the reference.
        #[verifier::external_body]
        pub fn entry(&mut self, key: K) -> (e: NimEntry<'_, K, V>)
            ensures e.key() == key, e.map0() == old(self)@, final(self)@ == e.fin(),
        { unimplemented!() }
    }

    // ---- IndexMap -------------------------------------------------------------------------------
    #[verifier::external_body]
    #[verifier::reject_recursive_types(K)]
    #[verifier::reject_recursive_types(V)]
    pub struct IndexMap<K, V> { k: core::marker::PhantomData<(K, V)> }

    impl<K, V> IndexMap<K, V> {
        pub uninterp spec fn view(&self) -> Map<K, V>;

        #[verifier::external_body]
        pub fn get(&self, key: &K) -> (r: Option<&V>)
            ensures match r { Some(v) => self@.contains_key(*key) && *v == self@[*key], None => !self@.contains_key(*key) }
        { unimplemented!() }

        #[verifier::external_body]
        pub fn contains_key(&self, key: &K) -> (r: bool) ensures r == self@.contains_key(*key) { unimplemented!() }

        #[verifier::external_body]
        pub fn get_mut(&mut self, key: &K) -> (r: Option<&mut V>)
            ensures match r {
                Some(v) => old(self)@.contains_key(*key) && *v == old(self)@[*key] && final(self)@ == old(self)@.insert(*key, *final(v)),
                None => !old(self)@.contains_key(*key) && final(self)@ == old(self)@,
            }
        { unimplemented!() }

        #[verifier::external_body]
        pub fn insert(&mut self, key: K, value: V) -> (r: Option<V>)
            ensures final(self)@ == old(self)@.insert(key, value),
                    r == (if old(self)@.contains_key(key) { Some(old(self)@[key]) } else { None::<V> }),
        { unimplemented!() }

        #[verifier::external_body]
        pub fn swap_remove(&mut self, key: &K) -> (r: Option<V>)
            ensures final(self)@ == old(self)@.remove(*key),
                    r == (if old(self)@.contains_key(*key) { Some(old(self)@[*key]) } else { None::<V> }),
        { unimplemented!() }

        #[verifier::external_body]
        pub fn len(&self) -> (r: usize) ensures r == self@.dom().len() { unimplemented!() }
    }

    #[verifier::external_body]
    pub fn index_map_new<K, V>() -> (r: IndexMap<K, V>) ensures r@ == Map::<K, V>::empty() { unimplemented!() }
}
