// ---- shims/vec_iter_chain.rs : `v.iter().enumerate()` over a std Vec, as a `for` source and as the
// head of `.filter_map(f).collect::<Vec<_>>()` (iterator adapters are outside Verus) ---------------------
// ASSUMED (std docs): `[T]::iter` yields the elements in order, `Iterator::enumerate` pairs them with
// 0, 1, 2, ..., `filter_map(f)` applies `f` to every item in order and keeps the payloads of the `Some`
// results, `collect::<Vec<_>>()` gathers them in order. Mechanism: the extension trait `VecIterExt` is
// found by method resolution at `&Vec<T>` (before the auto-deref to `[T]`), so a verbatim
// `self.vec.iter()` resolves to this model instead of `core::slice::Iter` (which vstd does not let us
// chain adapters on).
pub mod vec_iter {
    use vstd::prelude::*;

    pub trait VecIterExt<T> {
        fn iter(&self) -> (r: VecIter<'_, T>);
    }
    impl<T> VecIterExt<T> for Vec<T> {
        #[verifier::external_body]
        fn iter(&self) -> (r: VecIter<'_, T>)
            ensures r.src() == self@
        { unimplemented!() }
    }

    #[verifier::external_body]
    #[verifier::reject_recursive_types(T)]
    pub struct VecIter<'a, T> { k: core::marker::PhantomData<&'a T> }
    impl<'a, T> VecIter<'a, T> {
        /// the elements of the vector the iterator was made from
        pub uninterp spec fn src(&self) -> Seq<T>;
        #[verifier::external_body]
        pub fn enumerate(self) -> (r: VecEnumerate<'a, T>)
            ensures r.src() == self.src(), r.rest().len() == self.src().len(),
                forall|i: int| 0 <= i < self.src().len() ==> (#[trigger] r.rest()[i]).0 == i && *r.rest()[i].1 == self.src()[i],
        { unimplemented!() }
    }

    #[verifier::external_body]
    #[verifier::reject_recursive_types(T)]
    pub struct VecEnumerate<'a, T> { k: core::marker::PhantomData<&'a T> }
    impl<'a, T> VecEnumerate<'a, T> {
        pub uninterp spec fn src(&self) -> Seq<T>;
        /// the items still to come: (i, &src[i])
        pub uninterp spec fn rest(&self) -> Seq<(usize, &'a T)>;
        #[verifier::external_body]
        pub fn filter_map<B, F: FnMut((usize, &'a T)) -> Option<B>>(self, f: F) -> (r: FilterMapped<B>)
            requires forall|i: int| 0 <= i < self.src().len() ==> call_requires(f, ((i as usize, &#[trigger] self.src()[i]),)),
            ensures is_filter_map_enumerate(self.src(), f, r.seq(), r.idx()),
        { unimplemented!() }
    }
    /// `out` is `f` applied to `(i, &src[i])` for i = 0, 1, ..., keeping the payloads of the `Some` results in
    /// order; `idx[k]` is the position `out[k]` came from (strictly increasing)
    pub open spec fn is_filter_map_enumerate<'a, T: 'a, B, F: FnMut((usize, &'a T)) -> Option<B>>(src: Seq<T>, f: F, out: Seq<B>, idx: Seq<int>) -> bool {
        &&& idx.len() == out.len()
        &&& forall|k: int| 0 <= k < idx.len() ==> 0 <= #[trigger] idx[k] < src.len()
        &&& forall|k: int, l: int| 0 <= k < l < idx.len() ==> #[trigger] idx[k] < #[trigger] idx[l]
        &&& forall|k: int| #![trigger out[k]] #![trigger idx[k]] 0 <= k < idx.len() ==> call_ensures(f, ((idx[k] as usize, &src[idx[k]]),), Some(out[k]))
        &&& forall|i: int| 0 <= i < src.len() ==>
                (exists|k: int| 0 <= k < out.len() && idx[k] == i && call_ensures(f, ((i as usize, &src[i]),), Some(#[trigger] out[k])))
                || call_ensures(f, ((i as usize, &#[trigger] src[i]),), None::<B>)
    }
    impl<'a, T> Iterator for VecEnumerate<'a, T> {
        type Item = (usize, &'a T);
        #[verifier::external_body]
        fn next(&mut self) -> (r: Option<(usize, &'a T)>) { unimplemented!() }
    }
    impl<'a, T> vstd::std_specs::iter::IteratorSpecImpl for VecEnumerate<'a, T> {
        open spec fn obeys_prophetic_iter_laws(&self) -> bool { true }
        open spec fn remaining(&self) -> Seq<(usize, &'a T)> { self.rest() }
        open spec fn will_return_none(&self) -> bool { true }
        open spec fn peek(&self, index: int) -> Option<(usize, &'a T)> {
            if 0 <= index < self.rest().len() { Some(self.rest()[index]) } else { None }
        }
        open spec fn decrease(&self) -> Option<nat> { Some(self.rest().len()) }
    }

    #[verifier::external_body]
    #[verifier::reject_recursive_types(B)]
    pub struct FilterMapped<B> { k: core::marker::PhantomData<B> }
    pub trait FromSeqShim<B>: Sized { spec fn as_seq(&self) -> Seq<B>; }
    impl<B> FromSeqShim<B> for Vec<B> { open spec fn as_seq(&self) -> Seq<B> { self@ } }
    impl<B> FilterMapped<B> {
        pub uninterp spec fn seq(&self) -> Seq<B>;
        pub uninterp spec fn idx(&self) -> Seq<int>;
        #[verifier::external_body]
        pub fn collect<C: FromSeqShim<B>>(self) -> (r: C) ensures r.as_seq() == self.seq() { unimplemented!() }
    }
}
