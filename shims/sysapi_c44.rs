// ---- shims/sysapi_c44.rs : ghost-heap model of `SystemApi<E>` for the consensus manager (unit c44) ----
// TRUSTED BASE.  Everything in this module is an ASSUMED contract of code that is NOT under proof:
//   * radix-engine-interface `SystemApi` field API (actor_open_field / field_read_typed /
//     field_write_typed / field_close), modelled over a ghost heap
//         fields  : FieldIndex  -> GhostVal          (the committed-or-pending value of each field)
//         handles : FieldHandle -> (FieldIndex, mutable?)   (open locks)
//   * the macro-generated `ConsensusManagerField` enum (index == declaration order) and the
//     versioned `ConsensusManager*FieldPayload` wrappers (content round-trips),
//   * `Runtime::emit_event`, `ConsensusManagerBlueprint::{update_proposal_statistics, epoch_change}`
//     and `EpochChangeCondition::should_epoch_change` as FRAME conditions only.
// The including unit must provide `pub mod env` with the real data types (extracted from /repo).
//
// Design notes
//   * `field_read_typed::<S>` in /repo is `scrypto_decode(..).unwrap()`: reading a field with the wrong
//     payload type PANICS.  The model therefore REQUIRES `S::accepts(stored value)`; a read of the wrong
//     field/type is a failed precondition, never a vacuous `Ok` branch.
//   * `field_write_typed` REQUIRES a handle opened with LockFlags::MUTABLE and a payload of the kind the
//     field holds (`kind_ok`), so the heap stays well typed (`typed`).
//   * A failing call (`Err`) never changes `fields`.
pub mod shim_sysapi {
    use vstd::prelude::*;
    use super::env::*;

    pub type FieldHandle = u32;
    pub type FieldIndex = u8;
    pub type ActorStateHandle = u32;
    /// radix-engine-interface/src/api/mod.rs
    pub const ACTOR_STATE_SELF: ActorStateHandle = 0u32;

    /// radix-engine-interface/src/api/field_api.rs (bitflags): MUTABLE = 0b0000_0001, read_only() = empty()
    pub struct LockFlags { pub bits: u32 }
    impl LockFlags {
        pub const MUTABLE: LockFlags = LockFlags { bits: 1 };
        pub fn read_only() -> (r: LockFlags) ensures r.bits == 0 { LockFlags { bits: 0 } }
    }
    pub open spec fn is_mutable(flags: LockFlags) -> bool { flags.bits == 1 }

    /// `declare_native_blueprint_state!{ blueprint_ident: ConsensusManager, fields: {..} }` generates a
    /// `#[repr(u8)]` enum in declaration order and `impl From<ConsensusManagerField> for u8 { value as u8 }`.
    pub enum ConsensusManagerField {
        Configuration,
        State,
        ValidatorRewards,
        CurrentValidatorSet,
        CurrentProposalStatistic,
        ProposerMinuteTimestamp,
        ProposerMilliTimestamp,
    }
    pub open spec fn fidx(f: ConsensusManagerField) -> FieldIndex {
        match f {
            ConsensusManagerField::Configuration => 0u8,
            ConsensusManagerField::State => 1u8,
            ConsensusManagerField::ValidatorRewards => 2u8,
            ConsensusManagerField::CurrentValidatorSet => 3u8,
            ConsensusManagerField::CurrentProposalStatistic => 4u8,
            ConsensusManagerField::ProposerMinuteTimestamp => 5u8,
            ConsensusManagerField::ProposerMilliTimestamp => 6u8,
        }
    }
    impl ConsensusManagerField {
        /// stands for `<ConsensusManagerField as Into<u8>>::into`
        #[verifier::external_body]
        pub fn into(self) -> (r: FieldIndex) ensures r == fidx(self) { unimplemented!() }
    }
    pub open spec fn I_CONFIG() -> FieldIndex { fidx(ConsensusManagerField::Configuration) }
    pub open spec fn I_STATE()  -> FieldIndex { fidx(ConsensusManagerField::State) }
    pub open spec fn I_MINUTE() -> FieldIndex { fidx(ConsensusManagerField::ProposerMinuteTimestamp) }
    pub open spec fn I_MILLI()  -> FieldIndex { fidx(ConsensusManagerField::ProposerMilliTimestamp) }

    /// ghost value of a field; the four fields this unit talks about carry their full content
    pub enum GhostVal {
        Config(ConsensusManagerConfigSubstate),
        State(ConsensusManagerSubstate),
        Minute(ProposerMinuteTimestampSubstate),
        Milli(ProposerMilliTimestampSubstate),
        Other,
    }
    pub type Heap = Map<FieldIndex, GhostVal>;

    /// which kind of value field `idx` holds (established by `ConsensusManagerBlueprint::create`)
    pub open spec fn kind_ok(idx: FieldIndex, g: GhostVal) -> bool {
        &&& (idx == I_CONFIG() ==> g is Config)
        &&& (idx == I_STATE()  ==> g is State)
        &&& (idx == I_MINUTE() ==> g is Minute)
        &&& (idx == I_MILLI()  ==> g is Milli)
    }
    pub open spec fn typed(h: Heap) -> bool {
        &&& h.contains_key(I_CONFIG()) && h[I_CONFIG()] is Config
        &&& h.contains_key(I_STATE())  && h[I_STATE()]  is State
        &&& h.contains_key(I_MINUTE()) && h[I_MINUTE()] is Minute
        &&& h.contains_key(I_MILLI())  && h[I_MILLI()]  is Milli
    }
    /// the four modelled fields are exactly as before
    pub open spec fn same4(a: Heap, b: Heap) -> bool {
        &&& b.contains_key(I_CONFIG()) == a.contains_key(I_CONFIG()) && b[I_CONFIG()] == a[I_CONFIG()]
        &&& b.contains_key(I_STATE())  == a.contains_key(I_STATE())  && b[I_STATE()]  == a[I_STATE()]
        &&& b.contains_key(I_MINUTE()) == a.contains_key(I_MINUTE()) && b[I_MINUTE()] == a[I_MINUTE()]
        &&& b.contains_key(I_MILLI())  == a.contains_key(I_MILLI())  && b[I_MILLI()]  == a[I_MILLI()]
    }

    /// spec view of a typed payload (stands for ScryptoEncode/ScryptoDecode of the payload type)
    pub trait VerifPayload: Sized {
        spec fn ghost(&self) -> GhostVal;
        /// the stored values this payload type decodes without panicking
        spec fn accepts(g: GhostVal) -> bool;
    }

    /// radix-engine-interface `SystemApiError` (bound of `SystemApi<E>`), with the one fact this unit uses:
    /// ASSUMED -- the system API itself (field open/read/write/close, emit event) fails with kernel /
    /// system / module errors only, never with a blueprint-level `RuntimeError::ApplicationError`.
    pub trait SystemApiError: Sized { spec fn is_application_error(&self) -> bool; }
    impl SystemApiError for RuntimeError {
        open spec fn is_application_error(&self) -> bool { *self is ApplicationError }
    }

    pub trait SystemApi<E: SystemApiError>: Sized {
        spec fn fields(&self) -> Heap;
        spec fn handles(&self) -> Map<FieldHandle, (FieldIndex, bool)>;

        fn actor_open_field(&mut self, object_handle: ActorStateHandle, field: FieldIndex, flags: LockFlags) -> (r: Result<FieldHandle, E>)
            ensures
                final(self).fields() == old(self).fields(),
                r matches Ok(h) ==> !old(self).handles().contains_key(h)
                    && final(self).handles() == old(self).handles().insert(h, (field, is_mutable(flags))),
                r is Err ==> final(self).handles() == old(self).handles(),
                r matches Err(e) ==> !e.is_application_error();

        fn field_read_typed<S: VerifPayload>(&mut self, handle: FieldHandle) -> (r: Result<S, E>)
            requires
                old(self).handles().contains_key(handle),
                old(self).fields().contains_key(old(self).handles()[handle].0),
                S::accepts(old(self).fields()[old(self).handles()[handle].0]),
            ensures
                final(self).fields() == old(self).fields(),
                final(self).handles() == old(self).handles(),
                r matches Ok(s) ==> s.ghost() == old(self).fields()[old(self).handles()[handle].0],
                r matches Err(e) ==> !e.is_application_error();

        fn field_write_typed<S: VerifPayload>(&mut self, handle: FieldHandle, substate: &S) -> (r: Result<(), E>)
            requires
                old(self).handles().contains_key(handle),
                old(self).handles()[handle].1,
                kind_ok(old(self).handles()[handle].0, substate.ghost()),
            ensures
                final(self).handles() == old(self).handles(),
                r is Ok ==> final(self).fields() == old(self).fields().insert(old(self).handles()[handle].0, substate.ghost()),
                r is Err ==> final(self).fields() == old(self).fields(),
                r matches Err(e) ==> !e.is_application_error();

        fn field_close(&mut self, handle: FieldHandle) -> (r: Result<(), E>)
            requires old(self).handles().contains_key(handle)
            ensures
                final(self).fields() == old(self).fields(),
                r is Ok ==> final(self).handles() == old(self).handles().remove(handle),
                r matches Err(e) ==> !e.is_application_error();
    }

    // ---- versioned payload wrappers (macro generated in /repo): content round-trips -------------------
    pub struct ConsensusManagerConfigurationFieldPayload { pub content: ConsensusManagerConfigSubstate }
    impl VerifPayload for ConsensusManagerConfigurationFieldPayload {
        open spec fn ghost(&self) -> GhostVal { GhostVal::Config(self.content) }
        open spec fn accepts(g: GhostVal) -> bool { g is Config }
    }
    impl ConsensusManagerConfigurationFieldPayload {
        pub fn fully_update_and_into_latest_version(self) -> (r: ConsensusManagerConfigSubstate) ensures r == self.content { self.content }
        pub fn from_content_source(c: ConsensusManagerConfigSubstate) -> (r: Self) ensures r.content == c { Self { content: c } }
    }
    pub struct ConsensusManagerStateFieldPayload { pub content: ConsensusManagerSubstate }
    impl VerifPayload for ConsensusManagerStateFieldPayload {
        open spec fn ghost(&self) -> GhostVal { GhostVal::State(self.content) }
        open spec fn accepts(g: GhostVal) -> bool { g is State }
    }
    impl ConsensusManagerStateFieldPayload {
        pub fn fully_update_and_into_latest_version(self) -> (r: ConsensusManagerSubstate) ensures r == self.content { self.content }
        pub fn from_content_source(c: ConsensusManagerSubstate) -> (r: Self) ensures r.content == c { Self { content: c } }
    }
    pub struct ConsensusManagerProposerMinuteTimestampFieldPayload { pub content: ProposerMinuteTimestampSubstate }
    impl VerifPayload for ConsensusManagerProposerMinuteTimestampFieldPayload {
        open spec fn ghost(&self) -> GhostVal { GhostVal::Minute(self.content) }
        open spec fn accepts(g: GhostVal) -> bool { g is Minute }
    }
    impl ConsensusManagerProposerMinuteTimestampFieldPayload {
        pub fn fully_update_and_into_latest_version(self) -> (r: ProposerMinuteTimestampSubstate) ensures r == self.content { self.content }
        pub fn from_content_source(c: ProposerMinuteTimestampSubstate) -> (r: Self) ensures r.content == c { Self { content: c } }
    }
    pub struct ConsensusManagerProposerMilliTimestampFieldPayload { pub content: ProposerMilliTimestampSubstate }
    impl VerifPayload for ConsensusManagerProposerMilliTimestampFieldPayload {
        open spec fn ghost(&self) -> GhostVal { GhostVal::Milli(self.content) }
        open spec fn accepts(g: GhostVal) -> bool { g is Milli }
    }
    impl ConsensusManagerProposerMilliTimestampFieldPayload {
        pub fn fully_update_and_into_latest_version(self) -> (r: ProposerMilliTimestampSubstate) ensures r == self.content { self.content }
        pub fn from_content_source(c: ProposerMilliTimestampSubstate) -> (r: Self) ensures r.content == c { Self { content: c } }
    }

    // ---- collaborators of next_round / start that are NOT under contract: frame conditions only -----
    /// radix-native-sdk Runtime::emit_event -> api.actor_emit_event: touches no field, no field lock
    pub struct Runtime;
    impl Runtime {
        #[verifier::external_body]
        pub fn emit_event<Y: SystemApi<E>, E: SystemApiError, T>(api: &mut Y, event: T) -> (r: Result<(), E>)
            ensures final(api).fields() == old(api).fields(), final(api).handles() == old(api).handles(),
                    r matches Err(e) ==> !e.is_application_error(),
        { unimplemented!() }
    }
    impl EpochChangeCondition {
        /// pure function of its arguments; its RESULT is left unconstrained (both outcomes are
        /// covered by the contract of next_round)
        #[verifier::external_body]
        pub fn should_epoch_change(&self, effective_start: i64, current_time: i64, round: Round) -> EpochChangeOutcome
        { unimplemented!() }
    }
    impl ConsensusManagerBlueprint {
        /// ASSUMED frame: only opens/writes field CurrentProposalStatistic and closes the handle it opened.
        /// `progressed_rounds - 1` in its first line underflows for 0: obligation at the call site.
        #[verifier::external_body]
        pub fn update_proposal_statistics<Y: SystemApi<RuntimeError>>(progressed_rounds: u64, proposal_history: LeaderProposalHistory, api: &mut Y) -> (r: Result<(), RuntimeError>)
            requires progressed_rounds >= 1,
            ensures same4(old(api).fields(), final(api).fields()),
                    r is Ok ==> final(api).handles() == old(api).handles(),
        { unimplemented!() }
        /// ASSUMED frame: opens CurrentValidatorSet, CurrentProposalStatistic, ValidatorRewards and the
        /// registered-validator index, calls validators / resource managers; never writes Configuration,
        /// State or the two proposer timestamps (State is MUTABLE-locked by the caller meanwhile) and
        /// closes every handle it opened.
        #[verifier::external_body]
        pub fn epoch_change<Y: SystemApi<RuntimeError>>(next_epoch: Epoch, config: &ConsensusManagerConfig, api: &mut Y) -> (r: Result<(), RuntimeError>)
            ensures same4(old(api).fields(), final(api).fields()),
                    r is Ok ==> final(api).handles() == old(api).handles(),
        { unimplemented!() }
    }
}
