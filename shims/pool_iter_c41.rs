// ---- shims/pool_iter_c41.rs : indexmap::IndexMap and the iterator adapter chains of the two- and
// multi-resource pool blueprints (unit c41_multi_pools) --------------------------------------------
// TRUSTED BASE.  Nothing here is under contract; every fn is `external_body` and states the documented
// behaviour of the real dependency (indexmap 2.x, core::iter):
//   * an IndexMap is a sequence `pairs()` of (key, value) entries in insertion order with pairwise
//     distinct keys; `insert` of a new key appends, of an existing key replaces the value in place;
//     by-value iteration (`into_iter`) yields the entries in that order;
//   * `Iterator::map(f)` applies `f` to every item in order: item i of the result satisfies the
//     postcondition of `f` for item i of the source (the closure's precondition must hold for every item);
//   * `Iterator::collect::<Result<C, E>>()` (core: `impl FromIterator<Result<A, E>> for Result<V, E>`):
//     `Ok(c)` iff every item is `Ok`, `c` collected from the payloads in order; otherwise the FIRST `Err`
//     (items behind it are not evaluated -- immaterial here, the mapped closures are pure);
//   * `FromIterator<(K, V)> for IndexMap` inserts front to back: for pairwise distinct keys the result's
//     entries are exactly the collected pairs, in order.
// Iterator adapters are outside Verus: `map`, `filter_map`, `max_by`, `collect` are INHERENT methods of the
// shim iterator types (inherent methods shadow the `Iterator` trait methods, so the real text
// `x.into_iter().map(f).collect()` resolves to them).
pub mod pool_iter {
    use vstd::prelude::*;
    use core::cmp::Ordering;

    // ================================================================ IndexMap
    #[verifier::external_body]
    #[verifier::reject_recursive_types(K)]
    #[verifier::reject_recursive_types(V)]
    pub struct IndexMap<K, V> { k: core::marker::PhantomData<(K, V)> }

    pub open spec fn keys_distinct<K, V>(s: Seq<(K, V)>) -> bool {
        forall|i: int, j: int| 0 <= i < j < s.len() ==> (#[trigger] s[i]).0 != (#[trigger] s[j]).0
    }
    pub open spec fn has_key<K, V>(s: Seq<(K, V)>, k: K) -> bool { exists|i: int| 0 <= i < s.len() && (#[trigger] s[i]).0 == k }

    impl<K, V> IndexMap<K, V> {
        /// the entries, in insertion order
        pub uninterp spec fn pairs(&self) -> Seq<(K, V)>;
        /// THE IndexMap whose entries are `s` (meaningful for pairwise distinct keys)
        pub uninterp spec fn from_seq(s: Seq<(K, V)>) -> IndexMap<K, V>;

        /// `IndexMap::insert`: appends a new key, replaces the value of an existing key in place
        #[verifier::external_body]
        pub fn insert(&mut self, key: K, value: V) -> (r: Option<V>)
            ensures
                !has_key(old(self).pairs(), key) ==> r is None && final(self).pairs() == old(self).pairs().push((key, value)),
                has_key(old(self).pairs(), key) ==> r is Some && final(self).pairs().len() == old(self).pairs().len()
                    && forall|i: int| 0 <= i < old(self).pairs().len() ==> #[trigger] final(self).pairs()[i] ==
                        (if old(self).pairs()[i].0 == key { (key, value) } else { old(self).pairs()[i] }),
        { unimplemented!() }

        /// by-value iteration: the entries in insertion order
        #[verifier::external_body]
        pub fn into_iter(self) -> (r: PairIter<K, V>) ensures r.rest() == self.pairs() { unimplemented!() }

        #[verifier::external_body]
        pub fn len(&self) -> (r: usize) ensures r == self.pairs().len() { unimplemented!() }
    }
    /// derived `Clone` of IndexMap: same entries (for value types whose clone is the identity: Decimal is Copy)
    impl<K: Copy, V: Copy> Clone for IndexMap<K, V> {
        #[verifier::external_body]
        fn clone(&self) -> (r: Self) ensures r.pairs() == self.pairs() { unimplemented!() }
    }
    /// ASSUMED: the keys of an IndexMap are pairwise distinct
    pub broadcast axiom fn ax_index_map_distinct<K, V>(m: IndexMap<K, V>)
        ensures keys_distinct(#[trigger] m.pairs());
    /// ASSUMED: collecting pairwise distinct keys keeps every pair, in order
    pub broadcast axiom fn ax_index_map_from_seq<K, V>(s: Seq<(K, V)>)
        requires keys_distinct(s)
        ensures (#[trigger] IndexMap::<K, V>::from_seq(s)).pairs() == s;
    pub broadcast group group_pool_iter { ax_index_map_distinct, ax_index_map_from_seq }

    /// radix-rust `index_map_new()`
    #[verifier::external_body]
    pub fn index_map_new<K, V>() -> (r: IndexMap<K, V>) ensures r.pairs() == Seq::<(K, V)>::empty() { unimplemented!() }

    // ================================================================ by-value iteration + adapters
    #[verifier::external_body]
    #[verifier::reject_recursive_types(K)]
    #[verifier::reject_recursive_types(V)]
    pub struct PairIter<K, V> { k: core::marker::PhantomData<(K, V)> }
    impl<K, V> PairIter<K, V> {
        /// the items still to come
        pub uninterp spec fn rest(&self) -> Seq<(K, V)>;
        /// `Iterator::map(f)`
        #[verifier::external_body]
        pub fn map<B, F: FnMut((K, V)) -> B>(self, f: F) -> (r: Mapped<B>)
            requires forall|i: int| 0 <= i < self.rest().len() ==> call_requires(f, (#[trigger] self.rest()[i],)),
            ensures r.seq().len() == self.rest().len(),
                    forall|i: int| #![trigger self.rest()[i]] #![trigger r.seq()[i]] 0 <= i < self.rest().len() ==> call_ensures(f, (self.rest()[i],), r.seq()[i]),
        { unimplemented!() }
    }
    impl<K, V> Iterator for PairIter<K, V> {
        type Item = (K, V);
        #[verifier::external_body]
        fn next(&mut self) -> (r: Option<(K, V)>) { unimplemented!() }
    }
    impl<K, V> vstd::std_specs::iter::IteratorSpecImpl for PairIter<K, V> {
        open spec fn obeys_prophetic_iter_laws(&self) -> bool { true }
        open spec fn remaining(&self) -> Seq<(K, V)> { self.rest() }
        open spec fn will_return_none(&self) -> bool { true }
        open spec fn peek(&self, index: int) -> Option<(K, V)> {
            if 0 <= index < self.rest().len() { Some(self.rest()[index]) } else { None }
        }
        open spec fn decrease(&self) -> Option<nat> { Some(self.rest().len()) }
    }

    /// `Iterator::map(f)`: item i of the result satisfies the postcondition of `f` for item i of the source
    #[verifier::opaque]
    pub open spec fn is_map<B, C, F: FnMut(B) -> C>(src: Seq<B>, f: F, out: Seq<C>) -> bool {
        &&& out.len() == src.len()
        &&& forall|i: int| #![trigger src[i]] #![trigger out[i]] 0 <= i < src.len() ==> call_ensures(f, (src[i],), out[i])
    }
    /// `c` is the `Some` payload of `f` on some source item
    pub open spec fn fm_from<B, C, F: FnMut(B) -> Option<C>>(src: Seq<B>, f: F, c: C) -> bool {
        exists|i: int| 0 <= i < src.len() && call_ensures(f, (#[trigger] src[i],), Some(c))
    }
    /// the source item `b` was mapped to `None` or its payload was kept
    pub open spec fn fm_kept<B, C, F: FnMut(B) -> Option<C>>(out: Seq<C>, f: F, b: B) -> bool {
        call_ensures(f, (b,), None::<C>) || exists|k: int| 0 <= k < out.len() && call_ensures(f, (b,), Some(#[trigger] out[k]))
    }
    /// `Iterator::filter_map(f)`: `f` is applied to every item; the payloads of the `Some` results are kept.
    /// (Stated element-wise: every kept item is the `Some` payload of `f` on some source item, and every source item
    /// either was mapped to `None` or its payload was kept.  Order and multiplicity are not exposed.)
    #[verifier::opaque]
    pub open spec fn is_filter_map<B, C, F: FnMut(B) -> Option<C>>(src: Seq<B>, f: F, out: Seq<C>) -> bool {
        &&& out.len() <= src.len()
        &&& forall|k: int| 0 <= k < out.len() ==> fm_from(src, f, #[trigger] out[k])
        &&& forall|i: int| 0 <= i < src.len() ==> fm_kept(out, f, #[trigger] src[i])
    }
    /// `acc` is what `max_by(compare)` holds after the first `n >= 1` items of `s`
    /// (core: `fold` keeping the later item `y` unless `compare(&x, &y) == Greater`)
    pub open spec fn max_by_fold<B, F: FnMut(&B, &B) -> Ordering>(s: Seq<B>, compare: F, n: int, acc: B) -> bool
        decreases n
    {
        if n <= 1 { n == 1 && s.len() >= 1 && acc == s[0] } else {
            n <= s.len() && exists|prev: B, o: Ordering| #![trigger call_ensures(compare, (&prev, &s[n - 1]), o)] max_by_fold(s, compare, n - 1, prev) && call_ensures(compare, (&prev, &s[n - 1]), o)
                && acc == (if o is Greater { prev } else { s[n - 1] })
        }
    }
    /// `Iterator::max_by(compare)`: None iff empty
    #[verifier::opaque]
    pub open spec fn is_max_by<B, F: FnMut(&B, &B) -> Ordering>(src: Seq<B>, compare: F, r: Option<B>) -> bool {
        if src.len() == 0 { r is None } else { r matches Some(x) && max_by_fold(src, compare, src.len() as int, x) }
    }
    // (is_map / is_filter_map / is_max_by are `opaque`: the two quantifiers of is_filter_map feed each other's triggers,
    // so clients `reveal` them only where the general form is needed.)
    // ---- the same contracts spelled out for sources of at most two items.  REDUNDANT: each `*_small` predicate is
    // implied by the general predicate above (proved, not assumed: lemma_map_small / lemma_filter_map_small /
    // lemma_max_by_small in unit c41_multi_pools).  They are stated in the `ensures` as well because facts about
    // closures created inside a generic function do not reach broadcast lemmas that are generic in the closure type.
    pub open spec fn map_small<B, C, F: FnMut(B) -> C>(src: Seq<B>, f: F, out: Seq<C>) -> bool {
        &&& out.len() == src.len()
        &&& src.len() > 0 ==> call_ensures(f, (src[0],), out[0])
        &&& src.len() > 1 ==> call_ensures(f, (src[1],), out[1])
    }
    pub open spec fn filter_map_small<B, C, F: FnMut(B) -> Option<C>>(src: Seq<B>, f: F, out: Seq<C>) -> bool {
        &&& out.len() <= src.len()
        &&& src.len() <= 2 ==> {
            &&& out.len() > 0 ==> ((src.len() > 0 && call_ensures(f, (src[0],), Some(out[0]))) || (src.len() > 1 && call_ensures(f, (src[1],), Some(out[0]))))
            &&& out.len() > 1 ==> ((src.len() > 0 && call_ensures(f, (src[0],), Some(out[1]))) || (src.len() > 1 && call_ensures(f, (src[1],), Some(out[1]))))
            &&& src.len() > 0 ==> (call_ensures(f, (src[0],), None::<C>) || (out.len() > 0 && call_ensures(f, (src[0],), Some(out[0]))) || (out.len() > 1 && call_ensures(f, (src[0],), Some(out[1]))))
            &&& src.len() > 1 ==> (call_ensures(f, (src[1],), None::<C>) || (out.len() > 0 && call_ensures(f, (src[1],), Some(out[0]))) || (out.len() > 1 && call_ensures(f, (src[1],), Some(out[1]))))
        }
    }
    pub open spec fn max_by_small<B, F: FnMut(&B, &B) -> Ordering>(src: Seq<B>, compare: F, r: Option<B>) -> bool {
        &&& src.len() == 0 ==> r is None
        &&& src.len() == 1 ==> r == Some(src[0])
        &&& src.len() == 2 ==> exists|o: Ordering| #[trigger] call_ensures(compare, (&src[0], &src[1]), o) && r == Some(if o is Greater { src[0] } else { src[1] })
    }
    /// stands for `<[T; N] as IntoIterator>::into_iter` (by-value array iteration: the elements in order) as the
    /// head of an adapter chain; units @subst `[..].into_iter()` to `[..].into_iter_shim()`
    pub trait ArrayIntoIterShim<T> { fn into_iter_shim(self) -> Mapped<T>; }
    impl<T, const N: usize> ArrayIntoIterShim<T> for [T; N] {
        #[verifier::external_body]
        fn into_iter_shim(self) -> (r: Mapped<T>) ensures r.seq() == self@ { unimplemented!() }
    }

    /// a finished `.map(f)` / `.filter_map(f)` stage: the items it will yield
    #[verifier::external_body]
    #[verifier::reject_recursive_types(B)]
    pub struct Mapped<B> { k: core::marker::PhantomData<B> }
    impl<B> Mapped<B> {
        pub uninterp spec fn seq(&self) -> Seq<B>;
        /// `Iterator::map(f)`
        #[verifier::external_body]
        pub fn map<C, F: FnMut(B) -> C>(self, f: F) -> (r: Mapped<C>)
            requires forall|i: int| 0 <= i < self.seq().len() ==> call_requires(f, (#[trigger] self.seq()[i],)),
            ensures is_map(self.seq(), f, r.seq()), map_small(self.seq(), f, r.seq()),
        { unimplemented!() }
        /// `Iterator::filter_map(f)`
        #[verifier::external_body]
        pub fn filter_map<C, F: FnMut(B) -> Option<C>>(self, f: F) -> (r: Mapped<C>)
            requires forall|i: int| 0 <= i < self.seq().len() ==> call_requires(f, (#[trigger] self.seq()[i],)),
            ensures is_filter_map(self.seq(), f, r.seq()), filter_map_small(self.seq(), f, r.seq()),
        { unimplemented!() }
        /// `Iterator::max_by(compare)`
        #[verifier::external_body]
        pub fn max_by<F: FnMut(&B, &B) -> Ordering>(self, compare: F) -> (r: Option<B>)
            requires forall|i: int, j: int| 0 <= i < self.seq().len() && 0 <= j < self.seq().len() ==> call_requires(compare, (&#[trigger] self.seq()[i], &#[trigger] self.seq()[j])),
            ensures is_max_by(self.seq(), compare, r), max_by_small(self.seq(), compare, r),
        { unimplemented!() }
        /// `Iterator::collect()`
        #[verifier::external_body]
        pub fn collect<C: FromItems<B>>(self) -> (r: C) ensures r.collected_from(self.seq()) { unimplemented!() }
    }
    /// a `Mapped<B>` can also drive a `for` loop (it yields `seq()` in order)
    impl<B> Iterator for Mapped<B> {
        type Item = B;
        #[verifier::external_body]
        fn next(&mut self) -> (r: Option<B>) { unimplemented!() }
    }
    impl<B> vstd::std_specs::iter::IteratorSpecImpl for Mapped<B> {
        open spec fn obeys_prophetic_iter_laws(&self) -> bool { true }
        open spec fn remaining(&self) -> Seq<B> { self.seq() }
        open spec fn will_return_none(&self) -> bool { true }
        open spec fn peek(&self, index: int) -> Option<B> {
            if 0 <= index < self.seq().len() { Some(self.seq()[index]) } else { None }
        }
        open spec fn decrease(&self) -> Option<nat> { Some(self.seq().len()) }
    }
    /// what `collect()` builds from the yielded items
    pub trait FromItems<B>: Sized { spec fn collected_from(&self, s: Seq<B>) -> bool; }
    pub open spec fn all_ok<T, E>(s: Seq<Result<T, E>>) -> bool { forall|i: int| 0 <= i < s.len() ==> (#[trigger] s[i]) is Ok }
    pub open spec fn ok_payloads<T, E>(s: Seq<Result<T, E>>) -> Seq<T> { Seq::new(s.len(), |i: int| s[i]->Ok_0) }
    /// core: `impl<A, E, V: FromIterator<A>> FromIterator<Result<A, E>> for Result<V, E>` with V = IndexMap<K, V>
    impl<K, V, E> FromItems<Result<(K, V), E>> for Result<IndexMap<K, V>, E> {
        open spec fn collected_from(&self, s: Seq<Result<(K, V), E>>) -> bool {
            match *self {
                Ok(m) => all_ok(s) && m == IndexMap::<K, V>::from_seq(ok_payloads(s)),
                Err(e) => exists|j: int| 0 <= j < s.len() && #[trigger] s[j] == Err::<(K, V), E>(e) && (forall|i: int| 0 <= i < j ==> (#[trigger] s[i]) is Ok),
            }
        }
    }
}
