// ---- shims/iter_chain_c39.rs : the iterator chain of AccountBlueprint::try_deposit_batch_or_refund ----
// TRUSTED BASE (std semantics, nothing here is under contract).
// The real statement is
//     let offending = buckets.iter().map(F).collect::<Result<Vec<_>, _>>()?.into_iter().filter_map(G).collect::<Vec<_>>();
// where F calls the system API through a captured `&mut Y`.  Verus has no iterator adapters and rejects
// closures that capture a mutable reference, so the unit rewrites (rule RX, see the @subst lines of the unit)
//     `buckets.iter().map(F).collect::<Result<Vec<_>, _>>()?`
// into the loop that std executes for it (apply F to each element in order, stop at the first `Err` and
// return it, otherwise gather the `Ok` payloads in order), gathering into `Collected<T>` below (which stands
// for the intermediate `Vec<T>`), and keeps `.into_iter().filter_map(G).collect::<Vec<_>>()` verbatim against
// the model below.
// ASSUMED (std docs): `Vec::into_iter` yields the elements in order; `filter_map(g)` applies `g` to every
// item in order and keeps the payloads of the `Some` results; `collect::<Vec<_>>()` gathers them in order.
pub mod shim_iter_chain_c39 {
    use vstd::prelude::*;

    /// stands for the `Vec<T>` produced by `collect::<Result<Vec<T>, E>>()`
    #[verifier::external_body]
    #[verifier::reject_recursive_types(T)]
    pub struct Collected<T> { v: Vec<T> }
    impl<T> Collected<T> {
        pub uninterp spec fn seq(&self) -> Seq<T>;
        #[verifier::external_body]
        pub fn new() -> (r: Self) ensures r.seq() == Seq::<T>::empty() { Collected { v: Vec::new() } }
        #[verifier::external_body]
        pub fn push(&mut self, x: T) ensures final(self).seq() == old(self).seq().push(x) { self.v.push(x) }
        #[verifier::external_body]
        pub fn into_iter(self) -> (r: CollectedIter<T>) ensures r.seq() == self.seq() { CollectedIter { v: self.v } }
    }

    #[verifier::external_body]
    #[verifier::reject_recursive_types(T)]
    pub struct CollectedIter<T> { v: Vec<T> }
    impl<T> CollectedIter<T> {
        /// the items still to come
        pub uninterp spec fn seq(&self) -> Seq<T>;
        /// if the closure behaves like the function `g` (its postcondition determines the result as g(x)),
        /// the adapter yields `filter_map_spec(items, g)`
        #[verifier::external_body]
        pub fn filter_map<B, F: FnMut(T) -> Option<B>>(self, f: F) -> (r: FilterMapped<B>)
            requires forall|i: int| 0 <= i < self.seq().len() ==> call_requires(f, (#[trigger] self.seq()[i],)),
            ensures forall|g: spec_fn(T) -> Option<B>| (forall|x: T, o: Option<B>| call_ensures(f, (x,), o) ==> o == g(x))
                ==> r.seq() == #[trigger] filter_map_spec(self.seq(), g),
        { unimplemented!() }
    }
    /// `g` applied to src[0], src[1], ... keeping the payloads of the `Some` results, in order
    pub open spec fn filter_map_spec<T, B>(src: Seq<T>, g: spec_fn(T) -> Option<B>) -> Seq<B>
        decreases src.len()
    {
        if src.len() == 0 { Seq::<B>::empty() } else {
            let p = filter_map_spec(src.drop_last(), g);
            match g(src.last()) { Some(b) => p.push(b), None => p }
        }
    }

    #[verifier::external_body]
    #[verifier::reject_recursive_types(B)]
    pub struct FilterMapped<B> { v: Vec<B> }
    pub trait FromSeqShim<B>: Sized { spec fn as_seq(&self) -> Seq<B>; }
    impl<B> FromSeqShim<B> for Vec<B> { open spec fn as_seq(&self) -> Seq<B> { self@ } }
    impl<B> FilterMapped<B> {
        pub uninterp spec fn seq(&self) -> Seq<B>;
        #[verifier::external_body]
        pub fn collect<C: FromSeqShim<B>>(self) -> (r: C) ensures r.as_seq() == self.seq() { unimplemented!() }
    }
}
