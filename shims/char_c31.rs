// ---- shims/char_c31.rs : `char` classification / conversion methods + `Option::from` (gaps in vstd) ----------
// vstd (0.2026.09.13) models `char` as its scalar value (`c as u32`, ordered comparisons, range patterns) and
// specifies `String::push`, `String::from(char)`, `str::chars` + `collect::<Vec<char>>`, `RangeInclusive::contains`,
// `Option::ok_or`, `Result::map`; it has NO specification for the `char` methods below. ASSUMED here (statements
// about core::char / core::option only, taken from the std documentation; none about /repo):
//   (K1) `char::is_ascii_digit`      : total; true iff '0'..='9'                     ("U+0030 '0' ..= U+0039 '9'")
//   (K2) `char::is_ascii_hexdigit`   : total; true iff '0'..='9' | 'A'..='F' | 'a'..='f'
//   (K3) `char::is_ascii_alphanumeric`: total; true iff 'A'..='Z' | 'a'..='z' | '0'..='9'
//   (K4) `char::to_digit(radix)`     : PANICS iff radix is not in 2..=36 (kept as a precondition); for radix 16 it is
//        `Some(v)` exactly on the hex digits, with v the digit's value (< 16), `None` otherwise
//   (K5) `char::from_u32(i)`         : total; `Some(c)` with `c as u32 == i` iff i is a Unicode scalar value
//        (i <= 0x10FFFF and i not in 0xD800..=0xDFFF), `None` otherwise
//   (K7) `str::parse::<F>()`         : total (returns a `Result`, no precondition); nothing is said about its value;
//        `core::str::FromStr` is declared as an external trait (no contract on the trait)
//   (K6) `impl<T> From<T> for Option<T>`: `Option::from(t) == Some(t)`  ("Moves val into a new Some")
pub mod char_c31 {
    use vstd::prelude::*;
    pub open spec fn is_dec(c: char) -> bool { '0' <= c && c <= '9' }
    pub open spec fn is_hex(c: char) -> bool { is_dec(c) || ('a' <= c && c <= 'f') || ('A' <= c && c <= 'F') }
    pub open spec fn is_alpha(c: char) -> bool { ('a' <= c && c <= 'z') || ('A' <= c && c <= 'Z') }
    pub open spec fn hex_val(c: char) -> int {
        if is_dec(c) { c as u32 - '0' as u32 } else if 'a' <= c && c <= 'f' { c as u32 - 'a' as u32 + 10 } else { c as u32 - 'A' as u32 + 10 }
    }
    pub open spec fn is_scalar(u: u32) -> bool { u <= 0x10FFFF && !(0xD800 <= u && u <= 0xDFFF) }

    pub assume_specification [char::is_ascii_digit] (c: &char) -> (r: bool)
        ensures r == is_dec(*c);
    pub assume_specification [char::is_ascii_hexdigit] (c: &char) -> (r: bool)
        ensures r == is_hex(*c);
    pub assume_specification [char::is_ascii_alphanumeric] (c: &char) -> (r: bool)
        ensures r == (is_dec(*c) || is_alpha(*c));
    pub assume_specification [char::to_digit] (c: char, radix: u32) -> (r: Option<u32>)
        requires 2 <= radix <= 36
        ensures
            radix == 16 ==> (r is Some <==> is_hex(c)),
            radix == 16 && is_hex(c) ==> r == Some(hex_val(c) as u32);
    pub assume_specification [char::from_u32] (i: u32) -> (r: Option<char>)
        ensures r is Some <==> is_scalar(i), r matches Some(c) ==> c as u32 == i;
    #[verifier::external_trait_specification]
    pub trait ExFromStr: Sized {
        type ExternalTraitSpecificationFor: core::str::FromStr;
        type Err;
        fn from_str(s: &str) -> Result<Self, Self::Err>;
    }
    pub assume_specification<F: core::str::FromStr> [str::parse] (s: &str) -> (r: Result<F, <F as core::str::FromStr>::Err>);
    pub assume_specification<T> [<Option<T> as From<T>>::from] (t: T) -> (r: Option<T>)
        ensures r == Some(t);
}
