// ---- shims/sysapi_c39.rs : ghost-heap model of `SystemApi<E>` for the account blueprint (unit c39) ----
// TRUSTED BASE.  Everything in this module is an ASSUMED contract of code that is NOT under proof:
//   * radix-engine-interface `SystemApi`: field API (actor_open_field / field_read_typed / field_close)
//     and actor key-value-entry API (actor_open_key_value_entry / key_value_entry_get_typed /
//     key_value_entry_close), modelled over the ghost VALUE `Heap`
//         fields : FieldIndex                  -> FieldVal    (value of each field of the account)
//         kv     : (CollectionIndex, key bytes) -> KvVal       (PRESENT entries of the account's three
//                                                               key-value collections; an absent key reads `None`)
//     plus the open locks  fhandles : FieldHandle -> FieldIndex,  khandles : KeyValueEntryHandle -> (collection, key)
//   * the macro-generated `AccountField` / `AccountCollection` enums (index == declaration order in
//     `declare_native_blueprint_state!`) and the versioned payload wrappers (content round-trips),
//   * `scrypto_encode` as a total function of the value (ghost `sbor()`),
//   * radix-native-sdk `NativeBucket::{resource_address, amount}`, `NativeNonFungibleBucket::non_fungible_local_ids`
//     (reads; the resource of a bucket is a function of its node id = its outer object),
//   * radix-native-sdk `Runtime::emit_event` (appends to the ghost event log, touches nothing else) and
//     `Runtime::assert_access_rule` (the "proof present in the auth zone" ORACLE: `rule_holds(auth, rule)`),
//   * `AccountBlueprint::deposit` (vault lookup/creation + `Vault::put` + DepositEvent): NOT under contract
//     in this unit (DESIGN.md C39 "not covered: vault creation/deposit internals"); assumed effect below.
// The including unit must provide `pub mod env` with the real data types (extracted from /repo).
//
// Design notes
//   * `key_value_entry_get_typed::<S>` / `field_read_typed::<S>` in /repo are `scrypto_decode(..).unwrap()`:
//     reading with the wrong payload type PANICS.  The model therefore REQUIRES `S::accepts(stored value)`.
//   * Any call may fail for reasons of its own (costing, limits, locks).  ASSUMED error classes: none of the
//     calls modelled here fails with this blueprint's own `ApplicationError::AccountError(_)`, and only
//     `Runtime::assert_access_rule` fails with `SystemError::AssertAccessRuleFailed`
//     (radix-engine/src/blueprints/resource/auth_zone/blueprint.rs, the only place that builds it).
//   * A read (open/get/close/resource_address/amount/ids/assert_access_rule) never changes `heap()`,
//     `deposited()`, `events()` or `auth()`, whatever its outcome.
pub mod shim_sysapi_c39 {
    use vstd::prelude::*;
    use super::env::*;

    pub type FieldHandle = u32;
    pub type FieldIndex = u8;
    pub type CollectionIndex = u8;
    pub type KeyValueEntryHandle = u32;
    pub type ActorStateHandle = u32;
    /// radix-engine-interface/src/api/mod.rs
    pub const ACTOR_STATE_SELF: ActorStateHandle = 0u32;

    /// radix-engine-interface/src/api/field_api.rs (bitflags): MUTABLE = 0b0000_0001, read_only() = empty()
    pub struct LockFlags { pub bits: u32 }
    impl LockFlags {
        pub const MUTABLE: LockFlags = LockFlags { bits: 1 };
        pub fn read_only() -> (r: LockFlags) ensures r.bits == 0 { LockFlags { bits: 0 } }
    }

    // ---- addresses / owned nodes (radix-common): plain wrappers of 30 bytes ---------------------------
    #[derive(Clone, Copy)]
    pub struct NodeId(pub [u8; 30]);
    #[derive(Clone, Copy)]
    pub struct Own(pub NodeId);
    #[derive(Clone, Copy)]
    pub struct ResourceAddress(pub NodeId);
    /// derived PartialEq on the wrapped bytes == structural equality
    impl PartialEq for ResourceAddress {
        #[verifier::external_body]
        fn eq(&self, o: &ResourceAddress) -> (r: bool) ensures r == (*self == *o) { unimplemented!() }
    }
    impl vstd::std_specs::cmp::PartialEqSpecImpl for ResourceAddress {
        open spec fn obeys_eq_spec() -> bool { true }
        open spec fn eq_spec(&self, o: &ResourceAddress) -> bool { *self == *o }
    }
    impl ResourceAddress {
        /// `ResourceAddress::new_or_panic`: the entity-type check of the first byte is not modelled
        pub const fn new_or_panic(raw: [u8; 30]) -> (r: Self) ensures r == ResourceAddress(NodeId(raw)) { ResourceAddress(NodeId(raw)) }
        /// entity type byte == GlobalFungibleResourceManager; result unconstrained (both outcomes covered)
        #[verifier::external_body]
        pub fn is_fungible(&self) -> bool { unimplemented!() }
    }
    /// radix-common NonFungibleLocalId / Decimal / IndexSet: opaque (only carried inside badges and events)
    #[verifier::external_body]
    pub struct NonFungibleLocalId { x: Vec<u8> }
    #[verifier::external_body]
    pub struct Decimal { _p: () }
    #[verifier::external_body]
    #[verifier::reject_recursive_types(T)]
    pub struct IndexSet<T> { x: Vec<T> }
    /// radix-common `NonFungibleGlobalId(ResourceAddress, NonFungibleLocalId)`
    pub struct NonFungibleGlobalId(pub ResourceAddress, pub NonFungibleLocalId);
    /// radix-engine-interface `Bucket(pub Own)`, `Vault(pub Own)`
    pub struct Bucket(pub Own);
    pub struct Vault(pub Own);

    /// derived Clone of `ResourceOrNonFungible` (type extracted into `env`): a structural copy
    impl Clone for ResourceOrNonFungible {
        #[verifier::external_body]
        fn clone(&self) -> (r: Self) ensures r == *self { unimplemented!() }
    }

    // ---- SBOR keys -----------------------------------------------------------------------------------
    #[derive(Debug)]
    pub struct EncodeError;
    /// radix_common::data::scrypto::ScryptoEncode; ghost: the bytes the value encodes to
    pub trait ScryptoEncode { spec fn sbor(&self) -> Seq<u8>; }
    /// sbor: `impl<T: Encode> Encode for &T` encodes the referent
    impl<T: ScryptoEncode> ScryptoEncode for &T {
        open spec fn sbor(&self) -> Seq<u8> { (**self).sbor() }
    }
    impl ScryptoEncode for ResourceAddress { uninterp spec fn sbor(&self) -> Seq<u8>; }
    impl ScryptoEncode for ResourceOrNonFungible { uninterp spec fn sbor(&self) -> Seq<u8>; }
    /// ASSUMED: scrypto_encode is a function of the value, and never fails on the two (shallow) key types
    #[verifier::external_body]
    pub fn scrypto_encode<T: ScryptoEncode + ?Sized>(value: &T) -> (r: Result<Vec<u8>, EncodeError>)
        ensures r matches Ok(b) && b@ == value.sbor()
    { unimplemented!() }

    // ---- blueprint state layout (declare_native_blueprint_state! in account/blueprint.rs) --------------
    /// fields: { deposit_rule }  ->  `#[repr(u8)] enum AccountField { DepositRule }`, field_index = `*self as u8`
    pub enum AccountField { DepositRule }
    impl AccountField {
        pub fn field_index(&self) -> (r: FieldIndex) ensures r == I_RULE() { 0u8 }
    }
    /// collections: { resource_vaults, resource_preferences, authorized_depositors } (all KeyValue) ->
    /// `#[repr(u8)] enum AccountCollection { <entry_ident>KeyValue, .. }`, collection_index = `*self as u8`
    pub enum AccountCollection { ResourceVaultKeyValue, ResourcePreferenceKeyValue, AuthorizedDepositorKeyValue }
    pub open spec fn cidx(c: AccountCollection) -> CollectionIndex {
        match c {
            AccountCollection::ResourceVaultKeyValue => 0u8,
            AccountCollection::ResourcePreferenceKeyValue => 1u8,
            AccountCollection::AuthorizedDepositorKeyValue => 2u8,
        }
    }
    impl AccountCollection {
        pub fn collection_index(&self) -> (r: CollectionIndex) ensures r == cidx(*self) {
            match self {
                AccountCollection::ResourceVaultKeyValue => 0u8,
                AccountCollection::ResourcePreferenceKeyValue => 1u8,
                AccountCollection::AuthorizedDepositorKeyValue => 2u8,
            }
        }
    }
    pub open spec fn I_RULE() -> FieldIndex { 0u8 }
    pub open spec fn C_VAULTS() -> CollectionIndex { cidx(AccountCollection::ResourceVaultKeyValue) }
    pub open spec fn C_PREFS() -> CollectionIndex { cidx(AccountCollection::ResourcePreferenceKeyValue) }
    pub open spec fn C_DEPOSITORS() -> CollectionIndex { cidx(AccountCollection::AuthorizedDepositorKeyValue) }

    // ---- the ghost heap ----------------------------------------------------------------------------------
    pub enum FieldVal { DepositRule(AccountSubstate), Other }
    /// value of a PRESENT key-value entry
    pub enum KvVal { Vault(Own), Preference(ResourcePreference), Depositor, Other }
    pub type KvKey = (CollectionIndex, Seq<u8>);
    pub ghost struct Heap {
        pub fields: Map<FieldIndex, FieldVal>,
        pub kv: Map<KvKey, KvVal>,
    }
    /// what each collection holds (established by `AccountBlueprint::create_*` and kept by every writer)
    pub open spec fn typed(h: Heap) -> bool {
        &&& h.fields.contains_key(I_RULE()) && h.fields[I_RULE()] is DepositRule
        &&& forall|k: Seq<u8>| #[trigger] h.kv.contains_key((C_VAULTS(), k)) ==> h.kv[(C_VAULTS(), k)] is Vault
        &&& forall|k: Seq<u8>| #[trigger] h.kv.contains_key((C_PREFS(), k)) ==> h.kv[(C_PREFS(), k)] is Preference
        &&& forall|k: Seq<u8>| #[trigger] h.kv.contains_key((C_DEPOSITORS(), k)) ==> h.kv[(C_DEPOSITORS(), k)] is Depositor
    }

    /// spec view of typed payloads (stands for ScryptoEncode/ScryptoDecode of the payload type)
    pub trait FieldPayload: Sized {
        spec fn ghost(&self) -> FieldVal;
        spec fn accepts(g: FieldVal) -> bool;
    }
    pub trait KvPayload: Sized {
        spec fn ghost(&self) -> KvVal;
        spec fn accepts(g: KvVal) -> bool;
    }

    /// ghost VALUE of the caller's auth zone stack (what proofs / implicit badges are visible)
    #[verifier::external_body]
    pub ghost struct AuthEnv { _x: int }
    /// ORACLE "the rule is satisfied by the proofs present in the auth zone": the meaning of
    /// `Authorization::check_authorization_against_access_rule(.., rule) == Authorized` for the caller
    pub uninterp spec fn rule_holds(auth: AuthEnv, rule: AccessRule) -> bool;

    /// ghost event log entries this unit talks about
    pub enum GhostEvent { Rejected(ResourceAddress), Other }
    pub trait EventGhost { spec fn ghost_event(&self) -> GhostEvent; }

    /// the resource a bucket holds: the outer object of the bucket node, fixed at creation
    pub uninterp spec fn bucket_resource(b: Bucket) -> ResourceAddress;

    /// radix-engine-interface `SystemApiError` (bound of `SystemApi<E>`), with the error classes used here
    pub trait SystemApiError: Sized {
        spec fn is_account_error(&self) -> bool;
        spec fn is_assert_access_rule_failed(&self) -> bool;
    }
    impl SystemApiError for RuntimeError {
        open spec fn is_account_error(&self) -> bool { *self matches RuntimeError::ApplicationError(ApplicationError::AccountError(_)) }
        open spec fn is_assert_access_rule_failed(&self) -> bool { *self matches RuntimeError::SystemError(SystemError::AssertAccessRuleFailed) }
    }
    /// a failure of the environment: neither of the two refusals the account blueprint is responsible for
    pub open spec fn env_error<E: SystemApiError>(e: E) -> bool { !e.is_account_error() && !e.is_assert_access_rule_failed() }

    /// everything but the open locks, as one ghost VALUE
    pub ghost struct World {
        pub heap: Heap,
        pub auth: AuthEnv,
        /// buckets put into vaults of this account, in order
        pub deposited: Seq<Bucket>,
        pub events: Seq<GhostEvent>,
    }

    pub trait SystemApi<E: SystemApiError>: Sized {
        spec fn world(&self) -> World;
        spec fn fhandles(&self) -> Map<FieldHandle, FieldIndex>;
        spec fn khandles(&self) -> Map<KeyValueEntryHandle, KvKey>;

        fn actor_open_field(&mut self, object_handle: ActorStateHandle, field: FieldIndex, flags: LockFlags) -> (r: Result<FieldHandle, E>)
            ensures
                final(self).world() == old(self).world(),
                final(self).khandles() == old(self).khandles(),
                r matches Ok(h) ==> !old(self).fhandles().contains_key(h)
                    && final(self).fhandles() == old(self).fhandles().insert(h, field),
                r is Err ==> final(self).fhandles() == old(self).fhandles(),
                r matches Err(e) ==> env_error(e);

        fn field_read_typed<S: FieldPayload>(&mut self, handle: FieldHandle) -> (r: Result<S, E>)
            requires
                old(self).fhandles().contains_key(handle),
                old(self).world().heap.fields.contains_key(old(self).fhandles()[handle]),
                S::accepts(old(self).world().heap.fields[old(self).fhandles()[handle]]),
            ensures
                final(self).world() == old(self).world(),
                final(self).fhandles() == old(self).fhandles(),
                final(self).khandles() == old(self).khandles(),
                r matches Ok(s) ==> s.ghost() == old(self).world().heap.fields[old(self).fhandles()[handle]],
                r matches Err(e) ==> env_error(e);

        fn field_close(&mut self, handle: FieldHandle) -> (r: Result<(), E>)
            requires old(self).fhandles().contains_key(handle)
            ensures
                final(self).world() == old(self).world(),
                final(self).khandles() == old(self).khandles(),
                r is Ok ==> final(self).fhandles() == old(self).fhandles().remove(handle),
                r matches Err(e) ==> env_error(e);

        fn actor_open_key_value_entry(&mut self, object_handle: ActorStateHandle, collection_index: CollectionIndex, key: &Vec<u8>, flags: LockFlags) -> (r: Result<KeyValueEntryHandle, E>)
            ensures
                final(self).world() == old(self).world(),
                final(self).fhandles() == old(self).fhandles(),
                r matches Ok(h) ==> !old(self).khandles().contains_key(h)
                    && final(self).khandles() == old(self).khandles().insert(h, (collection_index, key@)),
                r is Err ==> final(self).khandles() == old(self).khandles(),
                r matches Err(e) ==> env_error(e);

        /// `Ok(None)` exactly for an absent entry
        fn key_value_entry_get_typed<S: KvPayload>(&mut self, handle: KeyValueEntryHandle) -> (r: Result<Option<S>, E>)
            requires
                old(self).khandles().contains_key(handle),
                old(self).world().heap.kv.contains_key(old(self).khandles()[handle])
                    ==> S::accepts(old(self).world().heap.kv[old(self).khandles()[handle]]),
            ensures
                final(self).world() == old(self).world(),
                final(self).fhandles() == old(self).fhandles(),
                final(self).khandles() == old(self).khandles(),
                r matches Ok(o) ==> (o is Some <==> old(self).world().heap.kv.contains_key(old(self).khandles()[handle])),
                r matches Ok(Some(s)) ==> s.ghost() == old(self).world().heap.kv[old(self).khandles()[handle]],
                r matches Err(e) ==> env_error(e);

        fn key_value_entry_close(&mut self, handle: KeyValueEntryHandle) -> (r: Result<(), E>)
            requires old(self).khandles().contains_key(handle)
            ensures
                final(self).world() == old(self).world(),
                final(self).fhandles() == old(self).fhandles(),
                r is Ok ==> final(self).khandles() == old(self).khandles().remove(handle),
                r matches Err(e) ==> env_error(e);
    }

    // ---- versioned payload wrappers (macro generated in /repo): content round-trips -------------------
    /// `AccountDepositRuleFieldPayload` (content AccountDepositRuleV1 = AccountSubstate)
    pub struct AccountDepositRuleFieldPayload { pub content: AccountSubstate }
    impl FieldPayload for AccountDepositRuleFieldPayload {
        open spec fn ghost(&self) -> FieldVal { FieldVal::DepositRule(self.content) }
        open spec fn accepts(g: FieldVal) -> bool { g is DepositRule }
    }
    impl AccountDepositRuleFieldPayload {
        pub fn fully_update_and_into_latest_version(self) -> (r: AccountSubstate) ensures r == self.content { self.content }
    }
    /// `AccountResourceVaultEntryPayload` (content AccountResourceVaultV1 = Vault)
    pub struct AccountResourceVaultEntryPayload { pub content: Vault }
    impl KvPayload for AccountResourceVaultEntryPayload {
        open spec fn ghost(&self) -> KvVal { KvVal::Vault(self.content.0) }
        open spec fn accepts(g: KvVal) -> bool { g is Vault }
    }
    /// `AccountResourcePreferenceEntryPayload` (content AccountResourcePreferenceV1 = ResourcePreference)
    pub struct AccountResourcePreferenceEntryPayload { pub content: ResourcePreference }
    impl KvPayload for AccountResourcePreferenceEntryPayload {
        open spec fn ghost(&self) -> KvVal { KvVal::Preference(self.content) }
        open spec fn accepts(g: KvVal) -> bool { g is Preference }
    }
    impl AccountResourcePreferenceEntryPayload {
        pub fn fully_update_and_into_latest_version(self) -> (r: ResourcePreference) ensures r == self.content { self.content }
    }
    /// `VersionedAccountAuthorizedDepositor` (content AccountAuthorizedDepositorV1 = ())
    pub struct VersionedAccountAuthorizedDepositor { pub content: () }
    impl KvPayload for VersionedAccountAuthorizedDepositor {
        open spec fn ghost(&self) -> KvVal { KvVal::Depositor }
        open spec fn accepts(g: KvVal) -> bool { g is Depositor }
    }

    // ---- radix-native-sdk bucket reads ------------------------------------------------------------------
    impl Bucket {
        /// NativeBucket::resource_address: `api.get_outer_object(bucket node)`
        #[verifier::external_body]
        pub fn resource_address<Y: SystemApi<E>, E: SystemApiError>(&self, api: &mut Y) -> (r: Result<ResourceAddress, E>)
            ensures
                final(api).world() == old(api).world(),
                final(api).fhandles() == old(api).fhandles(), final(api).khandles() == old(api).khandles(),
                r matches Ok(a) ==> a == bucket_resource(*self),
                r matches Err(e) ==> env_error(e),
        { unimplemented!() }
        /// NativeBucket::amount: a read
        #[verifier::external_body]
        pub fn amount<Y: SystemApi<E>, E: SystemApiError>(&self, api: &mut Y) -> (r: Result<Decimal, E>)
            ensures
                final(api).world() == old(api).world(),
                final(api).fhandles() == old(api).fhandles(), final(api).khandles() == old(api).khandles(),
                r matches Err(e) ==> env_error(e),
        { unimplemented!() }
        /// NativeNonFungibleBucket::non_fungible_local_ids: a read
        #[verifier::external_body]
        pub fn non_fungible_local_ids<Y: SystemApi<E>, E: SystemApiError>(&self, api: &mut Y) -> (r: Result<IndexSet<NonFungibleLocalId>, E>)
            ensures
                final(api).world() == old(api).world(),
                final(api).fhandles() == old(api).fhandles(), final(api).khandles() == old(api).khandles(),
                r matches Err(e) ==> env_error(e),
        { unimplemented!() }
    }

    // ---- radix-native-sdk Runtime ---------------------------------------------------------------------
    pub struct Runtime;
    impl Runtime {
        /// Runtime::emit_event -> api.actor_emit_event: appends to the event log, touches nothing else
        #[verifier::external_body]
        pub fn emit_event<Y: SystemApi<E>, E: SystemApiError, T: EventGhost>(api: &mut Y, event: T) -> (r: Result<(), E>)
            ensures
                final(api).world().heap == old(api).world().heap, final(api).world().auth == old(api).world().auth,
                final(api).world().deposited == old(api).world().deposited,
                final(api).fhandles() == old(api).fhandles(), final(api).khandles() == old(api).khandles(),
                r is Ok ==> final(api).world().events == old(api).world().events.push(event.ghost_event()),
                r is Err ==> final(api).world().events == old(api).world().events,
                r matches Err(e) ==> env_error(e),
        { unimplemented!() }
        /// Runtime::assert_access_rule -> AuthZoneBlueprint::assert_access_rule: `Ok` only if the rule is
        /// satisfied by the caller's auth zone, `Err(SystemError::AssertAccessRuleFailed)` only if it is not.
        /// (ASSUMED: the auth module is enabled -- with it disabled the real call is a no-op `Ok`.)
        #[verifier::external_body]
        pub fn assert_access_rule<Y: SystemApi<E>, E: SystemApiError>(rule: AccessRule, api: &mut Y) -> (r: Result<(), E>)
            ensures
                final(api).world() == old(api).world(),
                final(api).fhandles() == old(api).fhandles(), final(api).khandles() == old(api).khandles(),
                r is Ok ==> rule_holds(old(api).world().auth, rule),
                r matches Err(e) ==> !e.is_account_error() && (e.is_assert_access_rule_failed() ==> !rule_holds(old(api).world().auth, rule)),
        { unimplemented!() }
    }

    // ---- AccountBlueprint::deposit : NOT under contract ----------------------------------------------
    /// frame of deposits of the buckets `bs`: the field and every existing key-value entry are untouched
    /// (nothing is removed or replaced); the only entries that may APPEAR are vault entries of the resources of `bs`
    pub open spec fn is_vault_key_of(k: KvKey, bs: Seq<Bucket>) -> bool {
        exists|i: int| 0 <= i < bs.len() && k == (C_VAULTS(), bucket_resource(#[trigger] bs[i]).sbor())
    }
    pub open spec fn only_vaults_of(a: Heap, b: Heap, bs: Seq<Bucket>) -> bool {
        &&& b.fields == a.fields
        &&& forall|k: KvKey| a.kv.contains_key(k) ==> #[trigger] b.kv.contains_key(k) && b.kv[k] == a.kv[k]
        &&& forall|k: KvKey| #[trigger] b.kv.contains_key(k) && !a.kv.contains_key(k) ==> is_vault_key_of(k, bs)
    }
    impl AccountBlueprint {
        /// ASSUMED (account/blueprint.rs `deposit` = get_vault(create = true) + Vault::put + DepositEvent):
        /// on `Ok` the bucket is in the account's vault of its resource (the vault entry exists afterwards,
        /// created if absent, never replaced) and is logged in `deposited()`; whatever the outcome nothing in the
        /// heap changes except that this one vault entry may appear, and `deposit` never raises an `AccountError`
        /// (create = true excludes VaultDoesNotExist) nor AssertAccessRuleFailed.
        #[verifier::external_body]
        pub fn deposit<Y: SystemApi<RuntimeError>>(bucket: Bucket, api: &mut Y) -> (r: Result<(), RuntimeError>)
            requires typed(old(api).world().heap)
            ensures
                typed(final(api).world().heap),
                only_vaults_of(old(api).world().heap, final(api).world().heap, seq![bucket]),
                final(api).world().auth == old(api).world().auth,
                r is Ok ==> final(api).world().heap.kv.contains_key((C_VAULTS(), bucket_resource(bucket).sbor())),
                r is Ok ==> final(api).world().deposited == old(api).world().deposited.push(bucket),
                r is Ok ==> final(api).world().events == old(api).world().events.push(GhostEvent::Other),
                r is Ok ==> final(api).fhandles() == old(api).fhandles() && final(api).khandles() == old(api).khandles(),
                r matches Err(e) ==> env_error(e),
        { unimplemented!() }
    }
}
