// ---- shims/nested_maps_c14.rs : ASSUMED contracts for std BTreeMap and indexmap IndexMap as they
// are used by the database overlay (radix-substate-store-impls/src/substate_database_overlay.rs) and
// the DatabaseUpdates helpers of radix-substate-store-interface/src/interface.rs: nested maps,
// `get` / `get_mut` / `insert` / `remove` / `extend` / `entry(k).or_default()`, by-value iteration
// (`into_iter()`, `for (k, v) in map`) in `for` loops, and the adapter chains
// `m.into_iter().collect()` and `m.into_iter().map(f).collect()` that convert one map type into the
// other.
//
// Every fn here is `external_body`: the real implementations (std::collections::BTreeMap,
// indexmap::IndexMap) are trusted to meet their documented behaviour.  Abstract state: a finite
// `Map<K, V>` view.  Key equality of the real maps (`Ord` for BTreeMap, `Hash + Eq` for IndexMap)
// is identified with spec equality on K (true for the key types used: u8, Vec<u8>, newtypes and
// structs of those, whose Ord/Eq/Hash are structural).
//
// By-value iteration yields a sequence that ENUMERATES the map (`enumerates`): every binding
// exactly once; the order (ascending for BTreeMap, insertion order for IndexMap) is not exposed.
// Iterator adapters are outside Verus: `map` and `collect` are modelled as INHERENT methods of
// the shim iterator types (an inherent method shadows the `Iterator` adapter of the same name,
// so the real text `x.into_iter().map(f).collect()` resolves to them).  `collect()` into a map
// inserts the yielded pairs in order (`Extend`/`FromIterator` of both map types: later pairs
// overwrite earlier ones with the same key) -- spec fn `seq_to_map`.
//
// Determinism axioms (group_nmaps), needed because vstd specifies `x.into()` only through a spec
// FUNCTION `from_spec(x)`: a BTreeMap value is determined by its content (`of` / ax_btree_ext),
// its iteration sequence `sorted()` is a function of the map and enumerates it, and a collected
// IndexMap is a function `from_seq` of the collected sequence with content `seq_to_map`.
// The lemmas at the end of the file are PROVED (no trust).
pub mod nmaps {
    use vstd::prelude::*;

    pub open spec fn lookup<K, V>(m: Map<K, V>, k: K) -> Option<V> {
        if m.contains_key(k) { Some(m[k]) } else { None }
    }

    pub open spec fn has_key<K, V>(s: Seq<(K, V)>, k: K) -> bool {
        exists|i: int| 0 <= i < s.len() && (#[trigger] s[i]).0 == k
    }

    /// `s` lists every binding of `m` exactly once
    pub open spec fn enumerates<K, V>(s: Seq<(K, V)>, m: Map<K, V>) -> bool {
        &&& forall|i: int, j: int| 0 <= i < j < s.len() ==> s[i].0 != s[j].0
        &&& forall|i: int| 0 <= i < s.len() ==> m.contains_key((#[trigger] s[i]).0) && m[s[i].0] == s[i].1
        &&& forall|k: K| m.contains_key(k) ==> has_key(s, k)
    }

    /// the map built by inserting the pairs of `s` front to back
    pub open spec fn seq_to_map<K, V>(s: Seq<(K, V)>) -> Map<K, V>
        decreases s.len()
    {
        if s.len() == 0 { Map::empty() } else { seq_to_map(s.drop_last()).insert(s.last().0, s.last().1) }
    }

    // ================================================================================ BTreeMap ==
    #[verifier::external_body]
    #[verifier::reject_recursive_types(K)]
    #[verifier::reject_recursive_types(V)]
    pub struct BTreeMap<K, V> { k: core::marker::PhantomData<(K, V)> }

    impl<K, V> BTreeMap<K, V> {
        pub uninterp spec fn view(&self) -> Map<K, V>;
        /// THE BTreeMap with the given content (see ax_btree_of_view / ax_btree_ext)
        pub uninterp spec fn of(m: Map<K, V>) -> BTreeMap<K, V>;
        /// the bindings in iteration order (std: ascending by key; only `enumerates` is exposed)
        pub uninterp spec fn sorted(&self) -> Seq<(K, V)>;

        #[verifier::external_body]
        pub fn get(&self, key: &K) -> (r: Option<&V>)
            ensures match r { Some(v) => self@.contains_key(*key) && *v == self@[*key], None => !self@.contains_key(*key) }
        { unimplemented!() }

        /// the returned reference is the slot of `key`: the final map is the old map with `key`
        /// bound to whatever is finally stored behind the reference; nothing else changes
        #[verifier::external_body]
        pub fn get_mut(&mut self, key: &K) -> (r: Option<&mut V>)
            ensures match r {
                Some(v) => old(self)@.contains_key(*key) && *v == old(self)@[*key] && final(self)@ == old(self)@.insert(*key, *final(v)),
                None => !old(self)@.contains_key(*key) && final(self)@ == old(self)@,
            }
        { unimplemented!() }

        #[verifier::external_body]
        pub fn insert(&mut self, key: K, value: V) -> (r: Option<V>)
            ensures final(self)@ == old(self)@.insert(key, value),
                    r == lookup(old(self)@, key),
        { unimplemented!() }

        #[verifier::external_body]
        pub fn remove(&mut self, key: &K) -> (r: Option<V>)
            ensures final(self)@ == old(self)@.remove(*key),
                    r == lookup(old(self)@, *key),
        { unimplemented!() }

        /// `Extend<(K, V)>::extend` with an IndexMap argument: inserts every binding of `other`
        /// (its keys are distinct, so the order of insertion does not matter): bindings of `other`
        /// win, all other bindings of `self` stay
        #[verifier::external_body]
        pub fn extend(&mut self, other: IndexMap<K, V>)
            ensures final(self)@ == old(self)@.union_prefer_right(other@),
        { unimplemented!() }

        /// by-value iteration (std: ascending key order, not exposed)
        #[verifier::external_body]
        pub fn into_iter(self) -> (r: IntoIter<K, V>)
            ensures r.rest() == self.sorted(), enumerates(r.rest(), self@)
        { unimplemented!() }
    }

    /// ASSUMED: every finite map is the content of a BTreeMap, and a BTreeMap value is determined by
    /// its content (std: `Eq`/`Ord`/iteration of a BTreeMap depend on nothing but its bindings).
    /// Needed because vstd specifies `x.into()` only through a spec FUNCTION `from_spec(x)`.
    pub broadcast axiom fn ax_btree_of_view<K, V>(m: Map<K, V>)
        ensures (#[trigger] BTreeMap::<K, V>::of(m))@ == m;
    pub broadcast axiom fn ax_btree_ext<K, V>(b: BTreeMap<K, V>)
        ensures BTreeMap::<K, V>::of(#[trigger] b@) == b;
    /// ASSUMED: iterating a BTreeMap yields every binding exactly once
    pub broadcast axiom fn ax_btree_sorted<K, V>(b: BTreeMap<K, V>)
        ensures enumerates(#[trigger] b.sorted(), b@);

    impl<K, V> Default for BTreeMap<K, V> {
        #[verifier::external_body]
        fn default() -> (r: Self) ensures r@ == Map::<K, V>::empty() { unimplemented!() }
    }

    // ================================================================================ IndexMap ==
    #[verifier::external_body]
    #[verifier::reject_recursive_types(K)]
    #[verifier::reject_recursive_types(V)]
    pub struct IndexMap<K, V> { k: core::marker::PhantomData<(K, V)> }

    /// prophecy-style entry (as NimEntry in shims/maps.rs): `entry(k).or_default()`
    #[verifier::external_body]
    #[verifier::reject_recursive_types(K)]
    #[verifier::reject_recursive_types(V)]
    pub struct ImEntry<'a, K, V> { m: &'a mut IndexMap<K, V> }

    impl<'a, K, V> ImEntry<'a, K, V> {
        pub uninterp spec fn key(&self) -> K;
        pub uninterp spec fn map0(&self) -> Map<K, V>;
        /// prophesied map at the end of the borrow started by `entry`
        pub uninterp spec fn fin(&self) -> Map<K, V>;
        /// the slot of `key` (created with `V::default()` if vacant); exactly `key` is (re)bound
        #[verifier::external_body]
        pub fn or_default(self) -> (r: &'a mut V) where V: Default
            ensures
                self.map0().contains_key(self.key()) ==> *r == self.map0()[self.key()],
                !self.map0().contains_key(self.key()) ==> call_ensures(V::default, (), *r),
                self.fin() == self.map0().insert(self.key(), *final(r)),
        { unimplemented!() }
    }

    impl<K, V> IndexMap<K, V> {
        pub uninterp spec fn view(&self) -> Map<K, V>;
        /// THE IndexMap obtained by inserting the pairs front to back into an empty map
        /// (`FromIterator`): an IndexMap is a deterministic function of its insertion history
        pub uninterp spec fn from_seq(s: Seq<(K, V)>) -> IndexMap<K, V>;

        #[verifier::external_body]
        pub fn get(&self, key: &K) -> (r: Option<&V>)
            ensures match r { Some(v) => self@.contains_key(*key) && *v == self@[*key], None => !self@.contains_key(*key) }
        { unimplemented!() }

        #[verifier::external_body]
        pub fn insert(&mut self, key: K, value: V) -> (r: Option<V>)
            ensures final(self)@ == old(self)@.insert(key, value),
                    r == lookup(old(self)@, key),
        { unimplemented!() }

        #[verifier::external_body]
        pub fn entry(&mut self, key: K) -> (e: ImEntry<'_, K, V>)
            ensures e.key() == key, e.map0() == old(self)@, final(self)@ == e.fin(),
        { unimplemented!() }

        /// by-value iteration (indexmap: insertion order, not exposed)
        #[verifier::external_body]
        pub fn into_iter(self) -> (r: IntoIter<K, V>)
            ensures enumerates(r.rest(), self@)
        { unimplemented!() }
    }

    /// `for (k, v) in map` (IntoIterator by value): same as `map.into_iter()`
    impl<K, V> core::iter::IntoIterator for IndexMap<K, V> {
        type Item = (K, V);
        type IntoIter = IntoIter<K, V>;
        #[verifier::external_body]
        fn into_iter(self) -> (r: IntoIter<K, V>) ensures enumerates(r.rest(), self@) { unimplemented!() }
    }

    /// ASSUMED: content of a collected IndexMap (later pairs overwrite earlier ones with the same key)
    pub broadcast axiom fn ax_index_from_seq<K, V>(s: Seq<(K, V)>)
        ensures (#[trigger] IndexMap::<K, V>::from_seq(s))@ == seq_to_map(s);

    // ============================================================== by-value entry iterator ==
    /// `into_iter()` of either map type: yields the owned pairs `rest()`
    #[verifier::external_body]
    #[verifier::reject_recursive_types(K)]
    #[verifier::reject_recursive_types(V)]
    pub struct IntoIter<K, V> { k: core::marker::PhantomData<(K, V)> }

    impl<K, V> IntoIter<K, V> {
        pub uninterp spec fn rest(&self) -> Seq<(K, V)>;

        /// `Iterator::collect()` of the pairs not yet yielded
        #[verifier::external_body]
        pub fn collect<B: FromPairs<K, V>>(self) -> (r: B) ensures r.built_from(self.rest()) { unimplemented!() }

        /// `Iterator::map(f)`: `f` is applied to each remaining pair, in order
        #[verifier::external_body]
        pub fn map<K2, V2, F: Fn((K, V)) -> (K2, V2)>(self, f: F) -> (r: MappedIter<K2, V2>)
            requires forall|i: int| 0 <= i < self.rest().len() ==> call_requires(f, (#[trigger] self.rest()[i],)),
            ensures r.seq().len() == self.rest().len(),
                    forall|i: int| 0 <= i < self.rest().len() ==> call_ensures(f, (self.rest()[i],), #[trigger] r.seq()[i]),
        { unimplemented!() }
    }
    impl<K, V> Iterator for IntoIter<K, V> {
        type Item = (K, V);
        #[verifier::external_body]
        fn next(&mut self) -> (r: Option<(K, V)>) { unimplemented!() }
    }
    impl<K, V> vstd::std_specs::iter::IteratorSpecImpl for IntoIter<K, V> {
        open spec fn obeys_prophetic_iter_laws(&self) -> bool { true }
        open spec fn remaining(&self) -> Seq<(K, V)> { self.rest() }
        open spec fn will_return_none(&self) -> bool { true }
        open spec fn peek(&self, index: int) -> Option<(K, V)> {
            if 0 <= index < self.rest().len() { Some(self.rest()[index]) } else { None }
        }
        open spec fn decrease(&self) -> Option<nat> { Some(self.rest().len()) }
    }

    /// a finished `into_iter().map(f)` chain: the pairs it will yield
    #[verifier::external_body]
    #[verifier::reject_recursive_types(K)]
    #[verifier::reject_recursive_types(V)]
    pub struct MappedIter<K, V> { k: core::marker::PhantomData<(K, V)> }
    impl<K, V> MappedIter<K, V> {
        pub uninterp spec fn seq(&self) -> Seq<(K, V)>;
        #[verifier::external_body]
        pub fn collect<B: FromPairs<K, V>>(self) -> (r: B) ensures r.built_from(self.seq()) { unimplemented!() }
    }

    /// what `collect()` builds from the yielded pairs (FromIterator of both map types = insert
    /// front to back)
    pub trait FromPairs<K, V>: Sized {
        spec fn built_from(&self, s: Seq<(K, V)>) -> bool;
    }
    impl<K, V> FromPairs<K, V> for BTreeMap<K, V> {
        open spec fn built_from(&self, s: Seq<(K, V)>) -> bool { self@ == seq_to_map(s) }
    }
    impl<K, V> FromPairs<K, V> for IndexMap<K, V> {
        open spec fn built_from(&self, s: Seq<(K, V)>) -> bool { *self == IndexMap::<K, V>::from_seq(s) }
    }

    // ---- proved facts about the two spec fns (no trust) ---------------------------------------
    pub proof fn lemma_seq_to_map_dom<K, V>(s: Seq<(K, V)>, k: K)
        ensures seq_to_map(s).contains_key(k) <==> has_key(s, k)
        decreases s.len()
    {
        if s.len() > 0 {
            let p = s.drop_last();
            lemma_seq_to_map_dom(p, k);
            if has_key(p, k) {
                let i = choose|i: int| 0 <= i < p.len() && (#[trigger] p[i]).0 == k;
                assert(s[i].0 == k);
            }
            if s.last().0 == k { assert(s[s.len() - 1].0 == k); }
            if has_key(s, k) {
                let i = choose|i: int| 0 <= i < s.len() && (#[trigger] s[i]).0 == k;
                if i < p.len() { assert(p[i].0 == k); }
            }
        }
    }
    /// the LAST pair with a given key wins
    pub proof fn lemma_seq_to_map_val<K, V>(s: Seq<(K, V)>, i: int)
        requires 0 <= i < s.len(), forall|j: int| i < j < s.len() ==> (#[trigger] s[j]).0 != s[i].0
        ensures seq_to_map(s).contains_key(s[i].0), seq_to_map(s)[s[i].0] == s[i].1
        decreases s.len()
    {
        let p = s.drop_last();
        if i < s.len() - 1 {
            assert(s[s.len() - 1].0 != s[i].0);
            assert(p[i] == s[i]);
            assert forall|j: int| i < j < p.len() implies (#[trigger] p[j]).0 != p[i].0 by { assert(p[j] == s[j]); }
            lemma_seq_to_map_val(p, i);
        }
    }
    pub proof fn lemma_collect_enumeration<K, V>(s: Seq<(K, V)>, m: Map<K, V>)
        requires enumerates(s, m)
        ensures seq_to_map(s) =~= m
    {
        let t = seq_to_map(s);
        assert forall|k: K| #[trigger] t.dom().contains(k) <==> m.dom().contains(k) by {
            lemma_seq_to_map_dom(s, k);
            if has_key(s, k) {
                let i = choose|i: int| 0 <= i < s.len() && (#[trigger] s[i]).0 == k;
                assert(m.contains_key(s[i].0));
            }
        }
        assert forall|k: K| #[trigger] t.dom().contains(k) implies t[k] == m[k] by {
            lemma_seq_to_map_dom(s, k);
            let i = choose|i: int| 0 <= i < s.len() && (#[trigger] s[i]).0 == k;
            assert(m.contains_key(s[i].0));
            lemma_seq_to_map_val(s, i);
        }
        assert(t.dom() =~= m.dom());
    }

    pub broadcast group group_nmaps { ax_btree_of_view, ax_btree_ext, ax_btree_sorted, ax_index_from_seq }
}
