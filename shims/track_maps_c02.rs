// ---- shims/track_maps_c02.rs : ASSUMED contracts for indexmap IndexMap / std BTreeMap as used by
// radix-engine/src/track (MappedTrack::revert_non_force_write_changes, TrackedNode::revert_writes,
// TrackedPartition::revert_writes): `retain`, iteration by `&mut` (`for (k, v) in &mut map`,
// `values_mut()`), by-value iteration, `get_mut`, `Default`, and `core::mem::take`.
//
// Every fn here is `external_body`: the real implementations are trusted to meet their documented
// behaviour.  Abstract state: a finite `Map<K, V>` view; key equality of the real maps is identified with
// spec equality on K (true for NodeId, PartitionNumber, DbSortKey: structural Eq/Ord/Hash).
//
// Iteration by `&mut` is specified prophecy-style: the iterator yields each binding exactly once as
// `(&K, &mut V)`; the map at the end of the borrow has the same keys, each bound to the FINAL value behind
// the reference that was yielded for it.  Iteration order is not exposed.
pub mod tmaps {
    use vstd::prelude::*;

    /// `s` lists every binding of `m` exactly once
    pub open spec fn has_key<K, V>(s: Seq<(K, V)>, k: K) -> bool {
        exists|i: int| 0 <= i < s.len() && (#[trigger] s[i]).0 == k
    }
    pub open spec fn enumerates<K, V>(s: Seq<(K, V)>, m: Map<K, V>) -> bool {
        &&& forall|i: int, j: int| 0 <= i < j < s.len() ==> s[i].0 != s[j].0
        &&& forall|i: int| 0 <= i < s.len() ==> m.contains_key((#[trigger] s[i]).0) && m[s[i].0] == s[i].1
        &&& forall|k: K| #[trigger] m.contains_key(k) ==> has_key(s, k)
    }

    // ================================================================================ IndexMap ==
    #[verifier::external_body]
    #[verifier::reject_recursive_types(K)]
    #[verifier::reject_recursive_types(V)]
    pub struct IndexMap<K, V> { k: core::marker::PhantomData<(K, V)> }

    impl<K, V> IndexMap<K, V> {
        pub uninterp spec fn view(&self) -> Map<K, V>;

        #[verifier::external_body]
        pub fn get_mut(&mut self, key: &K) -> (r: Option<&mut V>)
            ensures match r {
                Some(v) => old(self)@.contains_key(*key) && *v == old(self)@[*key] && final(self)@ == old(self)@.insert(*key, *final(v)),
                None => !old(self)@.contains_key(*key) && final(self)@ == old(self)@,
            }
        { unimplemented!() }

        /// indexmap `retain(keep)`: calls `keep(&k, &mut v)` once per binding; exactly the bindings for which it
        /// answered `true` remain, holding whatever the call left behind the reference
        #[verifier::external_body]
        pub fn retain<F: FnMut(&K, &mut V) -> bool>(&mut self, keep: F)
            requires forall|k: &K, v: &mut V| #[trigger] keep.requires((k, v)),
            ensures
                forall|k: K| #[trigger] final(self)@.contains_key(k) ==> old(self)@.contains_key(k)
                    && exists|kr: &K, v: &mut V| *kr == k && *v == old(self)@[k] && *final(v) == final(self)@[k] && #[trigger] keep.ensures((kr, v), true),
                forall|k: K| #[trigger] old(self)@.contains_key(k) && !final(self)@.contains_key(k) ==>
                    exists|kr: &K, v: &mut V| *kr == k && *v == old(self)@[k] && #[trigger] keep.ensures((kr, v), false),
        { unimplemented!() }
    }
    impl<K, V> Default for IndexMap<K, V> {
        #[verifier::external_body]
        fn default() -> (r: Self) ensures r@ == Map::<K, V>::empty() { unimplemented!() }
    }

    /// `for (k, v) in &mut map`
    #[verifier::external_body]
    #[verifier::reject_recursive_types(K)]
    #[verifier::reject_recursive_types(V)]
    pub struct IterMut<'a, K, V> { k: core::marker::PhantomData<&'a mut (K, V)> }
    impl<'a, K, V> IterMut<'a, K, V> {
        pub uninterp spec fn rest(&self) -> Seq<(&'a K, &'a mut V)>;
    }
    impl<'a, K, V> Iterator for IterMut<'a, K, V> {
        type Item = (&'a K, &'a mut V);
        #[verifier::external_body]
        fn next(&mut self) -> (r: Option<(&'a K, &'a mut V)>) { unimplemented!() }
    }
    impl<'a, K, V> vstd::std_specs::iter::IteratorSpecImpl for IterMut<'a, K, V> {
        open spec fn obeys_prophetic_iter_laws(&self) -> bool { true }
        open spec fn remaining(&self) -> Seq<(&'a K, &'a mut V)> { self.rest() }
        open spec fn will_return_none(&self) -> bool { true }
        open spec fn peek(&self, index: int) -> Option<(&'a K, &'a mut V)> { if 0 <= index < self.rest().len() { Some(self.rest()[index]) } else { None } }
        open spec fn decrease(&self) -> Option<nat> { Some(self.rest().len()) }
    }
    impl<'a, K, V> IntoIterator for &'a mut IndexMap<K, V> {
        type Item = (&'a K, &'a mut V);
        type IntoIter = IterMut<'a, K, V>;
        #[verifier::external_body]
        fn into_iter(self) -> (r: IterMut<'a, K, V>)
            ensures
                forall|i: int, j: int| 0 <= i < j < r.rest().len() ==> *r.rest()[i].0 != *r.rest()[j].0,
                forall|i: int| 0 <= i < r.rest().len() ==> old(self)@.contains_key(*(#[trigger] r.rest()[i]).0) && *r.rest()[i].1 == old(self)@[*r.rest()[i].0]
                    && final(self)@[*r.rest()[i].0] == *final(r.rest()[i].1),
                forall|k: K| old(self)@.contains_key(k) ==> exists|i: int| 0 <= i < r.rest().len() && *(#[trigger] r.rest()[i]).0 == k,
                final(self)@.dom() == old(self)@.dom(),
        { unimplemented!() }
    }

    // ================================================================================ BTreeMap ==
    #[verifier::external_body]
    #[verifier::reject_recursive_types(K)]
    #[verifier::reject_recursive_types(V)]
    pub struct BTreeMap<K, V> { k: core::marker::PhantomData<(K, V)> }

    impl<K, V> BTreeMap<K, V> {
        pub uninterp spec fn view(&self) -> Map<K, V>;

        #[verifier::external_body]
        pub fn get_mut(&mut self, key: &K) -> (r: Option<&mut V>)
            ensures match r {
                Some(v) => old(self)@.contains_key(*key) && *v == old(self)@[*key] && final(self)@ == old(self)@.insert(*key, *final(v)),
                None => !old(self)@.contains_key(*key) && final(self)@ == old(self)@,
            }
        { unimplemented!() }

        /// `values_mut()`: one `&mut V` per binding; `keys()[i]` names the (ghost) key of the i-th yielded value
        #[verifier::external_body]
        pub fn values_mut(&mut self) -> (r: ValuesMut<'_, K, V>)
            ensures
                r.keys().len() == r.rest().len(),
                forall|i: int, j: int| 0 <= i < j < r.rest().len() ==> r.keys()[i] != r.keys()[j],
                forall|i: int| 0 <= i < r.rest().len() ==> old(self)@.contains_key(#[trigger] r.keys()[i]) && *r.rest()[i] == old(self)@[r.keys()[i]]
                    && final(self)@[r.keys()[i]] == *final(r.rest()[i]),
                forall|k: K| old(self)@.contains_key(k) ==> exists|i: int| 0 <= i < r.rest().len() && #[trigger] r.keys()[i] == k,
                final(self)@.dom() == old(self)@.dom(),
        { unimplemented!() }
    }
    #[verifier::external_body]
    #[verifier::reject_recursive_types(K)]
    #[verifier::reject_recursive_types(V)]
    pub struct ValuesMut<'a, K, V> { k: core::marker::PhantomData<&'a mut (K, V)> }
    impl<'a, K, V> ValuesMut<'a, K, V> {
        pub uninterp spec fn rest(&self) -> Seq<&'a mut V>;
        pub uninterp spec fn keys(&self) -> Seq<K>;
    }
    impl<'a, K, V> Iterator for ValuesMut<'a, K, V> {
        type Item = &'a mut V;
        #[verifier::external_body]
        fn next(&mut self) -> (r: Option<&'a mut V>) { unimplemented!() }
    }
    impl<'a, K, V> vstd::std_specs::iter::IteratorSpecImpl for ValuesMut<'a, K, V> {
        open spec fn obeys_prophetic_iter_laws(&self) -> bool { true }
        open spec fn remaining(&self) -> Seq<&'a mut V> { self.rest() }
        open spec fn will_return_none(&self) -> bool { true }
        open spec fn peek(&self, index: int) -> Option<&'a mut V> { if 0 <= index < self.rest().len() { Some(self.rest()[index]) } else { None } }
        open spec fn decrease(&self) -> Option<nat> { Some(self.rest().len()) }
    }

    // ============================================================== by-value entry iterator ==
    #[verifier::external_body]
    #[verifier::reject_recursive_types(K)]
    #[verifier::reject_recursive_types(V)]
    pub struct IntoIter<K, V> { k: core::marker::PhantomData<(K, V)> }
    impl<K, V> IntoIter<K, V> {
        pub uninterp spec fn rest(&self) -> Seq<(K, V)>;
    }
    impl<K, V> Iterator for IntoIter<K, V> {
        type Item = (K, V);
        #[verifier::external_body]
        fn next(&mut self) -> (r: Option<(K, V)>) { unimplemented!() }
    }
    impl<K, V> vstd::std_specs::iter::IteratorSpecImpl for IntoIter<K, V> {
        open spec fn obeys_prophetic_iter_laws(&self) -> bool { true }
        open spec fn remaining(&self) -> Seq<(K, V)> { self.rest() }
        open spec fn will_return_none(&self) -> bool { true }
        open spec fn peek(&self, index: int) -> Option<(K, V)> { if 0 <= index < self.rest().len() { Some(self.rest()[index]) } else { None } }
        open spec fn decrease(&self) -> Option<nat> { Some(self.rest().len()) }
    }
    /// `for (k, v) in map` (by value): every binding exactly once
    impl<K, V> core::iter::IntoIterator for IndexMap<K, V> {
        type Item = (K, V);
        type IntoIter = IntoIter<K, V>;
        #[verifier::external_body]
        fn into_iter(self) -> (r: IntoIter<K, V>) ensures enumerates(r.rest(), self@) { unimplemented!() }
    }
    impl<K, V> core::iter::IntoIterator for BTreeMap<K, V> {
        type Item = (K, V);
        type IntoIter = IntoIter<K, V>;
        #[verifier::external_body]
        fn into_iter(self) -> (r: IntoIter<K, V>) ensures enumerates(r.rest(), self@) { unimplemented!() }
    }

    /// `core::mem::take`
    pub assume_specification<T: Default> [core::mem::take] (dest: &mut T) -> (r: T)
        ensures r == *old(dest), call_ensures(T::default, (), *final(dest));
}
