// ---- shims/decimal_round_client.rs : client-side ASSUMED contract of Decimal::checked_round ---------
// Companion of shims/decimal.rs (must be included BEFORE this file).  The contract is the rounding
// oracle of property C25, i.e. the postcondition that unit c25_rounding discharges for the real
// radix-common/src/math/decimal.rs :: Decimal::checked_round:
//   the result is the multiple of 10^(18 - dp) sub-units selected by the mode (x itself when it already
//   is a multiple), None iff that multiple does not fit the 192-bit range; the real function panics
//   (assert!) unless 0 <= dp <= 18, which is the precondition here.
pub mod decimal_round_client {
    use vstd::prelude::*;
    use super::decimal::*;
    use super::decimal::Decimal;

    /*@item radix-common/src/math/rounding_mode.rs :: enum RoundingMode
    @derive Clone, Copy
    @*/

    pub open spec fn pow10(n: nat) -> int decreases n { if n == 0 { 1 } else { 10 * pow10((n - 1) as nat) } }
    /// the rounding step at `dp` decimal places of an 18-dp fixed point number, in sub-units
    pub open spec fn step18(dp: int) -> int { pow10((18 - dp) as nat) }
    /// largest multiple of d that is <= x   (d > 0; `/` on int is the floor division for d > 0)
    pub open spec fn lo_mult(x: int, d: int) -> int { d * (x / d) }
    /// smallest multiple of d that is >= x, for x not a multiple
    pub open spec fn hi_mult(x: int, d: int) -> int { d * (x / d) + d }
    pub open spec fn toward_zero(x: int, d: int) -> int { if x > 0 { lo_mult(x, d) } else { hi_mult(x, d) } }
    pub open spec fn away_zero(x: int, d: int) -> int { if x > 0 { hi_mult(x, d) } else { lo_mult(x, d) } }
    pub open spec fn even_mult(x: int, d: int) -> int { if (x / d) % 2 == 0 { lo_mult(x, d) } else { hi_mult(x, d) } }
    pub open spec fn nearest(x: int, d: int, tie: int) -> int {
        let below = x - lo_mult(x, d);
        let above = hi_mult(x, d) - x;
        if below < above { lo_mult(x, d) } else if below > above { hi_mult(x, d) } else { tie }
    }
    pub open spec fn round_to(x: int, d: int, mode: RoundingMode) -> int {
        if x % d == 0 { x } else {
            match mode {
                RoundingMode::ToPositiveInfinity => hi_mult(x, d),
                RoundingMode::ToNegativeInfinity => lo_mult(x, d),
                RoundingMode::ToZero => toward_zero(x, d),
                RoundingMode::AwayFromZero => away_zero(x, d),
                RoundingMode::ToNearestMidpointTowardZero => nearest(x, d, toward_zero(x, d)),
                RoundingMode::ToNearestMidpointAwayFromZero => nearest(x, d, away_zero(x, d)),
                RoundingMode::ToNearestMidpointToEven => nearest(x, d, even_mult(x, d)),
            }
        }
    }

    // ASSUMED: core's lossless widening `impl From<u8> for i32` (hence `Into<i32> for u8`) is the numeric cast
    pub broadcast axiom fn ax_from_u8_i32(x: u8)
        ensures <i32 as vstd::std_specs::convert::FromSpec<u8>>::obeys_from_spec(),
                #[trigger] <i32 as vstd::std_specs::convert::FromSpec<u8>>::from_spec(x) == x as i32;

    impl Decimal {
        #[verifier::external_body]
        pub fn checked_round<T: Into<i32>>(&self, decimal_places: T, mode: RoundingMode) -> (r: Option<Decimal>)
            requires <T as vstd::std_specs::convert::IntoSpec<i32>>::obeys_into_spec(),
                     0 <= <T as vstd::std_specs::convert::IntoSpec<i32>>::into_spec(decimal_places) <= 18,
            ensures ({
                let dp = <T as vstd::std_specs::convert::IntoSpec<i32>>::into_spec(decimal_places) as int;
                let y = round_to(self.v(), step18(dp), mode);
                r == (if in_dec(y) { Some(Decimal::of(y)) } else { None })
            })
        { unimplemented!() }
    }
}
