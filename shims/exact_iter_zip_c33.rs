// ---- shims/exact_iter_zip_c33.rs : an `ExactSizeIterator` with a known item sequence, and the adapter
// chain `a.zip(b).enumerate()` as a `for` source ------------------------------------------------------
// TRUSTED BASE (core::iter semantics; nothing here is under contract).  Verus has neither return-position
// `impl Trait` in traits nor iterator adapters, so the environment traits of unit c33_signatures return
// `SeqIter<T>` where /repo says `impl ExactSizeIterator<Item = T>`; `len` / `zip` / `enumerate` are INHERENT
// methods (they shadow the `ExactSizeIterator` / `Iterator` methods of the same name, so the real text
// `a.len()`, `a.zip(b).enumerate()` resolves to them).
// ASSUMED (std docs):
//   * `ExactSizeIterator::len` is the exact number of remaining items;
//   * `Iterator::zip(a, b)` yields `(a_i, b_i)` in order and stops when either side is exhausted;
//   * `Iterator::enumerate` pairs the items with 0, 1, 2, ... .
pub mod exact_iter {
    use vstd::prelude::*;

    #[verifier::external_body]
    #[verifier::reject_recursive_types(T)]
    pub struct SeqIter<T> { k: core::marker::PhantomData<T> }

    pub open spec fn min_len(a: nat, b: nat) -> nat { if a <= b { a } else { b } }

    impl<T> SeqIter<T> {
        /// the items still to come
        pub uninterp spec fn rest(&self) -> Seq<T>;
        #[verifier::external_body]
        pub fn len(&self) -> (r: usize) ensures r == self.rest().len() { unimplemented!() }
        #[verifier::external_body]
        pub fn zip<U>(self, other: SeqIter<U>) -> (r: SeqIter<(T, U)>)
            ensures r.rest().len() == min_len(self.rest().len(), other.rest().len()),
                    forall|i: int| 0 <= i < r.rest().len() ==> #[trigger] r.rest()[i] == (self.rest()[i], other.rest()[i]),
        { unimplemented!() }
        #[verifier::external_body]
        pub fn enumerate(self) -> (r: SeqIter<(usize, T)>)
            ensures r.rest().len() == self.rest().len(),
                    forall|i: int| 0 <= i < r.rest().len() ==> #[trigger] r.rest()[i] == (i as usize, self.rest()[i]),
        { unimplemented!() }
    }
    impl<T> Iterator for SeqIter<T> {
        type Item = T;
        #[verifier::external_body]
        fn next(&mut self) -> (r: Option<T>) { unimplemented!() }
    }
    impl<T> vstd::std_specs::iter::IteratorSpecImpl for SeqIter<T> {
        open spec fn obeys_prophetic_iter_laws(&self) -> bool { true }
        open spec fn remaining(&self) -> Seq<T> { self.rest() }
        open spec fn will_return_none(&self) -> bool { true }
        open spec fn peek(&self, index: int) -> Option<T> {
            if 0 <= index < self.rest().len() { Some(self.rest()[index]) } else { None }
        }
        open spec fn decrease(&self) -> Option<nat> { Some(self.rest().len()) }
    }
}
