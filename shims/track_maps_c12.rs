// ---- shims/track_maps_c12.rs : ASSUMED contracts for indexmap IndexMap / IndexSet and std BTreeMap as
// used by radix-engine/src/track/track.rs (MappedTrack point operations, create_node, force_write,
// delete_partition, finalize, the tracked half of scan_keys):
//   IndexMap : get, get_mut, insert, `entry(k).or_insert(v)`, `entry(k).or_default()`, index_map_new, Default
//   BTreeMap : new, get, get_mut, insert, remove, contains_key, `entry(k)` matched as
//              `Entry::Vacant(e)` / `Entry::Occupied(e)` with `e.insert(v)` / `e.get_mut()`, values(),
//              by-value iteration
//   IndexSet : insert, index_set_new
//   BTreeSet : by-value iteration
//
// Every fn here is `external_body`: the real implementations are trusted to meet their documented behaviour.
// Abstract state: a finite `Map<K, V>` (`Set<T>`) view; key equality of the real collections (`Ord` for
// BTreeMap, `Hash + Eq` for IndexMap/IndexSet) is identified with spec equality on K (true for NodeId,
// PartitionNumber, DbSortKey, SubstateKey: structural Eq/Ord/Hash).
//
// Entries are prophecy-style.  `ImEntry` (IndexMap) is opaque: `fin()` is the map at the end of the borrow,
// fixed by `or_insert` / `or_default` as "exactly `key` is (re)bound to what is finally stored behind the
// returned reference".  The BTreeMap `Entry` is a REAL enum over two plain structs that hold the `&mut` to
// the map, so the code's `match entry { Entry::Vacant(e) => .., Entry::Occupied(..) => {} }` is verbatim and
// an entry that is dropped unused leaves the map unchanged (Verus resolves the `&mut` field on drop) --
// exactly std's behaviour.
pub mod tm12 {
    use vstd::prelude::*;

    pub open spec fn lookup<K, V>(m: Map<K, V>, k: K) -> Option<V> {
        if m.contains_key(k) { Some(m[k]) } else { None }
    }
    pub open spec fn has_key<K, V>(s: Seq<(K, V)>, k: K) -> bool {
        exists|i: int| 0 <= i < s.len() && (#[trigger] s[i]).0 == k
    }
    /// `s` lists every binding of `m` exactly once
    pub open spec fn enumerates<K, V>(s: Seq<(K, V)>, m: Map<K, V>) -> bool {
        &&& forall|i: int, j: int| 0 <= i < j < s.len() ==> s[i].0 != s[j].0
        &&& forall|i: int| 0 <= i < s.len() ==> m.contains_key((#[trigger] s[i]).0) && m[s[i].0] == s[i].1
        &&& forall|k: K| #[trigger] m.contains_key(k) ==> has_key(s, k)
    }
    /// `s` lists every element of `m` exactly once
    pub open spec fn enumerates_set<T>(s: Seq<T>, m: Set<T>) -> bool {
        &&& forall|i: int, j: int| 0 <= i < j < s.len() ==> s[i] != s[j]
        &&& forall|i: int| 0 <= i < s.len() ==> m.contains(#[trigger] s[i])
        &&& forall|t: T| #[trigger] m.contains(t) ==> exists|i: int| 0 <= i < s.len() && s[i] == t
    }

    // ================================================================================ IndexMap ==
    #[verifier::external_body]
    #[verifier::reject_recursive_types(K)]
    #[verifier::reject_recursive_types(V)]
    pub struct IndexMap<K, V> { k: core::marker::PhantomData<(K, V)> }

    #[verifier::external_body]
    #[verifier::reject_recursive_types(K)]
    #[verifier::reject_recursive_types(V)]
    pub struct ImEntry<'a, K, V> { m: &'a mut IndexMap<K, V> }

    impl<'a, K, V> ImEntry<'a, K, V> {
        pub uninterp spec fn key(&self) -> K;
        pub uninterp spec fn map0(&self) -> Map<K, V>;
        /// prophesied map at the end of the borrow started by `entry`
        pub uninterp spec fn fin(&self) -> Map<K, V>;
        /// the slot of `key` (created holding `default` if vacant); exactly `key` is (re)bound
        #[verifier::external_body]
        pub fn or_insert(self, default: V) -> (r: &'a mut V)
            ensures *r == (if self.map0().contains_key(self.key()) { self.map0()[self.key()] } else { default }),
                    self.fin() == self.map0().insert(self.key(), *final(r)),
        { unimplemented!() }
        /// the slot of `key` (created with `V::default()` if vacant); exactly `key` is (re)bound
        #[verifier::external_body]
        pub fn or_default(self) -> (r: &'a mut V) where V: Default
            ensures
                self.map0().contains_key(self.key()) ==> *r == self.map0()[self.key()],
                !self.map0().contains_key(self.key()) ==> call_ensures(V::default, (), *r),
                self.fin() == self.map0().insert(self.key(), *final(r)),
        { unimplemented!() }
    }

    impl<K, V> IndexMap<K, V> {
        pub uninterp spec fn view(&self) -> Map<K, V>;

        #[verifier::external_body]
        pub fn get(&self, key: &K) -> (r: Option<&V>)
            ensures match r { Some(v) => self@.contains_key(*key) && *v == self@[*key], None => !self@.contains_key(*key) }
        { unimplemented!() }

        #[verifier::external_body]
        pub fn get_mut(&mut self, key: &K) -> (r: Option<&mut V>)
            ensures match r {
                Some(v) => old(self)@.contains_key(*key) && *v == old(self)@[*key] && final(self)@ == old(self)@.insert(*key, *final(v)),
                None => !old(self)@.contains_key(*key) && *final(self) == *old(self),
            }
        { unimplemented!() }

        #[verifier::external_body]
        pub fn insert(&mut self, key: K, value: V) -> (r: Option<V>)
            ensures final(self)@ == old(self)@.insert(key, value),
                    r == lookup(old(self)@, key),
        { unimplemented!() }

        #[verifier::external_body]
        pub fn entry(&mut self, key: K) -> (e: ImEntry<'_, K, V>)
            ensures e.key() == key, e.map0() == old(self)@, final(self)@ == e.fin(),
        { unimplemented!() }
    }
    impl<K, V> Default for IndexMap<K, V> {
        #[verifier::external_body]
        fn default() -> (r: Self) ensures r@ == Map::<K, V>::empty() { unimplemented!() }
    }
    #[verifier::external_body]
    pub fn index_map_new<K, V>() -> (r: IndexMap<K, V>) ensures r@ == Map::<K, V>::empty() { unimplemented!() }

    // ================================================================================ BTreeMap ==
    #[verifier::external_body]
    #[verifier::reject_recursive_types(K)]
    #[verifier::reject_recursive_types(V)]
    pub struct BTreeMap<K, V> { k: core::marker::PhantomData<(K, V)> }

    /// std::collections::btree_map::{Entry, VacantEntry, OccupiedEntry}: a view into the slot of `key`
    #[verifier::reject_recursive_types(K)]
    #[verifier::reject_recursive_types(V)]
    pub struct VacantEntry<'a, K, V> { pub map: &'a mut BTreeMap<K, V>, pub key: K }
    #[verifier::reject_recursive_types(K)]
    #[verifier::reject_recursive_types(V)]
    pub struct OccupiedEntry<'a, K, V> { pub map: &'a mut BTreeMap<K, V>, pub key: K }
    #[verifier::reject_recursive_types(K)]
    #[verifier::reject_recursive_types(V)]
    pub enum Entry<'a, K, V> { Vacant(VacantEntry<'a, K, V>), Occupied(OccupiedEntry<'a, K, V>) }

    impl<'a, K, V> VacantEntry<'a, K, V> {
        /// std: "Sets the value of the entry with the VacantEntry's key, and returns a mutable reference to it"
        #[verifier::external_body]
        pub fn insert(self, value: V) -> (r: &'a mut V)
            ensures *r == value, final(self.map)@ == old(self.map)@.insert(self.key, *final(r))
        { unimplemented!() }
    }
    impl<'a, K, V> OccupiedEntry<'a, K, V> {
        /// std: "Gets a mutable reference to the value in the entry"
        #[verifier::external_body]
        pub fn get_mut(&mut self) -> (r: &mut V)
            ensures
                old(self).map@.contains_key(old(self).key) ==> *r == old(self).map@[old(self).key],
                final(self).key == old(self).key,
                final(self).map@ == old(self).map@.insert(old(self).key, *final(r)),
                *final(final(self).map) == *final(old(self).map),
        { unimplemented!() }
    }


    impl<'a, K, V> Entry<'a, K, V> {
        /// std: "Ensures a value is in the entry by inserting the default value if empty, and returns a mutable
        /// reference to the value in the entry"
        #[verifier::external_body]
        pub fn or_default(self) -> (r: &'a mut V) where V: Default
            ensures
                self is Vacant ==> call_ensures(V::default, (), *r)
                    && final(self->Vacant_0.map)@ == old(self->Vacant_0.map)@.insert(self->Vacant_0.key, *final(r)),
                self is Occupied ==> *r == old(self->Occupied_0.map)@[self->Occupied_0.key]
                    && final(self->Occupied_0.map)@ == old(self->Occupied_0.map)@.insert(self->Occupied_0.key, *final(r)),
        { unimplemented!() }
    }

    impl<K, V> BTreeMap<K, V> {
        pub uninterp spec fn view(&self) -> Map<K, V>;

        #[verifier::external_body]
        pub fn new() -> (r: Self) ensures r@ == Map::<K, V>::empty() { unimplemented!() }

        #[verifier::external_body]
        pub fn get(&self, key: &K) -> (r: Option<&V>)
            ensures match r { Some(v) => self@.contains_key(*key) && *v == self@[*key], None => !self@.contains_key(*key) }
        { unimplemented!() }

        #[verifier::external_body]
        pub fn contains_key(&self, key: &K) -> (r: bool) ensures r == self@.contains_key(*key) { unimplemented!() }

        #[verifier::external_body]
        pub fn get_mut(&mut self, key: &K) -> (r: Option<&mut V>)
            ensures match r {
                Some(v) => old(self)@.contains_key(*key) && *v == old(self)@[*key] && final(self)@ == old(self)@.insert(*key, *final(v)),
                None => !old(self)@.contains_key(*key) && *final(self) == *old(self),
            }
        { unimplemented!() }

        #[verifier::external_body]
        pub fn insert(&mut self, key: K, value: V) -> (r: Option<V>)
            ensures final(self)@ == old(self)@.insert(key, value),
                    r == lookup(old(self)@, key),
        { unimplemented!() }

        #[verifier::external_body]
        pub fn remove(&mut self, key: &K) -> (r: Option<V>)
            ensures final(self)@ == old(self)@.remove(*key),
                    r == lookup(old(self)@, *key),
        { unimplemented!() }

        /// the slot of `key`: Vacant iff the key is unbound.  The entry holds the borrow of the map: what is
        /// behind `e.map` when the entry is dropped / consumed is the map afterwards.
        #[verifier::external_body]
        pub fn entry(&mut self, key: K) -> (e: Entry<'_, K, V>)
            ensures match e {
                Entry::Vacant(v) => !old(self)@.contains_key(key) && v.key == key && *v.map == *old(self) && *final(v.map) == *final(self),
                Entry::Occupied(o) => old(self)@.contains_key(key) && o.key == key && *o.map == *old(self) && *final(o.map) == *final(self),
            }
        { unimplemented!() }
    }
    impl<K, V> Default for BTreeMap<K, V> {
        #[verifier::external_body]
        fn default() -> (r: Self) ensures r@ == Map::<K, V>::empty() { unimplemented!() }
    }

    // ================================================================================ IndexSet ==
    #[verifier::external_body]
    #[verifier::reject_recursive_types(T)]
    pub struct IndexSet<T> { t: core::marker::PhantomData<T> }
    impl<T> IndexSet<T> {
        pub uninterp spec fn view(&self) -> Set<T>;
        /// indexmap: "If an equivalent item already exists in the set, it returns false leaving the original
        /// value in the set; otherwise inserts the new item and returns true"
        #[verifier::external_body]
        pub fn insert(&mut self, value: T) -> (r: bool)
            ensures final(self)@ == old(self)@.insert(value), r == !old(self)@.contains(value)
        { unimplemented!() }
    }
    #[verifier::external_body]
    pub fn index_set_new<T>() -> (r: IndexSet<T>) ensures r@ == Set::<T>::empty() { unimplemented!() }


    // ================================================================================ BTreeSet ==
    #[verifier::external_body]
    #[verifier::reject_recursive_types(T)]
    pub struct BTreeSet<T> { t: core::marker::PhantomData<T> }
    impl<T> BTreeSet<T> {
        pub uninterp spec fn view(&self) -> Set<T>;
        #[verifier::external_body]
        pub fn contains(&self, value: &T) -> (r: bool) ensures r == self@.contains(*value) { unimplemented!() }
        #[verifier::external_body]
        pub fn insert(&mut self, value: T) -> (r: bool)
            ensures final(self)@ == old(self)@.insert(value), r == !old(self)@.contains(value)
        { unimplemented!() }
    }
    impl<T> Default for BTreeSet<T> {
        #[verifier::external_body]
        fn default() -> (r: Self) ensures r@ == Set::<T>::empty() { unimplemented!() }
    }
    /// by-value iteration of a set: every element exactly once
    #[verifier::external_body]
    #[verifier::reject_recursive_types(T)]
    pub struct SetIntoIter<T> { t: core::marker::PhantomData<T> }
    impl<T> SetIntoIter<T> {
        pub uninterp spec fn rest(&self) -> Seq<T>;
    }
    impl<T> Iterator for SetIntoIter<T> {
        type Item = T;
        #[verifier::external_body]
        fn next(&mut self) -> (r: Option<T>) { unimplemented!() }
    }
    impl<T> vstd::std_specs::iter::IteratorSpecImpl for SetIntoIter<T> {
        open spec fn obeys_prophetic_iter_laws(&self) -> bool { true }
        open spec fn remaining(&self) -> Seq<T> { self.rest() }
        open spec fn will_return_none(&self) -> bool { true }
        open spec fn peek(&self, index: int) -> Option<T> { if 0 <= index < self.rest().len() { Some(self.rest()[index]) } else { None } }
        open spec fn decrease(&self) -> Option<nat> { Some(self.rest().len()) }
    }
    impl<T> core::iter::IntoIterator for BTreeSet<T> {
        type Item = T;
        type IntoIter = SetIntoIter<T>;
        #[verifier::external_body]
        fn into_iter(self) -> (r: SetIntoIter<T>) ensures enumerates_set(r.rest(), self@) { unimplemented!() }
    }
    impl<T> core::iter::IntoIterator for IndexSet<T> {
        type Item = T;
        type IntoIter = SetIntoIter<T>;
        #[verifier::external_body]
        fn into_iter(self) -> (r: SetIntoIter<T>) ensures enumerates_set(r.rest(), self@) { unimplemented!() }
    }

    // ============================================================== by-value entry iterator ==
    /// `into_iter()` / `for (k, v) in map` of either map type: yields the owned pairs `rest()`; every binding
    /// exactly once (BTreeMap: ascending key order, IndexMap: insertion order -- not exposed here)
    #[verifier::external_body]
    #[verifier::reject_recursive_types(K)]
    #[verifier::reject_recursive_types(V)]
    pub struct IntoIter<K, V> { k: core::marker::PhantomData<(K, V)> }
    impl<K, V> IntoIter<K, V> {
        pub uninterp spec fn rest(&self) -> Seq<(K, V)>;
    }
    impl<K, V> Iterator for IntoIter<K, V> {
        type Item = (K, V);
        #[verifier::external_body]
        fn next(&mut self) -> (r: Option<(K, V)>) { unimplemented!() }
    }
    impl<K, V> vstd::std_specs::iter::IteratorSpecImpl for IntoIter<K, V> {
        open spec fn obeys_prophetic_iter_laws(&self) -> bool { true }
        open spec fn remaining(&self) -> Seq<(K, V)> { self.rest() }
        open spec fn will_return_none(&self) -> bool { true }
        open spec fn peek(&self, index: int) -> Option<(K, V)> { if 0 <= index < self.rest().len() { Some(self.rest()[index]) } else { None } }
        open spec fn decrease(&self) -> Option<nat> { Some(self.rest().len()) }
    }
    impl<K, V> core::iter::IntoIterator for IndexMap<K, V> {
        type Item = (K, V);
        type IntoIter = IntoIter<K, V>;
        #[verifier::external_body]
        fn into_iter(self) -> (r: IntoIter<K, V>) ensures enumerates(r.rest(), self@) { unimplemented!() }
    }
    impl<K, V> core::iter::IntoIterator for BTreeMap<K, V> {
        type Item = (K, V);
        type IntoIter = IntoIter<K, V>;
        #[verifier::external_body]
        fn into_iter(self) -> (r: IntoIter<K, V>) ensures enumerates(r.rest(), self@) { unimplemented!() }
    }

    /// one of the first `i` entries of `s` has key `k`
    pub open spec fn seen<K, V>(s: Seq<(K, V)>, i: int, k: K) -> bool { exists|j: int| 0 <= j < i && (#[trigger] s[j]).0 == k }
    pub proof fn lemma_seen_step<K, V>(s: Seq<(K, V)>, i: int, k: K)
        requires 0 <= i < s.len()
        ensures seen(s, i + 1, k) <==> (seen(s, i, k) || s[i].0 == k)
    {
        if seen(s, i + 1, k) {
            let j = choose|j: int| 0 <= j < i + 1 && (#[trigger] s[j]).0 == k;
            if j < i { assert(seen(s, i, k)); }
        }
        if seen(s, i, k) {
            let j = choose|j: int| 0 <= j < i && (#[trigger] s[j]).0 == k;
            assert(0 <= j < i + 1 && s[j].0 == k);
        }
        if s[i].0 == k { assert(0 <= i < i + 1 && s[i].0 == k); }
    }
    pub proof fn lemma_seen_all<K, V>(s: Seq<(K, V)>, m: Map<K, V>, k: K)
        requires enumerates(s, m)
        ensures seen(s, s.len() as int, k) <==> m.contains_key(k)
    {
        if m.contains_key(k) {
            assert(has_key(s, k));
            let i = choose|i: int| 0 <= i < s.len() && (#[trigger] s[i]).0 == k;
            assert(0 <= i < s.len() && s[i].0 == k);
        }
        if seen(s, s.len() as int, k) {
            let j = choose|j: int| 0 <= j < s.len() && (#[trigger] s[j]).0 == k;
            assert(m.contains_key(s[j].0));
        }
    }

    // ============================================================== BTreeMap::values() ==
    impl<K, V> BTreeMap<K, V> {
        /// the bindings in iteration order (std: ascending by key).  Only "every binding exactly once"
        /// (ax_ord_seq) is exposed; the iteration order is a function of the map value.
        pub uninterp spec fn ord_seq(&self) -> Seq<(K, V)>;
        /// std: "Gets an iterator over the values of the map, in order by key"
        #[verifier::external_body]
        pub fn values(&self) -> (r: Values<'_, K, V>)
            ensures r.rest().len() == self.ord_seq().len(),
                    forall|i: int| 0 <= i < r.rest().len() ==> *(#[trigger] r.rest()[i]) == self.ord_seq()[i].1,
        { unimplemented!() }
    }
    pub broadcast axiom fn ax_ord_seq<K, V>(b: BTreeMap<K, V>)
        ensures enumerates(#[trigger] b.ord_seq(), b@);
    #[verifier::external_body]
    #[verifier::reject_recursive_types(K)]
    #[verifier::reject_recursive_types(V)]
    pub struct Values<'a, K, V> { k: core::marker::PhantomData<&'a (K, V)> }
    impl<'a, K, V> Values<'a, K, V> {
        pub uninterp spec fn rest(&self) -> Seq<&'a V>;
    }
    impl<'a, K, V> Iterator for Values<'a, K, V> {
        type Item = &'a V;
        #[verifier::external_body]
        fn next(&mut self) -> (r: Option<&'a V>) { unimplemented!() }
    }
    impl<'a, K, V> vstd::std_specs::iter::IteratorSpecImpl for Values<'a, K, V> {
        open spec fn obeys_prophetic_iter_laws(&self) -> bool { true }
        open spec fn remaining(&self) -> Seq<&'a V> { self.rest() }
        open spec fn will_return_none(&self) -> bool { true }
        open spec fn peek(&self, index: int) -> Option<&'a V> { if 0 <= index < self.rest().len() { Some(self.rest()[index]) } else { None } }
        open spec fn decrease(&self) -> Option<nat> { Some(self.rest().len()) }
    }

    // ============================================ BTreeMap::into_values().filter_map(f).collect() ==
    // Iterator adapters are outside Verus: `filter_map` and `collect` are modelled as INHERENT methods of the shim
    // iterator types (an inherent method shadows the `Iterator` adapter of the same name, so the real text
    // `m.into_values().filter_map(f).collect()` resolves to them).
    impl<K, V> BTreeMap<K, V> {
        /// std: "Creates a consuming iterator visiting all the values, in order by key"
        #[verifier::external_body]
        pub fn into_values(self) -> (r: IntoValues<V>)
            ensures r.vals().len() == self.ord_seq().len(),
                    forall|i: int| 0 <= i < r.vals().len() ==> #[trigger] r.vals()[i] == self.ord_seq()[i].1,
        { unimplemented!() }
    }
    #[verifier::external_body]
    #[verifier::reject_recursive_types(V)]
    pub struct IntoValues<V> { k: core::marker::PhantomData<V> }
    impl<V> IntoValues<V> {
        pub uninterp spec fn vals(&self) -> Seq<V>;
        /// `Iterator::filter_map(f)`: `f` is applied to each value, in order; `outs()[i]` is its answer for the
        /// i-th value; the adapter yields the payloads of the `Some` answers (see `somes`)
        #[verifier::external_body]
        pub fn filter_map<B, F: FnMut(V) -> Option<B>>(self, f: F) -> (r: FilterMapped<B>)
            requires forall|i: int| 0 <= i < self.vals().len() ==> call_requires(f, (#[trigger] self.vals()[i],)),
            ensures r.outs().len() == self.vals().len(),
                    forall|i: int| 0 <= i < self.vals().len() ==> call_ensures(f, (self.vals()[i],), #[trigger] r.outs()[i]),
        { unimplemented!() }
    }
    #[verifier::external_body]
    #[verifier::reject_recursive_types(B)]
    pub struct FilterMapped<B> { k: core::marker::PhantomData<B> }
    impl<B> FilterMapped<B> {
        pub uninterp spec fn outs(&self) -> Seq<Option<B>>;
    }
    impl<K2, V2> FilterMapped<(K2, V2)> {
        /// `Iterator::collect()` into a map: the yielded pairs are inserted front to back (FromIterator of IndexMap:
        /// a later pair with an equal key overwrites the value)
        #[verifier::external_body]
        pub fn collect<C: FromPairs<K2, V2>>(self) -> (r: C) ensures r.built_from(somes(self.outs())) { unimplemented!() }
    }
    /// the payloads of the `Some` entries, in order
    pub open spec fn somes<B>(s: Seq<Option<B>>) -> Seq<B>
        decreases s.len()
    {
        if s.len() == 0 { Seq::empty() } else {
            match s.last() { Some(b) => somes(s.drop_last()).push(b), None => somes(s.drop_last()) }
        }
    }
    /// the map built by inserting the pairs of `s` front to back
    pub open spec fn seq_to_map<K, V>(s: Seq<(K, V)>) -> Map<K, V>
        decreases s.len()
    {
        if s.len() == 0 { Map::empty() } else { seq_to_map(s.drop_last()).insert(s.last().0, s.last().1) }
    }
    pub trait FromPairs<K, V>: Sized {
        spec fn built_from(&self, s: Seq<(K, V)>) -> bool;
    }
    impl<K, V> FromPairs<K, V> for IndexMap<K, V> {
        open spec fn built_from(&self, s: Seq<(K, V)>) -> bool { self@ == seq_to_map(s) }
    }
    impl<K, V> IndexMap<K, V> {
        #[verifier::external_body]
        pub fn is_empty(&self) -> (r: bool) ensures r <==> (forall|k: K| !self@.contains_key(k)) { unimplemented!() }
    }
    pub broadcast group group_tm12 { ax_ord_seq }
}
