// ---- shims/bigint_from_str_c27.rs : `impl FromStr for I192 / I256` (text -> big integer) --------------
// Extends the frozen shims/bigint.rs (include that file first). ASSUMED contract of
//   radix-common/src/math/bnum_integer/convert.rs :: impl_from_string!  (the wrapper: maps the error kind of
//     `bnum::BInt::<N>::from_str`: Empty -> Empty, InvalidDigit -> InvalidDigit, Pos/NegOverflow -> Overflow;
//     it has no arm producing NegativeToUnsigned or InvalidLength)
//   bnum 0.11 :: BInt::from_str == from_str_radix(src, 10)  (src/bint/radix.rs, src/buint/radix.rs), documented
//     like core's integer parsers: "an optional + or - sign followed by digits", no whitespace, value exact.
// What is assumed, on the CHARACTER sequence `val@` of the argument:
//   (F1) Ok(x)  <==>  val is `[+-]?[0-9]+` and the integer it denotes lies in [-2^(N-1), 2^(N-1) - 1]; then x is that integer
//        (the most negative value IS accepted: bnum checks `bit(N-1) && trailing_zeros != N-1`; "-0" is 0);
//   (F2) errors are only Empty / InvalidDigit / Overflow (never NegativeToUnsigned, never InvalidLength);
//   (F3) Empty <==> the text is empty; a well-formed numeral that is rejected is rejected with Overflow;
//   (F4) a non-empty text that is NOT a numeral gives InvalidDigit -- or Overflow, but only if it is longer
//        than 38 bytes: bnum reads the digits in chunks of 19 and reports an overflowing prefix before it has
//        looked at the remaining bytes (e.g. 60 nines followed by "x" is Overflow, not InvalidDigit). With at
//        most 38 bytes there are at most 38 digits, 10^38 < 2^127, so no prefix can overflow either width.
// Nothing in this file is a statement about decimal.rs / precise_decimal.rs.
pub mod bigint_from_str_c27 {
    use vstd::prelude::*;
    use super::bigint::*;

    /// radix-common bnum_integer.rs `error!` macro (one enum per width, all with these five variants)
    pub enum ParseI192Error { NegativeToUnsigned, InvalidLength, InvalidDigit, Empty, Overflow }
    pub enum ParseI256Error { NegativeToUnsigned, InvalidLength, InvalidDigit, Empty, Overflow }

    // ---- the integer numeral grammar `[+-]?[0-9]+` and its value -------------------------------------
    pub open spec fn is_digit(c: char) -> bool { '0' <= c && c <= '9' }
    pub open spec fn digit_val(c: char) -> int { c as u32 as int - '0' as u32 as int }
    pub open spec fn all_digits(t: Seq<char>) -> bool {
        forall|i: int| 0 <= i < t.len() ==> is_digit(#[trigger] t[i])
    }
    /// value of a digit string, most significant digit first ("" denotes 0)
    pub open spec fn dec_val(t: Seq<char>) -> int
        decreases t.len()
    {
        if t.len() == 0 { 0 } else { 10 * dec_val(t.drop_last()) + digit_val(t.last()) }
    }
    pub open spec fn has_sign(t: Seq<char>) -> bool { t.len() > 0 && (t[0] == '+' || t[0] == '-') }
    /// the digits after the optional sign
    pub open spec fn magnitude_text(t: Seq<char>) -> Seq<char> { if has_sign(t) { t.skip(1) } else { t } }
    pub open spec fn is_int_numeral(t: Seq<char>) -> bool {
        magnitude_text(t).len() >= 1 && all_digits(magnitude_text(t))
    }
    pub open spec fn int_val(t: Seq<char>) -> int {
        if t.len() > 0 && t[0] == '-' { -dec_val(magnitude_text(t)) } else { dec_val(magnitude_text(t)) }
    }
    /// length of the UTF-8 form (what `str::len` counts)
    pub open spec fn byte_len(t: Seq<char>) -> nat { vstd::utf8::encode_utf8(t).len() }
    /// (F4) texts short enough that the chunked reader cannot overflow before seeing every byte
    pub open spec fn short_text(t: Seq<char>) -> bool { byte_len(t) <= 38 }

    #[verifier::external_trait_specification]
    pub trait ExFromStr: Sized {
        type ExternalTraitSpecificationFor: core::str::FromStr;
        type Err;
        /// (F0) machine range: texts are shorter than 4 GiB (always true where usize is 32 bits wide, e.g. wasm32;
        /// an environment assumption on 64-bit hosts -- the Decimal parsers compute `len() as u32`)
        fn from_str(s: &str) -> Result<Self, Self::Err>
            requires byte_len(s@) <= u32::MAX;
    }

    impl core::str::FromStr for I192 {
        type Err = ParseI192Error;
        #[verifier::external_body]
        fn from_str(val: &str) -> (r: Result<I192, ParseI192Error>)
            ensures
                r is Ok <==> is_int_numeral(val@) && in_i192(int_val(val@)),
                r matches Ok(x) ==> x.v() == int_val(val@),
                r matches Err(e) ==> !(e is NegativeToUnsigned) && !(e is InvalidLength),
                r matches Err(e) ==> (e is Empty <==> val@.len() == 0),
                r matches Err(e) ==> (is_int_numeral(val@) ==> e is Overflow),
                r matches Err(e) ==> (e is Overflow && !is_int_numeral(val@) ==> !short_text(val@)),
        { unimplemented!() }
    }
    impl core::str::FromStr for I256 {
        type Err = ParseI256Error;
        #[verifier::external_body]
        fn from_str(val: &str) -> (r: Result<I256, ParseI256Error>)
            ensures
                r is Ok <==> is_int_numeral(val@) && in_i256(int_val(val@)),
                r matches Ok(x) ==> x.v() == int_val(val@),
                r matches Err(e) ==> !(e is NegativeToUnsigned) && !(e is InvalidLength),
                r matches Err(e) ==> (e is Empty <==> val@.len() == 0),
                r matches Err(e) ==> (is_int_numeral(val@) ==> e is Overflow),
                r matches Err(e) ==> (e is Overflow && !is_int_numeral(val@) ==> !short_text(val@)),
        { unimplemented!() }
    }
}
