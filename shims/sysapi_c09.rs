// ---- shims/sysapi_c09.rs : ghost-heap model of `SystemApi<E>` + native bucket SDK for the worktop (unit c09) ----
// TRUSTED BASE.  Everything in this module is an ASSUMED contract of code that is NOT under proof:
//   * radix-engine-interface `SystemApi` field API (actor_open_field / field_read_typed / field_write_typed /
//     field_close), `drop_object`, and the kernel substate API used by `WorktopBlueprint::drop`
//     (kernel_open_substate / kernel_read_substate / kernel_write_substate / kernel_close_substate), over a ghost heap
//         fields  : FieldIndex  -> Wire                     (value of each field of THE worktop object)
//         handles : FieldHandle -> (FieldIndex, mutable?)   (open locks)
//         buckets : Own -> BucketG                          (every LIVE bucket node: resource, amount, ids)
//   * radix-native-sdk `NativeBucket` / `NativeNonFungibleBucket for Bucket` and `ResourceManager::new_empty_bucket`
//     (each is a `call_method` into the bucket / resource-manager blueprints, which are not under contract here),
//   * `IndexedScryptoValue::{as_typed, from_typed}` (SBOR decoding is a total function to `Result`; encoding is
//     described by the abstract wire value `Wire` of what was encoded),
//   * the iteration / difference side of indexmap that shims/maps.rs + shims/sets.rs do not yet cover.
// The including unit must provide `pub mod env` with RuntimeError / WorktopSubstate / FieldSubstate etc. and
// include shims/decimal.rs, shims/maps.rs, shims/sets.rs BEFORE this file.
//
// Design notes
//   * An `Err` from any call aborts the transaction: mutating SDK calls promise nothing about `buckets` after `Err`.
//     Read-only calls never change anything.
//   * ASSUMED: none of these calls fails with a `WorktopError` (they never run worktop code): `is_worktop_error`.
//   * `Ok` from a bucket method implies the bucket node exists (a call on a dropped / moved node fails).
//   * `bucket_inv`: the bucket blueprint's own invariant (amount >= 0; a non-fungible bucket holds |ids| whole
//     units; a fungible one has no ids).  It is reported for every live bucket a successful SDK call looks at.
pub mod shim_sysapi {
    use vstd::prelude::*;
    use super::decimal::*;
    use super::decimal::Decimal;
    use super::maps::IndexMap;
    use super::sets::*;
    use super::env::*;

    // ================================================================================ addresses ==
    /// radix-common/src/types/node_id.rs
    #[derive(Clone, Copy, PartialEq, Eq)]
    pub struct NodeId(pub [u8; 30]);
    /// radix-common/src/data/scrypto/model/own.rs
    #[derive(Clone, Copy, PartialEq, Eq)]
    pub struct Own(pub NodeId);
    impl Own {
        pub fn as_node_id(&self) -> (r: &NodeId) ensures *r == self.0 { &self.0 }
    }
    /// radix-common/src/types/addresses/resource_address.rs (checked wrapper around NodeId)
    #[derive(Clone, Copy, PartialEq, Eq)]
    pub struct ResourceAddress(pub NodeId);
    impl ResourceAddress {
        pub fn as_node_id(&self) -> (r: &NodeId) ensures *r == self.0 { &self.0 }
    }
    /// radix-common NonFungibleLocalId: opaque
    #[verifier::external_body]
    pub struct NonFungibleLocalId { _p: Vec<u8> }
    impl Clone for NonFungibleLocalId {
        #[verifier::external_body]
        fn clone(&self) -> (r: Self) ensures r == *self { unimplemented!() }
    }

    pub type FieldHandle = u32;
    pub type SubstateHandle = u32;
    pub type FieldIndex = u8;
    pub type ActorStateHandle = u32;
    /// radix-engine-interface/src/api/mod.rs
    pub const ACTOR_STATE_SELF: ActorStateHandle = 0u32;
    pub struct PartitionNumber(pub u8);
    /// radix-engine-interface/src/types/node_layout.rs
    pub const MAIN_BASE_PARTITION: PartitionNumber = PartitionNumber(64u8);
    /// radix-engine-interface SubstateKey: only the Field variant is modelled
    pub enum SubstateKey { Field(FieldIndex), Other }
    /// radix-engine/src/system/system_callback.rs
    pub enum SystemLockData { Default, Other }

    /// radix-engine-interface/src/api/field_api.rs (bitflags): MUTABLE = 0b0000_0001, read_only() = empty()
    pub struct LockFlags { pub bits: u32 }
    impl LockFlags {
        pub const MUTABLE: LockFlags = LockFlags { bits: 1 };
        pub fn read_only() -> (r: LockFlags) ensures r.bits == 0 { LockFlags { bits: 0 } }
    }
    pub open spec fn is_mutable(flags: LockFlags) -> bool { flags.bits == 1 }

    /// radix-engine-interface/src/types/node_layout.rs: `#[repr(u8)] enum WorktopField { Worktop }` with
    /// `From<WorktopField> for u8` (= discriminant) and `for SubstateKey` (= SubstateKey::Field(discriminant))
    pub enum WorktopField { Worktop }
    pub open spec fn I_WORKTOP() -> FieldIndex { 0u8 }
    impl From<WorktopField> for u8 {
        fn from(f: WorktopField) -> (r: u8) ensures r == I_WORKTOP() { 0u8 }
    }
    impl vstd::std_specs::convert::FromSpecImpl<WorktopField> for u8 {
        open spec fn obeys_from_spec() -> bool { true }
        open spec fn from_spec(f: WorktopField) -> u8 { I_WORKTOP() }
    }
    impl From<WorktopField> for SubstateKey {
        fn from(f: WorktopField) -> (r: SubstateKey) ensures r == SubstateKey::Field(I_WORKTOP()) { SubstateKey::Field(0u8) }
    }
    impl vstd::std_specs::convert::FromSpecImpl<WorktopField> for SubstateKey {
        open spec fn obeys_from_spec() -> bool { true }
        open spec fn from_spec(f: WorktopField) -> SubstateKey { SubstateKey::Field(I_WORKTOP()) }
    }

    // ================================================================================ SBOR values ==
    /// abstract content of an encoded value (only the shapes the worktop reads / writes / returns)
    pub enum Wire {
        Unit,
        Own(Own),
        Owns(Seq<Own>),
        /// the worktop substate: resource -> bucket
        Worktop(Map<ResourceAddress, Own>),
        Opaque,
    }
    /// stands for ScryptoEncode + ScryptoDecode of a payload type
    pub trait SborVal: Sized {
        spec fn wire(&self) -> Wire;
        /// the stored values this type decodes without panicking
        spec fn accepts(w: Wire) -> bool;
    }
    impl SborVal for () {
        open spec fn wire(&self) -> Wire { Wire::Unit }
        open spec fn accepts(w: Wire) -> bool { w is Unit }
    }
    impl SborVal for Own {
        open spec fn wire(&self) -> Wire { Wire::Own(*self) }
        open spec fn accepts(w: Wire) -> bool { w is Own }
    }
    impl SborVal for Vec<Own> {
        open spec fn wire(&self) -> Wire { Wire::Owns(self@) }
        open spec fn accepts(w: Wire) -> bool { w is Owns }
    }

    /// sbor::DecodeError: opaque
    #[verifier::external_body]
    pub struct DecodeError { _p: () }
    #[verifier::external]
    impl core::fmt::Debug for DecodeError {
        fn fmt(&self, f: &mut core::fmt::Formatter<'_>) -> core::fmt::Result { f.write_str("DecodeError") }
    }
    /// radix-common IndexedScryptoValue: opaque bytes
    #[verifier::external_body]
    pub struct IndexedScryptoValue { _p: () }
    /// ASSUMED: `as_typed::<T>` is a total, deterministic function of the value
    pub uninterp spec fn decode<T>(v: IndexedScryptoValue) -> Result<T, DecodeError>;
    impl IndexedScryptoValue {
        pub uninterp spec fn wire(&self) -> Wire;
        #[verifier::external_body]
        pub fn as_typed<T>(&self) -> (r: Result<T, DecodeError>) ensures r == decode::<T>(*self) { unimplemented!() }
        #[verifier::external_body]
        pub fn from_typed<T: SborVal>(v: &T) -> (r: IndexedScryptoValue) ensures r.wire() == v.wire() { unimplemented!() }
    }

    // ================================================================================ ghost heap ==
    /// a live bucket node
    pub struct BucketG {
        pub resource: ResourceAddress,
        pub nf: bool,
        /// Decimal sub-units (10^-18)
        pub amount: int,
        pub ids: Set<NonFungibleLocalId>,
    }
    pub type Buckets = Map<Own, BucketG>;
    /// the bucket blueprints' own invariant (units c03 / c10 prove the container side of it)
    pub open spec fn bucket_inv(b: BucketG) -> bool {
        &&& b.amount >= 0
        &&& (b.nf ==> b.amount == b.ids.len() * one18())
        &&& (!b.nf ==> b.ids =~= Set::<NonFungibleLocalId>::empty())
    }
    /// every bucket except `a` and `b` is as before
    pub open spec fn frame2(h0: Buckets, h1: Buckets, a: Own, b: Own) -> bool {
        h1.remove(a).remove(b) =~= h0.remove(a).remove(b)
    }

    pub trait SystemApiError: Sized { spec fn is_worktop_error(&self) -> bool; }
    impl SystemApiError for RuntimeError {
        open spec fn is_worktop_error(&self) -> bool {
            *self matches RuntimeError::ApplicationError(ApplicationError::WorktopError(_))
        }
    }

    pub trait SystemApi<E: SystemApiError>: Sized {
        spec fn fields(&self) -> Map<FieldIndex, Wire>;
        spec fn handles(&self) -> Map<FieldHandle, (FieldIndex, bool)>;
        spec fn buckets(&self) -> Buckets;
        /// the node whose fields `fields()` describes (the worktop: SELF for methods, the argument of `drop`)
        spec fn worktop_node(&self) -> NodeId;

        fn actor_open_field(&mut self, object_handle: ActorStateHandle, field: FieldIndex, flags: LockFlags) -> (r: Result<FieldHandle, E>)
            requires object_handle == ACTOR_STATE_SELF
            ensures
                final(self).fields() == old(self).fields(), final(self).buckets() == old(self).buckets(),
                final(self).worktop_node() == old(self).worktop_node(),
                r matches Ok(h) ==> !old(self).handles().contains_key(h)
                    && final(self).handles() == old(self).handles().insert(h, (field, is_mutable(flags))),
                r is Err ==> final(self).handles() == old(self).handles(),
                r matches Err(e) ==> !e.is_worktop_error();

        fn field_read_typed<S: SborVal>(&mut self, handle: FieldHandle) -> (r: Result<S, E>)
            requires
                old(self).handles().contains_key(handle),
                old(self).fields().contains_key(old(self).handles()[handle].0),
                S::accepts(old(self).fields()[old(self).handles()[handle].0]),
            ensures
                final(self).fields() == old(self).fields(), final(self).buckets() == old(self).buckets(),
                final(self).handles() == old(self).handles(),
                final(self).worktop_node() == old(self).worktop_node(),
                r matches Ok(s) ==> s.wire() == old(self).fields()[old(self).handles()[handle].0],
                r matches Err(e) ==> !e.is_worktop_error();

        fn field_write_typed<S: SborVal>(&mut self, handle: FieldHandle, substate: &S) -> (r: Result<(), E>)
            requires
                old(self).handles().contains_key(handle),
                old(self).handles()[handle].1,
            ensures
                final(self).handles() == old(self).handles(), final(self).buckets() == old(self).buckets(),
                final(self).worktop_node() == old(self).worktop_node(),
                r is Ok ==> final(self).fields() == old(self).fields().insert(old(self).handles()[handle].0, substate.wire()),
                r is Err ==> final(self).fields() == old(self).fields(),
                r matches Err(e) ==> !e.is_worktop_error();

        fn field_close(&mut self, handle: FieldHandle) -> (r: Result<(), E>)
            requires old(self).handles().contains_key(handle)
            ensures
                final(self).fields() == old(self).fields(), final(self).buckets() == old(self).buckets(),
                final(self).worktop_node() == old(self).worktop_node(),
                r is Ok ==> final(self).handles() == old(self).handles().remove(handle),
                r matches Err(e) ==> !e.is_worktop_error();

        /// drops an (owned) object and returns its raw fields; the buckets it used to own were detached before
        fn drop_object(&mut self, node_id: &NodeId) -> (r: Result<Vec<Vec<u8>>, E>)
            ensures
                final(self).buckets() == old(self).buckets(),
                final(self).handles() == old(self).handles(),
                r is Err ==> final(self).fields() == old(self).fields(),
                r matches Err(e) ==> !e.is_worktop_error();
    }

    /// radix-engine/src/kernel/kernel_api.rs, restricted to field substates of the worktop node.  Same ghost heap.
    pub trait KernelSubstateApi<L>: SystemApi<RuntimeError> {
        fn kernel_open_substate(&mut self, node_id: &NodeId, partition_num: PartitionNumber, substate_key: &SubstateKey, flags: LockFlags, lock_data: L) -> (r: Result<SubstateHandle, RuntimeError>)
            ensures
                final(self).fields() == old(self).fields(), final(self).buckets() == old(self).buckets(),
                final(self).worktop_node() == old(self).worktop_node(),
                // ASSUMED: a substate of another node / partition / non-field key is outside the model: refused
                r is Ok ==> *node_id == old(self).worktop_node() && partition_num == MAIN_BASE_PARTITION && *substate_key is Field,
                r matches Ok(h) ==> !old(self).handles().contains_key(h)
                    && final(self).handles() == old(self).handles().insert(h, (substate_key->Field_0, is_mutable(flags))),
                r is Err ==> final(self).handles() == old(self).handles(),
                r matches Err(e) ==> !e.is_worktop_error();

        /// the raw substate of a field is a `FieldSubstate<payload>` (system_substates.rs); for the worktop field it
        /// decodes (the field was written by the typed code) and carries the stored worktop
        fn kernel_read_substate(&mut self, lock_handle: SubstateHandle) -> (r: Result<&IndexedScryptoValue, RuntimeError>)
            requires
                old(self).handles().contains_key(lock_handle),
                old(self).fields().contains_key(old(self).handles()[lock_handle].0),
            ensures
                final(self).fields() == old(self).fields(), final(self).buckets() == old(self).buckets(),
                final(self).handles() == old(self).handles(),
                final(self).worktop_node() == old(self).worktop_node(),
                r matches Ok(v) ==> v.wire() == old(self).fields()[old(self).handles()[lock_handle].0]
                    && (v.wire() is Worktop ==> (decode::<FieldSubstate<WorktopSubstate>>(*v) matches Ok(fs) && fs.wire() == v.wire())),
                r matches Err(e) ==> !e.is_worktop_error();

        fn kernel_write_substate(&mut self, lock_handle: SubstateHandle, value: IndexedScryptoValue) -> (r: Result<(), RuntimeError>)
            requires
                old(self).handles().contains_key(lock_handle),
                old(self).handles()[lock_handle].1,
            ensures
                final(self).handles() == old(self).handles(), final(self).buckets() == old(self).buckets(),
                final(self).worktop_node() == old(self).worktop_node(),
                r is Ok ==> final(self).fields() == old(self).fields().insert(old(self).handles()[lock_handle].0, value.wire()),
                r is Err ==> final(self).fields() == old(self).fields(),
                r matches Err(e) ==> !e.is_worktop_error();

        fn kernel_close_substate(&mut self, lock_handle: SubstateHandle) -> (r: Result<(), RuntimeError>)
            requires old(self).handles().contains_key(lock_handle)
            ensures
                final(self).fields() == old(self).fields(), final(self).buckets() == old(self).buckets(),
                final(self).worktop_node() == old(self).worktop_node(),
                r is Ok ==> final(self).handles() == old(self).handles().remove(lock_handle),
                r matches Err(e) ==> !e.is_worktop_error();
    }

    // ================================================================================ native bucket SDK ==
    /// `x` touched nothing but (possibly) the bucket heap
    pub open spec fn only_buckets<Y: SystemApi<E>, E: SystemApiError>(a: &Y, b: &Y) -> bool {
        b.fields() == a.fields() && b.handles() == a.handles() && b.worktop_node() == a.worktop_node()
    }
    pub open spec fn untouched<Y: SystemApi<E>, E: SystemApiError>(a: &Y, b: &Y) -> bool {
        only_buckets::<Y, E>(a, b) && b.buckets() == a.buckets()
    }

    /// radix-native-sdk/src/resource/bucket.rs :: impl NativeBucket for Bucket / NativeNonFungibleBucket for Bucket
    impl Bucket {
        /// BUCKET_GET_AMOUNT: liquid + locked amount
        #[verifier::external_body]
        pub fn amount<Y: SystemApi<E>, E: SystemApiError>(&self, api: &mut Y) -> (r: Result<Decimal, E>)
            ensures untouched::<Y, E>(old(api), final(api)),
                    r matches Ok(a) ==> old(api).buckets().contains_key(self.0) && a.v() == old(api).buckets()[self.0].amount
                        && bucket_inv(old(api).buckets()[self.0]),
                    r matches Err(e) ==> !e.is_worktop_error(),
        { unimplemented!() }

        #[verifier::external_body]
        pub fn is_empty<Y: SystemApi<E>, E: SystemApiError>(&self, api: &mut Y) -> (r: Result<bool, E>)
            ensures untouched::<Y, E>(old(api), final(api)),
                    r matches Ok(b) ==> old(api).buckets().contains_key(self.0) && b == (old(api).buckets()[self.0].amount == 0)
                        && bucket_inv(old(api).buckets()[self.0]),
                    r matches Err(e) ==> !e.is_worktop_error(),
        { unimplemented!() }

        /// get_outer_object of the bucket node
        #[verifier::external_body]
        pub fn resource_address<Y: SystemApi<E>, E: SystemApiError>(&self, api: &mut Y) -> (r: Result<ResourceAddress, E>)
            ensures untouched::<Y, E>(old(api), final(api)),
                    r matches Ok(a) ==> old(api).buckets().contains_key(self.0) && a == old(api).buckets()[self.0].resource,
                    r matches Err(e) ==> !e.is_worktop_error(),
        { unimplemented!() }

        /// NON_FUNGIBLE_BUCKET_GET_NON_FUNGIBLE_LOCAL_IDS (a fungible bucket has no such method: Err)
        #[verifier::external_body]
        pub fn non_fungible_local_ids<Y: SystemApi<E>, E: SystemApiError>(&self, api: &mut Y) -> (r: Result<IndexSet<NonFungibleLocalId>, E>)
            ensures untouched::<Y, E>(old(api), final(api)),
                    r matches Ok(s) ==> old(api).buckets().contains_key(self.0) && old(api).buckets()[self.0].nf
                        && s@ == old(api).buckets()[self.0].ids && bucket_inv(old(api).buckets()[self.0]),
                    r matches Err(e) ==> !e.is_worktop_error(),
        { unimplemented!() }

        /// BUCKET_PUT: `other` is consumed, its content is added to `self` (same resource; ids are globally unique)
        #[verifier::external_body]
        pub fn put<Y: SystemApi<E>, E: SystemApiError>(&self, other: Bucket, api: &mut Y) -> (r: Result<(), E>)
            ensures only_buckets::<Y, E>(old(api), final(api)),
                    r is Ok ==> ({
                        let h = old(api).buckets();
                        &&& self.0 != other.0 && h.contains_key(self.0) && h.contains_key(other.0)
                        &&& h[self.0].resource == h[other.0].resource && h[self.0].nf == h[other.0].nf
                        &&& h[self.0].ids.disjoint(h[other.0].ids)
                        &&& bucket_inv(h[self.0]) && bucket_inv(h[other.0])
                        &&& final(api).buckets() == h.remove(other.0).insert(self.0, BucketG {
                                resource: h[self.0].resource, nf: h[self.0].nf,
                                amount: h[self.0].amount + h[other.0].amount,
                                ids: h[self.0].ids.union(h[other.0].ids) })
                    }),
                    r matches Err(e) ==> !e.is_worktop_error(),
        { unimplemented!() }

        /// BUCKET_TAKE: a NEW bucket with exactly `amount` (refused if negative, not a multiple of the resource's
        /// granularity, or more than the liquid amount); for a non-fungible bucket the new bucket gets amount/10^18 ids
        #[verifier::external_body]
        pub fn take<Y: SystemApi<E>, E: SystemApiError>(&self, amount: Decimal, api: &mut Y) -> (r: Result<Bucket, E>)
            ensures only_buckets::<Y, E>(old(api), final(api)),
                    r matches Ok(nb) ==> ({
                        let h = old(api).buckets(); let h1 = final(api).buckets();
                        &&& h.contains_key(self.0) && !h.contains_key(nb.0)
                        &&& 0 <= amount.v() <= h[self.0].amount
                        &&& h1.contains_key(self.0) && h1.contains_key(nb.0) && frame2(h, h1, self.0, nb.0)
                        &&& h1[nb.0].resource == h[self.0].resource && h1[nb.0].nf == h[self.0].nf && h1[nb.0].amount == amount.v()
                        &&& h1[self.0].resource == h[self.0].resource && h1[self.0].nf == h[self.0].nf && h1[self.0].amount == h[self.0].amount - amount.v()
                        &&& h1[nb.0].ids.subset_of(h[self.0].ids) && h1[self.0].ids == h[self.0].ids.difference(h1[nb.0].ids)
                        &&& bucket_inv(h1[self.0]) && bucket_inv(h1[nb.0])
                    }),
                    r matches Err(e) ==> !e.is_worktop_error(),
        { unimplemented!() }

        /// NON_FUNGIBLE_BUCKET_TAKE_NON_FUNGIBLES: a NEW bucket with exactly `ids` (refused if any is missing / locked)
        #[verifier::external_body]
        pub fn take_non_fungibles<Y: SystemApi<E>, E: SystemApiError>(&self, ids: IndexSet<NonFungibleLocalId>, api: &mut Y) -> (r: Result<NonFungibleBucket, E>)
            ensures only_buckets::<Y, E>(old(api), final(api)),
                    r matches Ok(nb) ==> ({
                        let h = old(api).buckets(); let h1 = final(api).buckets(); let n = nb.0.0;
                        &&& h.contains_key(self.0) && !h.contains_key(n) && h[self.0].nf
                        &&& ids@.subset_of(h[self.0].ids)
                        &&& h1.contains_key(self.0) && h1.contains_key(n) && frame2(h, h1, self.0, n)
                        &&& h1[n] == BucketG { resource: h[self.0].resource, nf: true, amount: ids@.len() * one18(), ids: ids@ }
                        &&& h1[self.0] == BucketG { resource: h[self.0].resource, nf: true,
                                amount: h[self.0].amount - ids@.len() * one18(), ids: h[self.0].ids.difference(ids@) }
                        &&& bucket_inv(h[self.0])
                    }),
                    r matches Err(e) ==> !e.is_worktop_error(),
        { unimplemented!() }

        /// RESOURCE_MANAGER_DROP_EMPTY_BUCKET: errors on a non-empty bucket (C09 mechanism "drop_empty bucket
        /// errors on non-empty"); on Ok the node is gone
        #[verifier::external_body]
        pub fn drop_empty<Y: SystemApi<E>, E: SystemApiError>(self, api: &mut Y) -> (r: Result<(), E>)
            ensures only_buckets::<Y, E>(old(api), final(api)),
                    r is Ok ==> old(api).buckets().contains_key(self.0) && old(api).buckets()[self.0].amount == 0
                        && final(api).buckets() == old(api).buckets().remove(self.0),
                    r matches Err(e) ==> !e.is_worktop_error(),
        { unimplemented!() }
    }

    /// radix-native-sdk/src/resource/resource_manager.rs
    pub struct ResourceManager(pub ResourceAddress);
    impl ResourceManager {
        /// RESOURCE_MANAGER_CREATE_EMPTY_BUCKET: a NEW, empty bucket of this resource
        #[verifier::external_body]
        pub fn new_empty_bucket<Y: SystemApi<E>, E: SystemApiError>(&self, api: &mut Y) -> (r: Result<Bucket, E>)
            ensures only_buckets::<Y, E>(old(api), final(api)),
                    r matches Ok(nb) ==> ({
                        let h = old(api).buckets(); let h1 = final(api).buckets();
                        &&& !h.contains_key(nb.0) && h1 == h.insert(nb.0, h1[nb.0])
                        &&& h1[nb.0].resource == self.0 && h1[nb.0].amount == 0
                        &&& h1[nb.0].ids =~= Set::<NonFungibleLocalId>::empty() && bucket_inv(h1[nb.0])
                    }),
                    r matches Err(e) ==> !e.is_worktop_error(),
        { unimplemented!() }
    }

    impl SborVal for Bucket {
        open spec fn wire(&self) -> Wire { Wire::Own(self.0) }
        open spec fn accepts(w: Wire) -> bool { w is Own }
    }
    /// `#[sbor(transparent)]`
    impl SborVal for NonFungibleBucket {
        open spec fn wire(&self) -> Wire { Wire::Own(self.0.0) }
        open spec fn accepts(w: Wire) -> bool { w is Own }
    }

    /// std
    pub assume_specification<T>[core::mem::replace](dest: &mut T, src: T) -> (r: T)
        ensures r == *old(dest), *final(dest) == src;

    // ================================================================================ indexmap extras ==
    // (inherent impls on the types of shims/maps.rs / shims/sets.rs; same crate, other module)
    impl<K, V> IndexMap<K, V> {
        /// the values in iteration order: position i holds the value of the i-th key
        pub open spec fn val_order(&self) -> Seq<V> {
            Seq::new(self.key_order().len(), |i: int| self@[self.key_order()[i]])
        }
        #[verifier::external_body]
        pub fn values(&self) -> (r: RefIter<'_, V>) ensures yields(r, self.val_order()) { unimplemented!() }
        #[verifier::external_body]
        pub fn clear(&mut self) ensures final(self)@ == Map::<K, V>::empty() { unimplemented!() }
    }
    /// `for (k, v) in map` (by value): the entries in iteration order
    #[verifier::external_body]
    #[verifier::reject_recursive_types(K)]
    #[verifier::reject_recursive_types(V)]
    pub struct ImIntoIter<K, V> { k: core::marker::PhantomData<(K, V)> }
    impl<K, V> ImIntoIter<K, V> {
        pub uninterp spec fn rest(&self) -> Seq<(K, V)>;
    }
    impl<K, V> Iterator for ImIntoIter<K, V> {
        type Item = (K, V);
        #[verifier::external_body]
        fn next(&mut self) -> (r: Option<(K, V)>) { unimplemented!() }
    }
    impl<K, V> vstd::std_specs::iter::IteratorSpecImpl for ImIntoIter<K, V> {
        open spec fn obeys_prophetic_iter_laws(&self) -> bool { true }
        open spec fn remaining(&self) -> Seq<(K, V)> { self.rest() }
        open spec fn will_return_none(&self) -> bool { true }
        open spec fn peek(&self, index: int) -> Option<(K, V)> { if 0 <= index < self.rest().len() { Some(self.rest()[index]) } else { None } }
        open spec fn decrease(&self) -> Option<nat> { Some(self.rest().len()) }
    }
    pub open spec fn entry_order<K, V>(m: IndexMap<K, V>) -> Seq<(K, V)> {
        Seq::new(m.key_order().len(), |i: int| (m.key_order()[i], m@[m.key_order()[i]]))
    }
    impl<K, V> IntoIterator for IndexMap<K, V> {
        type Item = (K, V);
        type IntoIter = ImIntoIter<K, V>;
        #[verifier::external_body]
        fn into_iter(self) -> (r: ImIntoIter<K, V>) ensures r.rest() == entry_order(self) { unimplemented!() }
    }

    /// indexmap::set::Difference: lazily yields the members of `a` that are not in `b`, in a's order
    #[verifier::external_body]
    #[verifier::reject_recursive_types(T)]
    pub struct Difference<'a, T> { k: core::marker::PhantomData<&'a T> }
    impl<'a, T> Difference<'a, T> {
        pub uninterp spec fn left(&self) -> Set<T>;
        pub uninterp spec fn right(&self) -> Set<T>;
        /// only the FIRST call is specified (all the worktop uses)
        #[verifier::external_body]
        pub fn next(&mut self) -> (r: Option<&'a T>)
            ensures match r {
                Some(x) => old(self).left().contains(*x) && !old(self).right().contains(*x),
                None => old(self).left().subset_of(old(self).right()),
            }
        { unimplemented!() }
    }
    impl<T> IndexSet<T> {
        #[verifier::external_body]
        pub fn difference<'a>(&'a self, other: &'a IndexSet<T>) -> (r: Difference<'a, T>)
            ensures r.left() == self@, r.right() == other@
        { unimplemented!() }
        #[verifier::external_body]
        pub fn is_superset(&self, o: &IndexSet<T>) -> (r: bool) ensures r == o@.subset_of(self@) { unimplemented!() }
    }
}
