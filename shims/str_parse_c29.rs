// ---- shims/str_parse_c29.rs : `str::parse::<F>()`, `core::str::FromStr`, value of `s[a..b]` (gaps in vstd) --
// vstd (0.2026.09.13) specifies `str::chars`, `Iterator::collect` into Vec, `str::is_ascii` and the
// PRECONDITION of `s[range]` on a `str` (`IndexSpec::index_req` == `vstd::string::str_slice_in_bounds`:
// start <= end <= byte length and both ends on char boundaries of the UTF-8 form) itself. It gives the
// RESULT of the slicing only for `SliceIndex::index/get`, not for the `s[range]` operator, and says nothing
// about `str::parse` / `FromStr` / `ParseIntError`.
// ASSUMED here (statements about std code only, none about /repo):
//   (I1) `<str as Index<I>>::index(s, i)` returns what vstd specifies for `<I as SliceIndex<str>>::index(i, s)`
//        (core::str::traits: `fn index(&self, index: I) -> &I::Output { index.index(self) }`), i.e. for a
//        range: result bytes == bytes[start..end]. The panic condition stays vstd's own precondition.
//   (P1) `str::parse::<F>` is TOTAL: it returns a `Result` and never panics (no precondition).
//   (P2) for F = u8 and F = u32 the result is a FUNCTION of the characters of the receiver:
//        `spec_parse::<F>(text)` (uninterpreted) is `Some(v)` exactly when the call returns `Ok(v)`.
//        Nothing is said about WHICH texts are accepted, except
//   (P3) a text made only of 1..=9 ASCII decimal digits whose decimal value fits the type is accepted with
//        that value (core::num `from_str_radix(src, 10)`: "digits are a subset of 0-9 ... optional + sign").
//        P3 is used only by the print/parse corollary of unit c29_parser, never for panic-freedom.
pub mod str_parse {
    use vstd::prelude::*;

    #[verifier::external_type_specification]
    #[verifier::external_body]
    pub struct ExParseIntError(core::num::ParseIntError);

    #[verifier::external_trait_specification]
    pub trait ExFromStr: Sized {
        type ExternalTraitSpecificationFor: core::str::FromStr;
        type Err;
        fn from_str(s: &str) -> Result<Self, Self::Err>;
    }

    /// (I1) value of `s[i]`; the precondition (in bounds, char boundaries) is vstd's `index_req` on the trait
    pub assume_specification<I: core::slice::SliceIndex<str>> [<str as core::ops::Index<I>>::index] (s: &str, i: I)
        -> (r: &<I as core::slice::SliceIndex<str>>::Output)
        ensures vstd::slice::SliceIndexSpec::index_postcondition(&i, s, r);

    /// what `text.parse::<F>()` yields (None = some error); uninterpreted
    pub uninterp spec fn spec_parse<F>(text: Seq<char>) -> Option<F>;
    /// for which target types (P2) is assumed
    pub uninterp spec fn parse_is_function<F>() -> bool;

    pub assume_specification<F: core::str::FromStr> [str::parse] (s: &str) -> (r: Result<F, <F as core::str::FromStr>::Err>)
        ensures
            parse_is_function::<F>() ==> (r is Ok <==> spec_parse::<F>(s@) is Some),
            parse_is_function::<F>() ==> (r matches Ok(v) ==> spec_parse::<F>(s@) == Some(v));

    /// the number a digit string denotes (most significant digit first)
    pub open spec fn dec_val(s: Seq<char>) -> nat
        decreases s.len()
    {
        if s.len() == 0 { 0 } else { 10 * dec_val(s.drop_last()) + ((s.last() as u32 - '0' as u32) as nat) }
    }
    pub open spec fn all_digits(s: Seq<char>) -> bool {
        forall|i: int| 0 <= i < s.len() ==> '0' <= #[trigger] s[i] && s[i] <= '9'
    }

    pub axiom fn ax_parse_is_function_ints()
        ensures parse_is_function::<u8>(), parse_is_function::<u32>();
    pub axiom fn ax_parse_digits_u8(s: Seq<char>)
        requires 1 <= s.len() <= 9, all_digits(s), dec_val(s) <= u8::MAX
        ensures spec_parse::<u8>(s) == Some(dec_val(s) as u8);
    pub axiom fn ax_parse_digits_u32(s: Seq<char>)
        requires 1 <= s.len() <= 9, all_digits(s), dec_val(s) <= u32::MAX
        ensures spec_parse::<u32>(s) == Some(dec_val(s) as u32);
}
