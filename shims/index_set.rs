// ---- shims/index_set.rs : ASSUMED contract of indexmap::IndexSet (as re-exported by radix-rust) ----
// Abstract state: the finite set of members `s@` plus the iteration (insertion) order `s.order()`,
// a duplicate-free sequence enumerating exactly the members.  Every fn is `external_body`: the
// real indexmap implementation is trusted to meet its documented behaviour.
pub mod index_set {
    use vstd::prelude::*;

    #[verifier::external_body]
    #[verifier::reject_recursive_types(T)]
    pub struct IndexSet<T> { k: core::marker::PhantomData<T> }

    /// `indexmap::set::Iter`
    #[verifier::external_body]
    #[verifier::reject_recursive_types(T)]
    pub struct SetIter<'a, T> { k: core::marker::PhantomData<&'a T> }

    /// `indexmap::set::Difference`: lazily yields the members of `a` that are not in `b`
    #[verifier::external_body]
    #[verifier::reject_recursive_types(T)]
    pub struct Difference<'a, T> { k: core::marker::PhantomData<&'a T> }

    impl<T> IndexSet<T> {
        pub uninterp spec fn view(&self) -> Set<T>;
        /// iteration (insertion) order
        pub uninterp spec fn order(&self) -> Seq<T>;

        #[verifier::external_body]
        pub fn len(&self) -> (r: usize) ensures r == self@.len() { unimplemented!() }
        #[verifier::external_body]
        pub fn is_empty(&self) -> (r: bool) ensures r == (self@.len() == 0) { unimplemented!() }
        #[verifier::external_body]
        pub fn contains(&self, x: &T) -> (r: bool) ensures r == self@.contains(*x) { unimplemented!() }
        #[verifier::external_body]
        pub fn is_subset(&self, o: &IndexSet<T>) -> (r: bool) ensures r == self@.subset_of(o@) { unimplemented!() }
        #[verifier::external_body]
        pub fn difference<'a>(&'a self, o: &'a IndexSet<T>) -> (r: Difference<'a, T>) ensures r.elems() == self@.difference(o@) { unimplemented!() }
    }
    impl<T> Clone for IndexSet<T> {
        #[verifier::external_body]
        fn clone(&self) -> (r: Self) ensures r@ == self@ { unimplemented!() }
    }
    pub broadcast axiom fn ax_index_set_order<T>(s: &IndexSet<T>)
        ensures (#[trigger] s.order()).no_duplicates(), s.order().to_set() == s@;

    impl<'a, T> Difference<'a, T> {
        /// members still to be yielded
        pub uninterp spec fn elems(&self) -> Set<T>;
        /// `Iterator::next` (inherent here so that it can carry a contract): yields some member not
        /// yet yielded, or None when there is none
        #[verifier::external_body]
        pub fn next(&mut self) -> (r: Option<&'a T>)
            ensures match r { Some(x) => old(self).elems().contains(*x), None => old(self).elems().len() == 0 }
        { unimplemented!() }
    }
    impl<'a, T> SetIter<'a, T> {
        pub uninterp spec fn rest(&self) -> Seq<&'a T>;
    }
    impl<'a, T> Iterator for SetIter<'a, T> {
        type Item = &'a T;
        #[verifier::external_body]
        fn next(&mut self) -> (r: Option<&'a T>) { unimplemented!() }
    }
    impl<'a, T> vstd::std_specs::iter::IteratorSpecImpl for SetIter<'a, T> {
        open spec fn obeys_prophetic_iter_laws(&self) -> bool { true }
        open spec fn remaining(&self) -> Seq<&'a T> { self.rest() }
        open spec fn will_return_none(&self) -> bool { true }
        open spec fn peek(&self, index: int) -> Option<&'a T> { if 0 <= index < self.rest().len() { Some(self.rest()[index]) } else { None } }
        open spec fn decrease(&self) -> Option<nat> { Some(self.rest().len()) }
    }
    /// `for x in &set` visits the members in iteration order
    impl<'a, T> IntoIterator for &'a IndexSet<T> {
        type Item = &'a T;
        type IntoIter = SetIter<'a, T>;
        #[verifier::external_body]
        fn into_iter(self) -> (r: SetIter<'a, T>)
            ensures r.rest().len() == self.order().len(), forall|i: int| 0 <= i < self.order().len() ==> *r.rest()[i] == self.order()[i]
        { unimplemented!() }
    }
}
