// ---- shims/std_extra.rs : GENERATED -- std functions that vstd 0.2026.09.13 leaves unspecified ----------
// ASSUMED (std documentation). Auto-included into every unit by tools/unit.py (items whose function a unit
// already specifies itself are dropped), so that a code change that starts using one of these functions is
// verified against its contract instead of ending as an `is not supported` UNDECIDED.
pub mod std_extra {
    use vstd::prelude::*;
    //@@ i8::saturating_add
    pub assume_specification[i8::saturating_add](a: i8, b: i8) -> (r: i8) ensures r as int == (if (a as int + b as int) > i8::MAX as int { i8::MAX as int } else if (a as int + b as int) < i8::MIN as int { i8::MIN as int } else { (a as int + b as int) });
    //@@ i8::saturating_sub
    pub assume_specification[i8::saturating_sub](a: i8, b: i8) -> (r: i8) ensures r as int == (if (a as int - b as int) > i8::MAX as int { i8::MAX as int } else if (a as int - b as int) < i8::MIN as int { i8::MIN as int } else { (a as int - b as int) });
    //@@ i8::saturating_mul
    pub assume_specification[i8::saturating_mul](a: i8, b: i8) -> (r: i8) ensures r as int == (if (a as int * b as int) > i8::MAX as int { i8::MAX as int } else if (a as int * b as int) < i8::MIN as int { i8::MIN as int } else { (a as int * b as int) });
    //@@ i16::saturating_add
    pub assume_specification[i16::saturating_add](a: i16, b: i16) -> (r: i16) ensures r as int == (if (a as int + b as int) > i16::MAX as int { i16::MAX as int } else if (a as int + b as int) < i16::MIN as int { i16::MIN as int } else { (a as int + b as int) });
    //@@ i16::saturating_sub
    pub assume_specification[i16::saturating_sub](a: i16, b: i16) -> (r: i16) ensures r as int == (if (a as int - b as int) > i16::MAX as int { i16::MAX as int } else if (a as int - b as int) < i16::MIN as int { i16::MIN as int } else { (a as int - b as int) });
    //@@ i16::saturating_mul
    pub assume_specification[i16::saturating_mul](a: i16, b: i16) -> (r: i16) ensures r as int == (if (a as int * b as int) > i16::MAX as int { i16::MAX as int } else if (a as int * b as int) < i16::MIN as int { i16::MIN as int } else { (a as int * b as int) });
    //@@ i32::saturating_add
    pub assume_specification[i32::saturating_add](a: i32, b: i32) -> (r: i32) ensures r as int == (if (a as int + b as int) > i32::MAX as int { i32::MAX as int } else if (a as int + b as int) < i32::MIN as int { i32::MIN as int } else { (a as int + b as int) });
    //@@ i32::saturating_sub
    pub assume_specification[i32::saturating_sub](a: i32, b: i32) -> (r: i32) ensures r as int == (if (a as int - b as int) > i32::MAX as int { i32::MAX as int } else if (a as int - b as int) < i32::MIN as int { i32::MIN as int } else { (a as int - b as int) });
    //@@ i32::saturating_mul
    pub assume_specification[i32::saturating_mul](a: i32, b: i32) -> (r: i32) ensures r as int == (if (a as int * b as int) > i32::MAX as int { i32::MAX as int } else if (a as int * b as int) < i32::MIN as int { i32::MIN as int } else { (a as int * b as int) });
    //@@ i64::saturating_add
    pub assume_specification[i64::saturating_add](a: i64, b: i64) -> (r: i64) ensures r as int == (if (a as int + b as int) > i64::MAX as int { i64::MAX as int } else if (a as int + b as int) < i64::MIN as int { i64::MIN as int } else { (a as int + b as int) });
    //@@ i64::saturating_sub
    pub assume_specification[i64::saturating_sub](a: i64, b: i64) -> (r: i64) ensures r as int == (if (a as int - b as int) > i64::MAX as int { i64::MAX as int } else if (a as int - b as int) < i64::MIN as int { i64::MIN as int } else { (a as int - b as int) });
    //@@ i64::saturating_mul
    pub assume_specification[i64::saturating_mul](a: i64, b: i64) -> (r: i64) ensures r as int == (if (a as int * b as int) > i64::MAX as int { i64::MAX as int } else if (a as int * b as int) < i64::MIN as int { i64::MIN as int } else { (a as int * b as int) });
    //@@ i128::saturating_add
    pub assume_specification[i128::saturating_add](a: i128, b: i128) -> (r: i128) ensures r as int == (if (a as int + b as int) > i128::MAX as int { i128::MAX as int } else if (a as int + b as int) < i128::MIN as int { i128::MIN as int } else { (a as int + b as int) });
    //@@ i128::saturating_sub
    pub assume_specification[i128::saturating_sub](a: i128, b: i128) -> (r: i128) ensures r as int == (if (a as int - b as int) > i128::MAX as int { i128::MAX as int } else if (a as int - b as int) < i128::MIN as int { i128::MIN as int } else { (a as int - b as int) });
    //@@ i128::saturating_mul
    pub assume_specification[i128::saturating_mul](a: i128, b: i128) -> (r: i128) ensures r as int == (if (a as int * b as int) > i128::MAX as int { i128::MAX as int } else if (a as int * b as int) < i128::MIN as int { i128::MIN as int } else { (a as int * b as int) });
    //@@ isize::saturating_add
    pub assume_specification[isize::saturating_add](a: isize, b: isize) -> (r: isize) ensures r as int == (if (a as int + b as int) > isize::MAX as int { isize::MAX as int } else if (a as int + b as int) < isize::MIN as int { isize::MIN as int } else { (a as int + b as int) });
    //@@ isize::saturating_sub
    pub assume_specification[isize::saturating_sub](a: isize, b: isize) -> (r: isize) ensures r as int == (if (a as int - b as int) > isize::MAX as int { isize::MAX as int } else if (a as int - b as int) < isize::MIN as int { isize::MIN as int } else { (a as int - b as int) });
    //@@ isize::saturating_mul
    pub assume_specification[isize::saturating_mul](a: isize, b: isize) -> (r: isize) ensures r as int == (if (a as int * b as int) > isize::MAX as int { isize::MAX as int } else if (a as int * b as int) < isize::MIN as int { isize::MIN as int } else { (a as int * b as int) });
    //@@ Option::and
    pub assume_specification<T, U>[Option::<T>::and](o: Option<T>, optb: Option<U>) -> (r: Option<U>) ensures r == (if o is None { None::<U> } else { optb });
    //@@ Option::or
    pub assume_specification<T>[Option::<T>::or](o: Option<T>, optb: Option<T>) -> (r: Option<T>) ensures r == (if o is Some { o } else { optb });
    //@@ Option::xor
    pub assume_specification<T>[Option::<T>::xor](o: Option<T>, optb: Option<T>) -> (r: Option<T>) ensures r == (if o is Some && optb is None { o } else if o is None && optb is Some { optb } else { None::<T> });
    //@@ Option::replace
    pub assume_specification<T>[Option::<T>::replace](o: &mut Option<T>, v: T) -> (r: Option<T>) ensures r == *old(o), *final(o) == Some(v);
    //@@ Result::and
    pub assume_specification<T, E, U>[Result::<T, E>::and](o: Result<T, E>, res: Result<U, E>) -> (r: Result<U, E>) ensures r == (match o { Ok(_) => res, Err(e) => Err::<U, E>(e) });
    //@@ Result::or
    pub assume_specification<T, E, F>[Result::<T, E>::or](o: Result<T, E>, res: Result<T, F>) -> (r: Result<T, F>) ensures r == (match o { Ok(v) => Ok::<T, F>(v), Err(_) => res });
    //@@ bool::then_some
    pub assume_specification<T>[bool::then_some](b: bool, t: T) -> (r: Option<T>) ensures r == (if b { Some(t) } else { None });
}
