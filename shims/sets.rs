// ---- shims/sets.rs : ASSUMED contracts for indexmap::IndexSet, std BTreeSet / BTreeMap, and the
// iteration side of indexmap::IndexMap (type from shims/maps.rs, which must be included as well).
// Every fn here is `external_body`: the real implementations (indexmap, std::collections) are
// trusted to meet their documented behaviour.  Abstract state: a finite `Set<T>` / `Map<K, V>`
// view plus, where the real collection has a defined iteration order, a duplicate-free sequence
// `order()` / `key_order()` enumerating exactly the members (axioms ax_*_order).
//
// Iterator adapters are outside Verus.  The two chains that the resource containers use,
//     set.iter().take(n).cloned().collect::<IndexSet<_>>()      and
//     map.keys().cloned().collect::<IndexSet<_>>(),
// are modelled by INHERENT methods `take` / `cloned` / `collect` on the shim iterator types (an
// inherent method shadows the `Iterator` adapter of the same name, so the real text resolves to
// them).  `cloned()` assumes that `T::clone` returns a value equal to the original (true for every
// key type used with these collections in /repo: plain data with derived or structural Clone).
pub mod sets {
    use vstd::prelude::*;
    use super::maps::IndexMap;

    // ================================================================ sequences being collected ==
    /// a finished adapter chain: the sequence of owned items it will yield
    #[verifier::external_body]
    #[verifier::reject_recursive_types(T)]
    pub struct OwnedSeqIter<T> { k: core::marker::PhantomData<T> }

    /// what `collect()` builds from the yielded sequence
    pub trait FromItemSeq<T>: Sized {
        spec fn built_from(&self, s: Seq<T>) -> bool;
    }
    impl<T> OwnedSeqIter<T> {
        pub uninterp spec fn seq(&self) -> Seq<T>;
        #[verifier::external_body]
        pub fn collect<B: FromItemSeq<T>>(self) -> (r: B) ensures r.built_from(self.seq()) { unimplemented!() }
    }
    /// IndexSet::from_iter inserts in order, ignoring repeats: for a duplicate-free input the
    /// iteration order IS the input
    impl<T> FromItemSeq<T> for IndexSet<T> {
        open spec fn built_from(&self, s: Seq<T>) -> bool {
            self@ == s.to_set() && (s.no_duplicates() ==> self.order() == s)
        }
    }
    impl<T> FromItemSeq<T> for BTreeSet<T> {
        open spec fn built_from(&self, s: Seq<T>) -> bool { self@ == s.to_set() }
    }
    impl<T> FromItemSeq<T> for Vec<T> {
        open spec fn built_from(&self, s: Seq<T>) -> bool { self@ == s }
    }

    /// a borrowed iterator after `.take(n)`: no longer usable in `for` (not needed), only `.cloned()`
    #[verifier::external_body]
    #[verifier::reject_recursive_types(T)]
    pub struct TakenRefIter<'a, T> { k: core::marker::PhantomData<&'a T> }
    impl<'a, T> TakenRefIter<'a, T> {
        pub uninterp spec fn seq(&self) -> Seq<T>;
        #[verifier::external_body]
        pub fn cloned(self) -> (r: OwnedSeqIter<T>) where T: Clone ensures r.seq() == self.seq() { unimplemented!() }
    }

    /// Iterator over `&'a T` yielding a known sequence (shared by IndexSet::iter, `&IndexSet`
    /// into_iter, IndexMap::keys, BTreeSet::iter, BTreeMap::keys).  `rest()` = everything it
    /// will yield, as values.
    #[verifier::external_body]
    #[verifier::reject_recursive_types(T)]
    pub struct RefIter<'a, T> { k: core::marker::PhantomData<&'a T> }
    impl<'a, T> RefIter<'a, T> {
        pub uninterp spec fn rest(&self) -> Seq<&'a T>;
        /// the yielded sequence by value
        pub open spec fn vals(&self) -> Seq<T> { Seq::new(self.rest().len(), |i: int| *self.rest()[i]) }
        /// `Iterator::take(n)`: the first min(n, len) items
        #[verifier::external_body]
        pub fn take(self, n: usize) -> (r: TakenRefIter<'a, T>)
            ensures r.seq() == self.vals().take(if n <= self.vals().len() { n as int } else { self.vals().len() as int })
        { unimplemented!() }
        /// `Iterator::cloned()`
        #[verifier::external_body]
        pub fn cloned(self) -> (r: OwnedSeqIter<T>) where T: Clone ensures r.seq() == self.vals() { unimplemented!() }
    }
    impl<'a, T> Iterator for RefIter<'a, T> {
        type Item = &'a T;
        #[verifier::external_body]
        fn next(&mut self) -> (r: Option<&'a T>) { unimplemented!() }
    }
    impl<'a, T> vstd::std_specs::iter::IteratorSpecImpl for RefIter<'a, T> {
        open spec fn obeys_prophetic_iter_laws(&self) -> bool { true }
        open spec fn remaining(&self) -> Seq<&'a T> { self.rest() }
        open spec fn will_return_none(&self) -> bool { true }
        open spec fn peek(&self, index: int) -> Option<&'a T> { if 0 <= index < self.rest().len() { Some(self.rest()[index]) } else { None } }
        open spec fn decrease(&self) -> Option<nat> { Some(self.rest().len()) }
    }
    /// `it` yields exactly the sequence `s` (by reference)
    pub open spec fn yields<'a, T>(it: RefIter<'a, T>, s: Seq<T>) -> bool {
        &&& it.rest().len() == s.len()
        &&& forall|i: int| 0 <= i < s.len() ==> *(#[trigger] it.rest()[i]) == s[i]
        &&& it.vals() == s      // (follows from the two lines above by extensionality; stated for convenience)
    }

    // ================================================================================ IndexSet ==
    #[verifier::external_body]
    #[verifier::reject_recursive_types(T)]
    pub struct IndexSet<T> { k: core::marker::PhantomData<T> }

    impl<T> IndexSet<T> {
        pub uninterp spec fn view(&self) -> Set<T>;
        /// iteration (insertion) order
        pub uninterp spec fn order(&self) -> Seq<T>;

        #[verifier::external_body]
        pub fn new() -> (r: Self) ensures r@ == Set::<T>::empty() { unimplemented!() }
        #[verifier::external_body]
        pub fn len(&self) -> (r: usize) ensures r == self@.len() { unimplemented!() }
        #[verifier::external_body]
        pub fn is_empty(&self) -> (r: bool) ensures r == (self@.len() == 0) { unimplemented!() }
        #[verifier::external_body]
        pub fn contains(&self, x: &T) -> (r: bool) ensures r == self@.contains(*x) { unimplemented!() }
        #[verifier::external_body]
        pub fn clear(&mut self) ensures final(self)@ == Set::<T>::empty(), final(self).order() == Seq::<T>::empty() { unimplemented!() }
        /// true iff the value was newly inserted (appended to the order)
        #[verifier::external_body]
        pub fn insert(&mut self, value: T) -> (r: bool)
            ensures final(self)@ == old(self)@.insert(value), r == !old(self)@.contains(value),
                    r ==> final(self).order() == old(self).order().push(value),
                    !r ==> final(self).order() == old(self).order(),
        { unimplemented!() }
        /// true iff the value was present (the order of the remaining members may change)
        #[verifier::external_body]
        pub fn swap_remove(&mut self, value: &T) -> (r: bool)
            ensures final(self)@ == old(self)@.remove(*value), r == old(self)@.contains(*value),
        { unimplemented!() }
        /// true iff the value was present (the order of the remaining members is kept)
        #[verifier::external_body]
        pub fn shift_remove(&mut self, value: &T) -> (r: bool)
            ensures final(self)@ == old(self)@.remove(*value), r == old(self)@.contains(*value),
        { unimplemented!() }
        /// `Extend::extend` with another IndexSet as the source: inserts every member of `other`
        /// (members already present stay where they are)
        #[verifier::external_body]
        pub fn extend(&mut self, other: IndexSet<T>)
            ensures final(self)@ == old(self)@.union(other@)
        { unimplemented!() }
        #[verifier::external_body]
        pub fn is_subset(&self, o: &IndexSet<T>) -> (r: bool) ensures r == self@.subset_of(o@) { unimplemented!() }
        #[verifier::external_body]
        pub fn is_disjoint(&self, o: &IndexSet<T>) -> (r: bool) ensures r == self@.disjoint(o@) { unimplemented!() }
        #[verifier::external_body]
        pub fn iter(&self) -> (r: RefIter<'_, T>) ensures yields(r, self.order()) { unimplemented!() }
    }
    pub broadcast axiom fn ax_index_set_order<T>(s: &IndexSet<T>)
        ensures (#[trigger] s.order()).no_duplicates(), s.order().to_set() == s@;

    impl<T> Default for IndexSet<T> {
        #[verifier::external_body]
        fn default() -> (r: Self) ensures r@ == Set::<T>::empty() { unimplemented!() }
    }
    /// indexmap's Clone copies the entries in order (T::clone assumed to return an equal value)
    impl<T: Clone> Clone for IndexSet<T> {
        #[verifier::external_body]
        fn clone(&self) -> (r: Self) ensures r == *self { unimplemented!() }
    }
    /// `for x in &set` visits the members in iteration order
    impl<'a, T> IntoIterator for &'a IndexSet<T> {
        type Item = &'a T;
        type IntoIter = RefIter<'a, T>;
        #[verifier::external_body]
        fn into_iter(self) -> (r: RefIter<'a, T>) ensures yields(r, self.order()) { unimplemented!() }
    }
    /// the `indexset!()` macro with no arguments
    #[verifier::external_body]
    pub fn index_set_new<T>() -> (r: IndexSet<T>) ensures r@ == Set::<T>::empty() { unimplemented!() }

    // ======================================================= IndexMap (iteration and entry side) ==
    // inherent impl on the type of shims/maps.rs (same crate, other module)
    impl<K, V> IndexMap<K, V> {
        /// the keys in iteration (insertion) order
        pub uninterp spec fn key_order(&self) -> Seq<K>;
        #[verifier::external_body]
        pub fn keys(&self) -> (r: RefIter<'_, K>) ensures yields(r, self.key_order()) { unimplemented!() }
        #[verifier::external_body]
        pub fn is_empty(&self) -> (r: bool) ensures r == (self@.dom().len() == 0) { unimplemented!() }
    }
    /// `map.entry(k)` (indexmap::map::Entry), same prophecy pattern as NimEntry in shims/maps.rs:
    /// the final map is the old map with `k` bound to whatever is finally stored behind the
    /// reference returned by `or_default()`; every other binding is untouched.
    #[verifier::external_body]
    #[verifier::reject_recursive_types(K)]
    #[verifier::reject_recursive_types(V)]
    pub struct ImEntry<'a, K, V> { m: &'a mut IndexMap<K, V> }
    impl<'a, K, V> ImEntry<'a, K, V> {
        pub uninterp spec fn key(&self) -> K;
        pub uninterp spec fn map0(&self) -> Map<K, V>;
        pub uninterp spec fn fin(&self) -> Map<K, V>;
    }
    impl<K, V> IndexMap<K, V> {
        #[verifier::external_body]
        pub fn entry(&mut self, key: K) -> (e: ImEntry<'_, K, V>)
            ensures e.key() == key, e.map0() == old(self)@, final(self)@ == e.fin(),
        { unimplemented!() }
    }
    /// `or_default()` for counters (`usize::default() == 0`)
    impl<'a, K> ImEntry<'a, K, usize> {
        #[verifier::external_body]
        pub fn or_default(self) -> (r: &'a mut usize)
            ensures *r == (if self.map0().contains_key(self.key()) { self.map0()[self.key()] } else { 0usize }),
                    self.fin() == self.map0().insert(self.key(), *final(r)),
        { unimplemented!() }
    }
    pub broadcast axiom fn ax_index_map_key_order<K, V>(m: &IndexMap<K, V>)
        ensures (#[trigger] m.key_order()).no_duplicates(), m.key_order().to_set() == m@.dom();

    // ================================================================================ BTreeSet ==
    #[verifier::external_body]
    #[verifier::reject_recursive_types(T)]
    pub struct BTreeSet<T> { k: core::marker::PhantomData<T> }

    impl<T> BTreeSet<T> {
        pub uninterp spec fn view(&self) -> Set<T>;
        /// iteration order (std: ascending by `Ord`; only duplicate-freeness and coverage are exposed)
        pub uninterp spec fn order(&self) -> Seq<T>;

        #[verifier::external_body]
        pub fn new() -> (r: Self) ensures r@ == Set::<T>::empty() { unimplemented!() }
        #[verifier::external_body]
        pub fn len(&self) -> (r: usize) ensures r == self@.len() { unimplemented!() }
        #[verifier::external_body]
        pub fn is_empty(&self) -> (r: bool) ensures r == (self@.len() == 0) { unimplemented!() }
        #[verifier::external_body]
        pub fn contains(&self, x: &T) -> (r: bool) ensures r == self@.contains(*x) { unimplemented!() }
        #[verifier::external_body]
        pub fn insert(&mut self, value: T) -> (r: bool)
            ensures final(self)@ == old(self)@.insert(value), r == !old(self)@.contains(value),
        { unimplemented!() }
        #[verifier::external_body]
        pub fn remove(&mut self, value: &T) -> (r: bool)
            ensures final(self)@ == old(self)@.remove(*value), r == old(self)@.contains(*value),
        { unimplemented!() }
        #[verifier::external_body]
        pub fn is_subset(&self, o: &BTreeSet<T>) -> (r: bool) ensures r == self@.subset_of(o@) { unimplemented!() }
        #[verifier::external_body]
        pub fn iter(&self) -> (r: RefIter<'_, T>) ensures yields(r, self.order()) { unimplemented!() }
    }
    pub broadcast axiom fn ax_btree_set_order<T>(s: &BTreeSet<T>)
        ensures (#[trigger] s.order()).no_duplicates(), s.order().to_set() == s@;
    impl<T> Default for BTreeSet<T> {
        #[verifier::external_body]
        fn default() -> (r: Self) ensures r@ == Set::<T>::empty() { unimplemented!() }
    }
    impl<T: Clone> Clone for BTreeSet<T> {
        #[verifier::external_body]
        fn clone(&self) -> (r: Self) ensures r == *self { unimplemented!() }
    }
    impl<'a, T> IntoIterator for &'a BTreeSet<T> {
        type Item = &'a T;
        type IntoIter = RefIter<'a, T>;
        #[verifier::external_body]
        fn into_iter(self) -> (r: RefIter<'a, T>) ensures yields(r, self.order()) { unimplemented!() }
    }

    // ================================================================================ BTreeMap ==
    #[verifier::external_body]
    #[verifier::reject_recursive_types(K)]
    #[verifier::reject_recursive_types(V)]
    pub struct BTreeMap<K, V> { k: core::marker::PhantomData<(K, V)> }

    impl<K, V> BTreeMap<K, V> {
        pub uninterp spec fn view(&self) -> Map<K, V>;
        /// the keys in iteration order (std: ascending; only duplicate-freeness and coverage exposed)
        pub uninterp spec fn key_order(&self) -> Seq<K>;

        #[verifier::external_body]
        pub fn new() -> (r: Self) ensures r@ == Map::<K, V>::empty() { unimplemented!() }
        #[verifier::external_body]
        pub fn get(&self, key: &K) -> (r: Option<&V>)
            ensures match r { Some(v) => self@.contains_key(*key) && *v == self@[*key], None => !self@.contains_key(*key) }
        { unimplemented!() }
        #[verifier::external_body]
        pub fn get_mut(&mut self, key: &K) -> (r: Option<&mut V>)
            ensures match r {
                Some(v) => old(self)@.contains_key(*key) && *v == old(self)@[*key] && final(self)@ == old(self)@.insert(*key, *final(v)),
                None => !old(self)@.contains_key(*key) && final(self)@ == old(self)@,
            }
        { unimplemented!() }
        #[verifier::external_body]
        pub fn contains_key(&self, key: &K) -> (r: bool) ensures r == self@.contains_key(*key) { unimplemented!() }
        #[verifier::external_body]
        pub fn insert(&mut self, key: K, value: V) -> (r: Option<V>)
            ensures final(self)@ == old(self)@.insert(key, value),
                    r == (if old(self)@.contains_key(key) { Some(old(self)@[key]) } else { None::<V> }),
        { unimplemented!() }
        #[verifier::external_body]
        pub fn remove(&mut self, key: &K) -> (r: Option<V>)
            ensures final(self)@ == old(self)@.remove(*key),
                    r == (if old(self)@.contains_key(*key) { Some(old(self)@[*key]) } else { None::<V> }),
        { unimplemented!() }
        #[verifier::external_body]
        pub fn len(&self) -> (r: usize) ensures r == self@.dom().len() { unimplemented!() }
        #[verifier::external_body]
        pub fn is_empty(&self) -> (r: bool) ensures r == (self@.dom().len() == 0) { unimplemented!() }
        #[verifier::external_body]
        pub fn keys(&self) -> (r: RefIter<'_, K>) ensures yields(r, self.key_order()) { unimplemented!() }
    }
    pub broadcast axiom fn ax_btree_map_key_order<K, V>(m: &BTreeMap<K, V>)
        ensures (#[trigger] m.key_order()).no_duplicates(), m.key_order().to_set() == m@.dom();
    impl<K, V> Default for BTreeMap<K, V> {
        #[verifier::external_body]
        fn default() -> (r: Self) ensures r@ == Map::<K, V>::empty() { unimplemented!() }
    }

    pub broadcast group group_sets { ax_index_set_order, ax_index_map_key_order, ax_btree_set_order, ax_btree_map_key_order }
}
