// ---- shims/str_split_c27.rs : `str::split(char)` + collect, `str::starts_with`, `str::len` range --------
// vstd (0.2026.09.13) models `str` as `Seq<char>` (`s@`) and specifies `str::len` as the BYTE length of the
// UTF-8 form cast to usize (`encode_utf8(s@).len() as usize`). It has no specification for `str::split`,
// `core::str::Split`, `str::starts_with`; and `core::str::pattern::Pattern` (a trait with a generic associated
// type `Searcher<'a>`) cannot be declared to Verus at all (the declaration crashes the front end), so the type
// `core::str::Split<'a, P>` cannot be named. Hence:
//   * `split_char(s, c)` stands for `s.split(c)` (ONE @subst in the client) and returns the shim iterator
//     `SplitChar`, whose inherent `collect()` yields the `Vec<&str>` of pieces;
//   * `str::starts_with` keeps its real name for `char` patterns (assume_specification, generic over the
//     undeclared `Pattern`); for a CLOSURE pattern `s.starts_with_char_fn(f)` stands for `s.starts_with(f)`
//     (ONE @subst of the method name in the client; receiver and closure stay verbatim, the closure is verified).
// ASSUMED (statements about core::str only, from the std documentation):
//   (S1) split + collect: "An iterator over substrings of this string slice, separated by characters matched
//        by a pattern": the pieces are separator-free, there is at least one piece ("" splits into [""]), and
//        joining the pieces with the separator gives back the text. These three facts determine the pieces
//        (proved in the client: lemma_split_shape).
//   (S2) `starts_with(pat)`: for `pat: char`, true iff the text is non-empty and its first character is `pat`;
//        for a closure `pat: Fn(char) -> bool`, false on the empty text, otherwise the result of calling the
//        closure on the first character ("the pattern can be a char ... or a function or closure that
//        determines if a character matches"). The closure must accept every character.
//   (S3) the byte length of any `&str` fits usize (a `str` is a slice in memory; needed because vstd's
//        `str::len` contract truncates to usize).
pub mod str_split_c27 {
    use vstd::prelude::*;
    use core::str::pattern::Pattern;

    /// pieces joined with the separator: p0 sep p1 sep ... pn   (join of no pieces is the empty text)
    pub open spec fn join_with(ps: Seq<Seq<char>>, sep: char) -> Seq<char>
        decreases ps.len()
    {
        if ps.len() == 0 { Seq::<char>::empty() }
        else if ps.len() == 1 { ps[0] }
        else { ps[0] + seq![sep] + join_with(ps.skip(1), sep) }
    }
    pub open spec fn sep_free(t: Seq<char>, sep: char) -> bool {
        forall|i: int| 0 <= i < t.len() ==> #[trigger] t[i] != sep
    }
    /// (S1)
    pub open spec fn is_split_of(t: Seq<char>, sep: char, ps: Seq<Seq<char>>) -> bool {
        &&& ps.len() >= 1
        &&& forall|k: int| 0 <= k < ps.len() ==> sep_free(#[trigger] ps[k], sep)
        &&& join_with(ps, sep) == t
    }
    /// the character sequences of a vector of string slices
    pub open spec fn piece_views(v: Seq<&str>) -> Seq<Seq<char>> {
        Seq::new(v.len(), |i: int| v[i]@)
    }

    /// stands for `core::str::Split<'a, char>`
    #[verifier::external_body]
    pub struct SplitChar<'a> { s: &'a str, sep: char }
    impl<'a> SplitChar<'a> {
        pub uninterp spec fn text(&self) -> Seq<char>;
        pub uninterp spec fn sep(&self) -> char;
        /// `Iterator::collect::<Vec<&str>>` on the split iterator
        #[verifier::external_body]
        pub fn collect(self) -> (v: Vec<&'a str>)
            ensures is_split_of(self.text(), self.sep(), piece_views(v@))
        { self.s.split(self.sep).collect() }
    }
    /// `s.split(sep)` for a `char` separator
    #[verifier::external_body]
    pub fn split_char<'a>(s: &'a str, sep: char) -> (r: SplitChar<'a>)
        ensures r.text() == s@, r.sep() == sep
    { SplitChar { s, sep } }

    // ---- (S2) starts_with --------------------------------------------------------------------------
    /// "the text has a prefix matched by the pattern"
    pub uninterp spec fn pat_prefix<P>(p: P, t: Seq<char>) -> bool;
    #[verifier::allow(undeclared_external_trait)]
    pub assume_specification<P: Pattern> [str::starts_with] (s: &str, p: P) -> (r: bool)
        ensures r == pat_prefix(p, s@);
    /// S2 for a `char` pattern
    pub broadcast axiom fn ax_pat_char(c: char, t: Seq<char>)
        ensures #[trigger] pat_prefix(c, t) == (t.len() > 0 && t[0] == c);
    /// S2 for a closure pattern: `s.starts_with_char_fn(f)` stands for `s.starts_with(f)` (ONE @subst of the method
    /// name in the client). A broadcast axiom over the closure type, which would let the real method name stay,
    /// does not fire inside trait-impl methods on this Verus.
    pub trait StrStartsWithFn {
        spec fn text_of(&self) -> Seq<char>;
        fn starts_with_char_fn<F: Fn(char) -> bool>(&self, f: F) -> (r: bool)
            requires forall|c: char| f.requires((c,))
            ensures self.text_of().len() == 0 ==> !r, self.text_of().len() > 0 ==> f.ensures((self.text_of()[0],), r);
    }
    impl StrStartsWithFn for str {
        open spec fn text_of(&self) -> Seq<char> { self@ }
        #[verifier::external_body]
        fn starts_with_char_fn<F: Fn(char) -> bool>(&self, f: F) -> (r: bool) { self.starts_with(f) }
    }

    // ---- (S3) ----------------------------------------------------------------------------------------
    pub broadcast axiom fn ax_str_len_fits_usize(s: &str)
        ensures #[trigger] vstd::utf8::encode_utf8(s@).len() <= usize::MAX;
}
