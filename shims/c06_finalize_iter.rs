// ---- shims/c06_finalize_iter.rs : ASSUMED contracts used by unit c06_finalize_fees -------------------
// Companion of shims/decimal.rs, shims/maps.rs and shims/maps_c06.rs (all three must be included BEFORE
// this file).  Adds only what `finalize_fees_for_commit` (radix-engine/src/system/system_callback.rs)
// needs on top of them:
//   Decimal::min(a, b)              `Ord::min` on Decimal in its UFCS spelling `Decimal::min(a, b)`
//                                   (std: the smaller of the two, the FIRST on a tie; Ord on Decimal is the
//                                   integer order of the attos)
//   map.clone()                     indexmap `Clone`: same entries in the same iteration order
//   `for (k, v) in map`             indexmap by-value iteration: every entry once, in iteration (insertion)
//                                   order `key_order()` (duplicate-free enumeration of the domain by
//                                   maps_c06::ax_c06_key_order)
//   vec.iter().cloned().rev()       std slice iteration, cloned, back to front.  The adapter chain is modelled
//                                   by INHERENT methods on the shim iterator types; the extension trait
//                                   `VecIterC06` is found by method resolution at `&Vec<T>` (before the
//                                   auto-deref to `[T]`), so the verbatim `x.locked_fees.iter()` resolves here.
//                                   `T::clone` is ASSUMED to return an equal value (the element type in /repo is
//                                   `(NodeId, LiquidFungibleResource, bool)`: derived Clone over plain data).
// Not to be included together with shims/vec_iter_chain.rs or shims/nested_maps_c14.rs.
pub mod c06_finalize_iter {
    use vstd::prelude::*;
    use super::maps::IndexMap;
    use super::decimal::Decimal;

    impl Decimal {
        #[verifier::external_body]
        pub fn min(a: Decimal, b: Decimal) -> (r: Decimal)
            ensures r == (if a.v() <= b.v() { a } else { b })
        { unimplemented!() }
    }

    // ---- IndexMap: clone and by-value iteration ------------------------------------------------------
    impl<K, V> IndexMap<K, V> {
        /// the (key, value) pairs in iteration order
        pub uninterp spec fn entries(&self) -> Seq<(K, V)>;
    }
    /// entry i is (i-th key of the iteration order, the value bound to it)
    pub broadcast axiom fn ax_c06_entries<K, V>(m: &IndexMap<K, V>)
        ensures (#[trigger] m.entries()).len() == m.key_order().len(),
            forall|i: int| 0 <= i < m.key_order().len() ==>
                (#[trigger] m.entries()[i]) == (m.key_order()[i], m@[m.key_order()[i]]);
    impl<K: Clone, V: Clone> Clone for IndexMap<K, V> {
        #[verifier::external_body]
        fn clone(&self) -> (r: Self)
            ensures r@ == self@, r.key_order() == self.key_order(), r.entries() == self.entries()
        { unimplemented!() }
    }
    impl<K, V> core::iter::IntoIterator for IndexMap<K, V> {
        type Item = (K, V);
        type IntoIter = ImIntoIterC06<K, V>;
        #[verifier::external_body]
        fn into_iter(self) -> (r: ImIntoIterC06<K, V>) ensures r.rest() == self.entries() { unimplemented!() }
    }
    #[verifier::external_body]
    #[verifier::reject_recursive_types(K)]
    #[verifier::reject_recursive_types(V)]
    pub struct ImIntoIterC06<K, V> { k: core::marker::PhantomData<(K, V)> }
    impl<K, V> ImIntoIterC06<K, V> {
        pub uninterp spec fn rest(&self) -> Seq<(K, V)>;
    }
    impl<K, V> Iterator for ImIntoIterC06<K, V> {
        type Item = (K, V);
        #[verifier::external_body]
        fn next(&mut self) -> (r: Option<(K, V)>) { unimplemented!() }
    }
    impl<K, V> vstd::std_specs::iter::IteratorSpecImpl for ImIntoIterC06<K, V> {
        open spec fn obeys_prophetic_iter_laws(&self) -> bool { true }
        open spec fn remaining(&self) -> Seq<(K, V)> { self.rest() }
        open spec fn will_return_none(&self) -> bool { true }
        open spec fn peek(&self, index: int) -> Option<(K, V)> {
            if 0 <= index < self.rest().len() { Some(self.rest()[index]) } else { None }
        }
        open spec fn decrease(&self) -> Option<nat> { Some(self.rest().len()) }
    }

    // ---- Vec: iter().cloned().rev() ---------------------------------------------------------------------
    pub trait VecIterC06<T> {
        fn iter(&self) -> (r: SliceIterC06<'_, T>);
    }
    impl<T> VecIterC06<T> for Vec<T> {
        #[verifier::external_body]
        fn iter(&self) -> (r: SliceIterC06<'_, T>)
            ensures r.src() == self@
        { unimplemented!() }
    }
    #[verifier::external_body]
    #[verifier::reject_recursive_types(T)]
    pub struct SliceIterC06<'a, T> { k: core::marker::PhantomData<&'a T> }
    impl<'a, T> SliceIterC06<'a, T> {
        /// the elements of the vector the iterator was made from, front to back
        pub uninterp spec fn src(&self) -> Seq<T>;
        /// `Iterator::cloned()`
        #[verifier::external_body]
        pub fn cloned(self) -> (r: ClonedIterC06<T>) where T: Clone ensures r.src() == self.src() { unimplemented!() }
    }
    #[verifier::external_body]
    #[verifier::reject_recursive_types(T)]
    pub struct ClonedIterC06<T> { k: core::marker::PhantomData<T> }
    impl<T> ClonedIterC06<T> {
        pub uninterp spec fn src(&self) -> Seq<T>;
        /// the items still to come when iterated directly
        pub open spec fn rest(&self) -> Seq<T> { self.src() }
        /// `DoubleEndedIterator::rev()`: the same elements, back to front
        #[verifier::external_body]
        pub fn rev(self) -> (r: RevIterC06<T>) ensures r.rest() == self.src().reverse() { unimplemented!() }
    }
    /// iterating the cloned iterator directly (without `.rev()`): front to back
    impl<T> Iterator for ClonedIterC06<T> {
        type Item = T;
        #[verifier::external_body]
        fn next(&mut self) -> (r: Option<T>) { unimplemented!() }
    }
    impl<T> vstd::std_specs::iter::IteratorSpecImpl for ClonedIterC06<T> {
        open spec fn obeys_prophetic_iter_laws(&self) -> bool { true }
        open spec fn remaining(&self) -> Seq<T> { self.src() }
        open spec fn will_return_none(&self) -> bool { true }
        open spec fn peek(&self, index: int) -> Option<T> {
            if 0 <= index < self.src().len() { Some(self.src()[index]) } else { None }
        }
        open spec fn decrease(&self) -> Option<nat> { Some(self.src().len()) }
    }
    #[verifier::external_body]
    #[verifier::reject_recursive_types(T)]
    pub struct RevIterC06<T> { k: core::marker::PhantomData<T> }
    impl<T> RevIterC06<T> {
        /// the items still to come
        pub uninterp spec fn rest(&self) -> Seq<T>;
    }
    impl<T> Iterator for RevIterC06<T> {
        type Item = T;
        #[verifier::external_body]
        fn next(&mut self) -> (r: Option<T>) { unimplemented!() }
    }
    impl<T> vstd::std_specs::iter::IteratorSpecImpl for RevIterC06<T> {
        open spec fn obeys_prophetic_iter_laws(&self) -> bool { true }
        open spec fn remaining(&self) -> Seq<T> { self.rest() }
        open spec fn will_return_none(&self) -> bool { true }
        open spec fn peek(&self, index: int) -> Option<T> {
            if 0 <= index < self.rest().len() { Some(self.rest()[index]) } else { None }
        }
        open spec fn decrease(&self) -> Option<nat> { Some(self.rest().len()) }
    }
    pub broadcast group group_c06_finalize_iter { ax_c06_entries }
}
