// ---- shims/pool_sdk_multi_c41.rs : ghost-ledger model of the native SDK calls used by the TWO- and
// MULTI-resource pools (unit c41_multi_pools).  Same model as shims/pool_sdk_c41.rs (one-resource pool), with
// the pool state generalised to a list of (resource, vault) pairs and the extra SDK calls these pools use. ----
// TRUSTED BASE.  Everything here is an ASSUMED contract of code that is NOT under proof:
//   * radix-engine-interface `SystemApi` field API (actor_open_field / field_read_typed / field_close): opening,
//     reading and closing the pool's State field does not change the ledger; a read yields the stored Substate;
//   * radix-native-sdk wrappers `Vault`, `Bucket`, `FungibleBucket`, `ResourceManager`, `Runtime::emit_event`
//     (each is `api.call_method(..)` into the resource blueprints), specified over a ghost `World`:
//         vaults / buckets : Own -> Holding { resource, amount }      supply : resource -> Option<amount>
//         rtype            : resource -> ResourceType
//     A call that returns Err leaves the World unspecified (the transaction is aborted and reverted as a whole, C02).
//   * the resource-container facts used: amounts are never negative; `put` adds exactly the bucket's amount and
//     consumes the bucket; `take` succeeds only for 0 <= amount <= balance and moves exactly `amount` into a fresh
//     bucket; `Bucket::take_advanced(amount, Rounded(mode))` rounds `amount` to the resource's divisibility with
//     `mode` (Decimal::for_withdrawal -> checked_round), requires 0 <= rounded <= balance and moves exactly the
//     rounded amount into a fresh bucket (fungible_bucket.rs::take_advanced); `drop_empty` succeeds only for an
//     empty bucket and removes it; `mint_fungible` creates a fresh bucket of exactly `amount` and raises the
//     tracked supply by it; `burn` consumes the bucket and lowers the tracked supply by its amount (C03/C38/C39);
//   * `ResourceAddress` is totally ordered (derived Ord on the wrapped NodeId bytes): modelled by an injective rank.
// The including unit must provide `pub mod env` with RuntimeError / ApplicationError, shims/decimal.rs and
// shims/decimal_round_client.rs.
pub mod pool_sdk {
    use vstd::prelude::*;
    use super::env::*;
    use super::decimal::*;
    use super::decimal::Decimal;
    use super::decimal_round_client::*;
    use core::cmp::Ordering;

    #[derive(Clone, Copy)]
    pub struct NodeId(pub [u8; 30]);
    #[derive(Clone, Copy)]
    pub struct Own(pub NodeId);
    #[derive(Clone, Copy)]
    pub struct ResourceAddress(pub NodeId);
    /// derived PartialEq on the wrapped bytes == structural equality
    impl PartialEq for ResourceAddress {
        #[verifier::external_body]
        fn eq(&self, o: &ResourceAddress) -> (r: bool) ensures r == (*self == *o) { unimplemented!() }
    }
    impl vstd::std_specs::cmp::PartialEqSpecImpl for ResourceAddress {
        open spec fn obeys_eq_spec() -> bool { true }
        open spec fn eq_spec(&self, o: &ResourceAddress) -> bool { *self == *o }
    }
    /// derived PartialOrd / Ord on the wrapped bytes: a total order, modelled by an injective rank
    impl ResourceAddress { pub uninterp spec fn rank(self) -> int; }
    pub broadcast axiom fn ax_rank_injective(a: ResourceAddress, b: ResourceAddress)
        ensures (#[trigger] a.rank() == #[trigger] b.rank()) ==> a == b;
    impl PartialOrd for ResourceAddress {
        #[verifier::external_body]
        fn partial_cmp(&self, o: &ResourceAddress) -> (r: Option<Ordering>) ensures r == Some(cmp_int(self.rank(), o.rank())) { unimplemented!() }
    }
    impl vstd::std_specs::cmp::PartialOrdSpecImpl for ResourceAddress {
        open spec fn obeys_partial_cmp_spec() -> bool { true }
        open spec fn partial_cmp_spec(&self, o: &ResourceAddress) -> Option<Ordering> { Some(cmp_int(self.rank(), o.rank())) }
    }
    #[derive(Clone, Copy)]
    pub struct NonFungibleIdType;
    /*@item radix-engine-interface/src/blueprints/resource/mod.rs :: enum WithdrawStrategy
    @derive Clone, Copy
    @*/
    /// Decimal::for_withdrawal (radix-engine-interface/src/blueprints/resource/mod.rs): the amount a withdrawal of `a` moves
    pub open spec fn for_withdrawal(a: int, divisibility: int, strategy: WithdrawStrategy) -> int {
        match strategy {
            WithdrawStrategy::Exact => a,
            WithdrawStrategy::Rounded(mode) => round_to(a, step18(divisibility), mode),
        }
    }
    /*@item radix-engine-interface/src/blueprints/resource/resource_type.rs :: enum ResourceType
    @derive Clone, Copy
    @*/

    /// radix-engine-interface :: `pub struct Vault(pub Own)`, `pub struct Bucket(pub Own)`, `pub struct FungibleBucket(pub Bucket)`
    pub struct Vault(pub Own);
    pub struct Bucket(pub Own);
    pub struct FungibleBucket(pub Bucket);
    /// radix-native-sdk :: `pub struct ResourceManager(pub ResourceAddress)`
    pub struct ResourceManager(pub ResourceAddress);
    impl From<FungibleBucket> for Bucket {
        /*@fn radix-engine-interface/src/blueprints/resource/bucket.rs :: impl From<FungibleBucket> for Bucket :: fn from
        @*/
    }
    impl vstd::std_specs::convert::FromSpecImpl<FungibleBucket> for Bucket {
        open spec fn obeys_from_spec() -> bool { true }
        open spec fn from_spec(value: FungibleBucket) -> Bucket { value.0 }
    }

    pub ghost struct Holding { pub resource: ResourceAddress, pub amount: Decimal }
    pub ghost struct World {
        pub vaults: Map<Own, Holding>,
        pub buckets: Map<Own, Holding>,
        pub supply: Map<ResourceAddress, Option<Decimal>>,
        pub rtype: Map<ResourceAddress, ResourceType>,
    }
    /// resource-container invariant (C03): no negative balances or supplies
    pub open spec fn world_wf(w: World) -> bool {
        &&& forall|o: Own| w.vaults.contains_key(o) ==> (#[trigger] w.vaults[o]).amount.v() >= 0
        &&& forall|o: Own| w.buckets.contains_key(o) ==> (#[trigger] w.buckets[o]).amount.v() >= 0
        &&& forall|r: ResourceAddress| (#[trigger] w.supply[r]) matches Some(s) ==> s.v() >= 0
    }

    pub type FieldHandle = u32;
    pub type FieldIndex = u8;
    pub type ActorStateHandle = u32;
    /// radix-engine-interface/src/api/mod.rs
    pub const ACTOR_STATE_SELF: ActorStateHandle = 0u32;
    /// radix-engine-interface/src/api/field_api.rs (bitflags): read_only() = empty()
    pub struct LockFlags { pub bits: u32 }
    impl LockFlags { pub fn read_only() -> (r: LockFlags) ensures r.bits == 0 { LockFlags { bits: 0 } } }

    /// radix-engine-interface `SystemApiError` (bound of `SystemApi<E>`), with the one fact this unit uses:
    /// ASSUMED -- the system API and the vault / bucket / resource-manager blueprints never fail with a
    /// *TwoResourcePoolError* / *MultiResourcePoolError* (those are raised by the pool blueprints only), so such
    /// an error identifies a decision of the pool's own code.
    pub trait SystemApiError: Sized { spec fn is_pool_error(&self) -> bool; }
    impl SystemApiError for RuntimeError {
        open spec fn is_pool_error(&self) -> bool {
            match *self {
                RuntimeError::ApplicationError(ApplicationError::TwoResourcePoolError(_)) => true,
                RuntimeError::ApplicationError(ApplicationError::MultiResourcePoolError(_)) => true,
                _ => false,
            }
        }
    }
    /// the pool's State field: its (resource, vault) pairs in stored order and the pool-unit resource
    pub ghost struct PoolState { pub vaults: Seq<(ResourceAddress, Own)>, pub pool_unit: ResourceAddress }
    /// a payload type that can be read from the pool's State field
    pub trait StatePayload<S>: Sized { spec fn content(&self) -> S; }

    pub trait SystemApi<E: SystemApiError>: Sized {
        /// the ledger
        spec fn world(&self) -> World;
        /// the content of the State field of the component executing (the pool)
        spec fn state(&self) -> PoolState;

        fn actor_open_field(&mut self, object_handle: ActorStateHandle, field: FieldIndex, flags: LockFlags) -> (r: Result<FieldHandle, E>)
            ensures final(self).world() == old(self).world(), final(self).state() == old(self).state(), r matches Err(e) ==> !e.is_pool_error();
        fn field_read_typed<S: StatePayload<PoolState>>(&mut self, handle: FieldHandle) -> (r: Result<S, E>)
            ensures final(self).world() == old(self).world(), final(self).state() == old(self).state(), r matches Err(e) ==> !e.is_pool_error(),
                    r matches Ok(s) ==> s.content() == old(self).state();
        fn field_close(&mut self, handle: FieldHandle) -> (r: Result<(), E>)
            ensures final(self).world() == old(self).world(), final(self).state() == old(self).state(), r matches Err(e) ==> !e.is_pool_error();
    }

    impl Vault {
        #[verifier::external_body]
        pub fn amount<Y: SystemApi<E>, E: SystemApiError>(&self, api: &mut Y) -> (r: Result<Decimal, E>)
            ensures final(api).world() == old(api).world(), final(api).state() == old(api).state(), r matches Err(e) ==> !e.is_pool_error(),
                    r matches Ok(a) ==> old(api).world().vaults.contains_key(self.0) && a == old(api).world().vaults[self.0].amount,
        { unimplemented!() }
        #[verifier::external_body]
        pub fn resource_address<Y: SystemApi<E>, E: SystemApiError>(&self, api: &mut Y) -> (r: Result<ResourceAddress, E>)
            ensures final(api).world() == old(api).world(), final(api).state() == old(api).state(), r matches Err(e) ==> !e.is_pool_error(),
                    r matches Ok(a) ==> old(api).world().vaults.contains_key(self.0) && a == old(api).world().vaults[self.0].resource,
        { unimplemented!() }
        /// deposits the whole bucket (same resource required by the vault blueprint) and consumes it
        #[verifier::external_body]
        pub fn put<Y: SystemApi<E>, E: SystemApiError>(&mut self, bucket: Bucket, api: &mut Y) -> (r: Result<(), E>)
            ensures *final(self) == *old(self), final(api).state() == old(api).state(), r matches Err(e) ==> !e.is_pool_error(),
                    r is Ok ==> ({
                        let w = old(api).world();
                        &&& w.vaults.contains_key(old(self).0) && w.buckets.contains_key(bucket.0)
                        &&& w.buckets[bucket.0].resource == w.vaults[old(self).0].resource
                        &&& in_dec(w.vaults[old(self).0].amount.v() + w.buckets[bucket.0].amount.v())
                        &&& final(api).world() == World {
                                vaults: w.vaults.insert(old(self).0, Holding { resource: w.vaults[old(self).0].resource, amount: Decimal::of(w.vaults[old(self).0].amount.v() + w.buckets[bucket.0].amount.v()) }),
                                buckets: w.buckets.remove(bucket.0),
                                ..w }
                    }),
        { unimplemented!() }
        /// withdraws exactly `amount` into a fresh bucket; fails unless 0 <= amount <= balance
        #[verifier::external_body]
        pub fn take<Y: SystemApi<E>, E: SystemApiError>(&mut self, amount: Decimal, api: &mut Y) -> (r: Result<Bucket, E>)
            ensures *final(self) == *old(self), final(api).state() == old(api).state(), r matches Err(e) ==> !e.is_pool_error(),
                    r matches Ok(b) ==> ({
                        let w = old(api).world();
                        &&& w.vaults.contains_key(old(self).0) && !w.buckets.contains_key(b.0)
                        &&& 0 <= amount.v() <= w.vaults[old(self).0].amount.v()
                        &&& final(api).world() == World {
                                vaults: w.vaults.insert(old(self).0, Holding { resource: w.vaults[old(self).0].resource, amount: Decimal::of(w.vaults[old(self).0].amount.v() - amount.v()) }),
                                buckets: w.buckets.insert(b.0, Holding { resource: w.vaults[old(self).0].resource, amount: amount }),
                                ..w }
                    }),
        { unimplemented!() }
    }
    impl Bucket {
        #[verifier::external_body]
        pub fn amount<Y: SystemApi<E>, E: SystemApiError>(&self, api: &mut Y) -> (r: Result<Decimal, E>)
            ensures final(api).world() == old(api).world(), final(api).state() == old(api).state(), r matches Err(e) ==> !e.is_pool_error(),
                    r matches Ok(a) ==> old(api).world().buckets.contains_key(self.0) && a == old(api).world().buckets[self.0].amount,
        { unimplemented!() }
        #[verifier::external_body]
        pub fn resource_address<Y: SystemApi<E>, E: SystemApiError>(&self, api: &mut Y) -> (r: Result<ResourceAddress, E>)
            ensures final(api).world() == old(api).world(), final(api).state() == old(api).state(), r matches Err(e) ==> !e.is_pool_error(),
                    r matches Ok(a) ==> old(api).world().buckets.contains_key(self.0) && a == old(api).world().buckets[self.0].resource,
        { unimplemented!() }
        /// `Ok(self.amount(api)?.is_zero())`
        #[verifier::external_body]
        pub fn is_empty<Y: SystemApi<E>, E: SystemApiError>(&self, api: &mut Y) -> (r: Result<bool, E>)
            ensures final(api).world() == old(api).world(), final(api).state() == old(api).state(), r matches Err(e) ==> !e.is_pool_error(),
                    r matches Ok(e) ==> old(api).world().buckets.contains_key(self.0) && e == (old(api).world().buckets[self.0].amount.v() == 0),
        { unimplemented!() }
        /// burns the whole bucket: the bucket disappears and the tracked supply of its resource drops by its amount
        #[verifier::external_body]
        pub fn burn<Y: SystemApi<E>, E: SystemApiError>(self, api: &mut Y) -> (r: Result<(), E>)
            ensures final(api).state() == old(api).state(), r matches Err(e) ==> !e.is_pool_error(),
                    r is Ok ==> ({
                        let w = old(api).world();
                        &&& w.buckets.contains_key(self.0)
                        &&& final(api).world() == World {
                                buckets: w.buckets.remove(self.0),
                                supply: w.supply.insert(w.buckets[self.0].resource,
                                    match w.supply[w.buckets[self.0].resource] { Some(s) => Some(Decimal::of(s.v() - w.buckets[self.0].amount.v())), None => None }),
                                ..w }
                        &&& (w.supply[w.buckets[self.0].resource] matches Some(s) ==> w.buckets[self.0].amount.v() <= s.v())
                    }),
        { unimplemented!() }
    }
    impl Bucket {
        /// fungible_bucket.rs::take_advanced: round per strategy to the divisibility, check, move into a fresh bucket
        #[verifier::external_body]
        pub fn take_advanced<Y: SystemApi<E>, E: SystemApiError>(&self, amount: Decimal, withdraw_strategy: WithdrawStrategy, api: &mut Y) -> (r: Result<Bucket, E>)
            ensures final(api).state() == old(api).state(), r matches Err(e) ==> !e.is_pool_error(),
                    r matches Ok(b) ==> ({
                        let w = old(api).world();
                        let h = w.buckets[self.0];
                        let taken = for_withdrawal(amount.v(), w.rtype[h.resource]->Fungible_divisibility as int, withdraw_strategy);
                        &&& w.buckets.contains_key(self.0) && !w.buckets.contains_key(b.0)
                        &&& w.rtype[h.resource] is Fungible
                        &&& 0 <= taken <= h.amount.v()
                        &&& final(api).world() == World {
                                buckets: w.buckets.insert(self.0, Holding { resource: h.resource, amount: Decimal::of(h.amount.v() - taken) })
                                                  .insert(b.0, Holding { resource: h.resource, amount: Decimal::of(taken) }),
                                ..w }
                    }),
        { unimplemented!() }
        /// deposits the whole `other` bucket (same resource) into this bucket and consumes it
        #[verifier::external_body]
        pub fn put<Y: SystemApi<E>, E: SystemApiError>(&self, other: Bucket, api: &mut Y) -> (r: Result<(), E>)
            ensures final(api).state() == old(api).state(), r matches Err(e) ==> !e.is_pool_error(),
                    r is Ok ==> ({
                        let w = old(api).world();
                        &&& w.buckets.contains_key(self.0) && w.buckets.contains_key(other.0) && self.0 != other.0
                        &&& w.buckets[other.0].resource == w.buckets[self.0].resource
                        &&& in_dec(w.buckets[self.0].amount.v() + w.buckets[other.0].amount.v())
                        &&& final(api).world() == World {
                                buckets: w.buckets.remove(other.0).insert(self.0, Holding { resource: w.buckets[self.0].resource, amount: Decimal::of(w.buckets[self.0].amount.v() + w.buckets[other.0].amount.v()) }),
                                ..w }
                    }),
        { unimplemented!() }
        /// resource manager `drop_empty_bucket`: fails (DropNonEmptyBucket) unless the bucket is empty
        #[verifier::external_body]
        pub fn drop_empty<Y: SystemApi<E>, E: SystemApiError>(self, api: &mut Y) -> (r: Result<(), E>)
            ensures final(api).state() == old(api).state(), r matches Err(e) ==> !e.is_pool_error(),
                    r is Ok ==> ({
                        let w = old(api).world();
                        &&& w.buckets.contains_key(self.0) && w.buckets[self.0].amount.v() == 0
                        &&& final(api).world() == World { buckets: w.buckets.remove(self.0), ..w }
                    }),
        { unimplemented!() }
    }
    impl ResourceManager {
        #[verifier::external_body]
        pub fn total_supply<Y: SystemApi<E>, E: SystemApiError>(&self, api: &mut Y) -> (r: Result<Option<Decimal>, E>)
            ensures final(api).world() == old(api).world(), final(api).state() == old(api).state(), r matches Err(e) ==> !e.is_pool_error(),
                    r matches Ok(a) ==> a == old(api).world().supply[self.0],
        { unimplemented!() }
        #[verifier::external_body]
        pub fn resource_type<Y: SystemApi<E>, E: SystemApiError>(&self, api: &mut Y) -> (r: Result<ResourceType, E>)
            ensures final(api).world() == old(api).world(), final(api).state() == old(api).state(), r matches Err(e) ==> !e.is_pool_error(),
                    r matches Ok(a) ==> a == old(api).world().rtype[self.0],
        { unimplemented!() }
        /// mints exactly `amount` into a fresh bucket and raises the tracked supply by it
        #[verifier::external_body]
        pub fn mint_fungible<Y: SystemApi<E>, E: SystemApiError>(&mut self, amount: Decimal, api: &mut Y) -> (r: Result<FungibleBucket, E>)
            ensures *final(self) == *old(self), final(api).state() == old(api).state(), r matches Err(e) ==> !e.is_pool_error(),
                    r matches Ok(b) ==> ({
                        let w = old(api).world();
                        &&& !w.buckets.contains_key(b.0.0)
                        &&& amount.v() >= 0
                        &&& (w.supply[old(self).0] matches Some(s) ==> in_dec(s.v() + amount.v()))
                        &&& final(api).world() == World {
                                buckets: w.buckets.insert(b.0.0, Holding { resource: old(self).0, amount: amount }),
                                supply: w.supply.insert(old(self).0, match w.supply[old(self).0] { Some(s) => Some(Decimal::of(s.v() + amount.v())), None => None }),
                                ..w }
                    }),
        { unimplemented!() }
    }
    /// stands for the closure-free part of `r.and_then(|resource_address| ResourceManager(resource_address).resource_type(api))`
    /// (Verus does not support closures that capture `&mut api`): units @subst that call to this method.
    pub trait AndThenResourceType<E: SystemApiError>: Sized {
        fn and_then_resource_type<Y: SystemApi<E>>(self, api: &mut Y) -> Result<ResourceType, E>;
    }
    impl<E: SystemApiError> AndThenResourceType<E> for Result<ResourceAddress, E> {
        #[verifier::external_body]
        fn and_then_resource_type<Y: SystemApi<E>>(self, api: &mut Y) -> (r: Result<ResourceType, E>)
            ensures final(api).world() == old(api).world(), final(api).state() == old(api).state(),
                    self matches Err(e) ==> r == Err::<ResourceType, E>(e),
                    self matches Ok(a) ==> (r matches Ok(t) ==> t == old(api).world().rtype[a]),
                    self matches Ok(a) ==> (r matches Err(e) ==> !e.is_pool_error()),
        { unimplemented!() }
    }
    pub struct Runtime;
    impl Runtime {
        /// events do not touch the ledger
        #[verifier::external_body]
        pub fn emit_event<Y: SystemApi<E>, E: SystemApiError, T>(api: &mut Y, event: T) -> (r: Result<(), E>)
            ensures final(api).world() == old(api).world(), final(api).state() == old(api).state(), r matches Err(e) ==> !e.is_pool_error(),
        { unimplemented!() }
    }
}
