// ---- shims/maps_c06.rs : ASSUMED contracts for the indexmap operations used by fee_reserve.rs -------
// Extends the IndexMap type of shims/maps.rs (which must be included before, as must shims/decimal.rs)
// by inherent impls in this module (same crate):
//   map.entry(k).or_default()   indexmap Entry API: the returned reference is the slot of `k`, created with
//                               `V::default()` if absent; every other binding is untouched
//   map.clear()                 removes every entry
//   map.keys().cloned().collect::<Vec<K>>()   the keys in iteration (insertion) order: a duplicate-free
//                               enumeration of the domain; the adapter chain is modelled by INHERENT methods
//                               `cloned` / `collect` on the shim iterator types (`K::clone` assumed to return
//                               an equal value: StorageType is a fieldless Copy enum)
// (Self-contained on purpose: does not need shims/sets.rs and must not be included together with it.)
// `V::default()` is exposed as the uninterpreted `default_of::<V>()` with its value fixed for the two value
// types used in /repo's fee reserve: usize (0) and Decimal (Decimal::ZERO, i.e. 0 attos).
pub mod maps_c06 {
    use vstd::prelude::*;
    use super::maps::IndexMap;
    use super::decimal::Decimal;

    pub uninterp spec fn default_of<V>() -> V;
    /// `<usize as Default>::default() == 0`
    pub broadcast axiom fn ax_default_usize() ensures #[trigger] default_of::<usize>() == 0usize;
    /// `<Decimal as Default>::default() == Decimal::zero()` (radix-common decimal.rs)
    pub broadcast axiom fn ax_default_decimal() ensures #[trigger] default_of::<Decimal>().v() == 0;
    

    #[verifier::external_body]
    #[verifier::reject_recursive_types(K)]
    #[verifier::reject_recursive_types(V)]
    pub struct ImEntry<'a, K, V> { m: &'a mut IndexMap<K, V> }

    impl<'a, K, V> ImEntry<'a, K, V> {
        pub uninterp spec fn key(&self) -> K;
        pub uninterp spec fn map0(&self) -> Map<K, V>;
        /// prophesied map at the end of the borrow started by `entry`
        pub uninterp spec fn fin(&self) -> Map<K, V>;
        /// the map after the entry call, as a function of the final value behind the returned
        /// reference: exactly `key` is (re)bound, every other binding is untouched
        #[verifier::external_body]
        pub fn or_default(self) -> (r: &'a mut V) where V: Default
            ensures *r == (if self.map0().contains_key(self.key()) { self.map0()[self.key()] } else { default_of::<V>() }),
                    self.fin() == self.map0().insert(self.key(), *final(r)),
        { unimplemented!() }
    }

    impl<K, V> IndexMap<K, V> {
        #[verifier::external_body]
        pub fn entry(&mut self, key: K) -> (e: ImEntry<'_, K, V>)
            ensures e.key() == key, e.map0() == old(self)@, final(self)@ == e.fin(),
        { unimplemented!() }

        #[verifier::external_body]
        pub fn clear(&mut self) ensures final(self)@ == Map::<K, V>::empty() { unimplemented!() }

        /// the keys in iteration (insertion) order
        pub uninterp spec fn key_order(&self) -> Seq<K>;
        #[verifier::external_body]
        pub fn keys(&self) -> (r: KeysC06<'_, K>) ensures r.seq() == self.key_order() { unimplemented!() }
    }
    /// the iteration order enumerates the domain exactly once
    pub broadcast axiom fn ax_c06_key_order<K, V>(m: &IndexMap<K, V>)
        ensures (#[trigger] m.key_order()).no_duplicates(), m.key_order().to_set() == m@.dom();

    #[verifier::external_body]
    #[verifier::reject_recursive_types(K)]
    pub struct KeysC06<'a, K> { k: core::marker::PhantomData<&'a K> }
    #[verifier::external_body]
    #[verifier::reject_recursive_types(K)]
    pub struct ClonedKeysC06<K> { k: core::marker::PhantomData<K> }
    impl<'a, K> KeysC06<'a, K> {
        pub uninterp spec fn seq(&self) -> Seq<K>;
        /// `Iterator::cloned()`
        #[verifier::external_body]
        pub fn cloned(self) -> (r: ClonedKeysC06<K>) where K: Clone ensures r.seq() == self.seq() { unimplemented!() }
    }
    impl<K> ClonedKeysC06<K> {
        pub uninterp spec fn seq(&self) -> Seq<K>;
        /// `Iterator::collect::<Vec<K>>()`
        #[verifier::external_body]
        pub fn collect(self) -> (r: Vec<K>) ensures r@ == self.seq() { unimplemented!() }
    }
    pub broadcast group group_maps_c06 { ax_default_usize, ax_default_decimal, ax_c06_key_order }
}
