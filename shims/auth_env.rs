// ---- shims/auth_env.rs : environment of the authorization module (unit c08_authorization) ------
// Opaque value types mentioned by the rule types, the SBOR value container, and the ghost VALUE
// `ApiState` (what the auth zone stack shows + substate contents + open handles + error history)
// that the assumed contracts of the kernel API are written over.
// Nothing in here is under contract; every external_body / uninterp item is trusted base.
pub mod auth_env {
    use vstd::prelude::*;

    /// radix_engine::errors::RuntimeError (opaque: values are distinguishable, content irrelevant)
    #[verifier::external_body]
    pub struct RuntimeError { _x: u8 }
    #[derive(Debug)]
    pub struct DecodeError;
    #[derive(Debug)]
    pub struct EncodeError;

    /// radix-common NodeId: 30 opaque bytes
    #[derive(Clone, Copy, PartialEq, Eq)]
    pub struct NodeId(pub [u8; 30]);
    /// radix-common ResourceAddress: a NodeId with a checked entity type
    #[derive(Clone, Copy, PartialEq, Eq)]
    pub struct ResourceAddress(pub NodeId);
    /// radix-common GlobalAddress(NodeId)
    #[derive(Clone, Copy, PartialEq, Eq)]
    pub struct GlobalAddress(pub NodeId);
    impl GlobalAddress {
        pub fn as_node_id(&self) -> (r: &NodeId) ensures *r == self.0 { &self.0 }
    }
    /// radix-common BlueprintId (opaque)
    #[verifier::external_body]
    pub struct BlueprintId { _x: u8 }
    /// radix-common NonFungibleLocalId (opaque)
    #[verifier::external_body]
    pub struct NonFungibleLocalId { x: Vec<u8> }
    impl Clone for NonFungibleLocalId {
        #[verifier::external_body]
        fn clone(&self) -> (r: Self) ensures r == *self { unimplemented!() }
    }
    /// radix-common NonFungibleGlobalId(ResourceAddress, NonFungibleLocalId)
    #[derive(Clone)]
    pub struct NonFungibleGlobalId(pub ResourceAddress, pub NonFungibleLocalId);
    /// radix-common Decimal: 192-bit fixed point (opaque, Copy)
    #[derive(Clone, Copy)]
    pub struct Decimal(pub [u64; 3]);

    pub type SubstateHandle = u32;
    /// radix_engine_interface::api::LockFlags (bitflags; only `read_only()` is used)
    #[derive(Clone, Copy)]
    pub struct LockFlags { pub bits: u32 }
    impl LockFlags {
        pub fn read_only() -> (r: Self) ensures r.bits == 0 { LockFlags { bits: 0 } }
    }

    // ---- SBOR ------------------------------------------------------------------------------------
    /// radix_common::data::scrypto::ScryptoEncode; ghost: the bytes the value encodes to
    pub trait ScryptoEncode {
        spec fn sbor_bytes(&self) -> Result<Seq<u8>, EncodeError>;
    }
    /// sbor: `impl<T: Encode> Encode for &T` encodes the referent
    impl<T: ScryptoEncode> ScryptoEncode for &T {
        open spec fn sbor_bytes(&self) -> Result<Seq<u8>, EncodeError> { (**self).sbor_bytes() }
    }
    /// radix_common::data::scrypto::ScryptoDecode (marker)
    pub trait ScryptoDecode {}
    impl<T> ScryptoDecode for T {}

    /// ASSUMED: scrypto_encode is a function of the value (its ghost `sbor_bytes`)
    #[verifier::external_body]
    pub fn scrypto_encode<T: ScryptoEncode + ?Sized>(value: &T) -> (r: Result<Vec<u8>, EncodeError>)
        ensures
            r matches Ok(b) ==> value.sbor_bytes() == Ok::<Seq<u8>, EncodeError>(b@),
            r is Err ==> value.sbor_bytes() is Err,
    { unimplemented!() }

    /// radix_engine_interface::types::IndexedScryptoValue (opaque SBOR payload)
    #[verifier::external_body]
    pub struct IndexedScryptoValue { _x: Vec<u8> }
    impl IndexedScryptoValue {
        /// ghost: the result of decoding the payload as a `T`
        pub uninterp spec fn typed<T>(&self) -> Result<T, DecodeError>;
        #[verifier::external_body]
        pub fn as_typed<T: ScryptoDecode>(&self) -> (r: Result<T, DecodeError>)
            ensures r == self.typed::<T>()
        { unimplemented!() }
        #[verifier::external_body]
        pub fn from_typed<T: ScryptoEncode + ?Sized>(value: &T) -> (r: Self)
        { unimplemented!() }
    }

    // ---- ghost state of the system API -----------------------------------------------------------
    /// ghost view of a SubstateKey (Vec<u8> keys by content)
    pub ghost enum SubKey { Field(u8), Map(Seq<u8>), Sorted(Seq<u8>, Seq<u8>) }
    /// ghost substate location: node, partition number, key
    pub ghost struct Loc { pub node: NodeId, pub partition: u8, pub key: SubKey }

    /// Ghost VALUE: the part of the world the authorization functions read.
    /// * `shows_*`: what the auth zone stack reachable from an auth zone node can show -- the
    ///   meaning of `Authorization::auth_zone_stack_matches` (local implicit proofs, the global
    ///   caller's zone chain, the parent chain; proofs, simulated resources, implicit non-fungibles).
    ///   Uninterpreted: the stack walk itself is NOT under contract in this unit.
    /// * `substate`: the value a read-only open + read of a location yields (an absent key-value
    ///   entry reads as the virtual default handed to `kernel_open_substate_with_default`).
    #[verifier::external_body]
    pub ghost struct AuthEnv { _x: int }
    impl AuthEnv {
        /// a proof / implicit badge of exactly this non-fungible is visible
        pub uninterp spec fn shows_non_fungible(self, zone: NodeId, id: NonFungibleGlobalId) -> bool;
        /// a proof of this resource is visible
        pub uninterp spec fn shows_resource(self, zone: NodeId, res: ResourceAddress) -> bool;
        /// a single visible proof of this resource has at least this amount
        pub uninterp spec fn shows_amount(self, zone: NodeId, res: ResourceAddress, amount: Decimal) -> bool;
        pub uninterp spec fn substate(self, loc: Loc) -> IndexedScryptoValue;
    }
    pub ghost struct ApiState {
        pub env: AuthEnv,
        /// substate handles currently open
        pub handles: Map<SubstateHandle, Loc>,
        /// history of every error returned by a kernel / auth-zone call
        pub faults: Seq<RuntimeError>,
    }
    /// A call either succeeds and leaves the whole ghost state as it was, or fails, which appends
    /// exactly the returned error to the history (open handles are not constrained then).
    pub open spec fn ok_or_fault<T>(pre: ApiState, post: ApiState, r: Result<T, RuntimeError>) -> bool {
        match r {
            Ok(_) => post == pre,
            Err(e) => post.env == pre.env && post.faults == pre.faults.push(e),
        }
    }

    /// radix_engine_interface::api::SystemObjectApi<E> -- no method of it is called directly by the
    /// functions under contract
    pub trait SystemObjectApi<E> {}

    /// num_traits::Zero (only `is_zero` on u8 is used)
    pub trait Zero: Sized {
        spec fn is_zero_spec(&self) -> bool;
        fn is_zero(&self) -> (r: bool) ensures r == self.is_zero_spec();
    }
    impl Zero for u8 {
        open spec fn is_zero_spec(&self) -> bool { *self == 0 }
        fn is_zero(&self) -> (r: bool) { *self == 0 }
    }
}
