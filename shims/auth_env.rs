// ---- shims/auth_env.rs : environment of the authorization module (unit c08_authorization) ------
// Opaque value types mentioned by the rule types, the ghost "what the auth zone stack shows"
// value carried by the system API, and the two API traits the real code is generic over.
// Nothing in here is under contract; every external_body / uninterp item is trusted base.
pub mod auth_env {
    use vstd::prelude::*;

    pub struct RuntimeError;

    /// radix-common NodeId: 30 opaque bytes
    #[derive(Clone, Copy, PartialEq, Eq)]
    pub struct NodeId(pub [u8; 30]);
    /// radix-common ResourceAddress: a NodeId with a checked entity type (opaque here)
    #[derive(Clone, Copy, PartialEq, Eq)]
    pub struct ResourceAddress(pub NodeId);
    /// radix-common NonFungibleLocalId (opaque)
    #[verifier::external_body]
    pub struct NonFungibleLocalId { x: Vec<u8> }
    impl Clone for NonFungibleLocalId {
        #[verifier::external_body]
        fn clone(&self) -> (r: Self) ensures r == *self { unimplemented!() }
    }
    /// radix-common NonFungibleGlobalId(ResourceAddress, NonFungibleLocalId)
    #[derive(Clone)]
    pub struct NonFungibleGlobalId(pub ResourceAddress, pub NonFungibleLocalId);
    /// radix-common Decimal: 192-bit fixed point (opaque, Copy)
    #[derive(Clone, Copy)]
    pub struct Decimal(pub [u64; 3]);

    /// Ghost VALUE describing what the auth zone stack reachable from a given auth zone node can
    /// show: the meaning of `auth_zone_stack_matches` (local implicit proofs, the global caller's
    /// zone chain, the parent chain; proofs, simulated resources and implicit non-fungibles).
    /// Uninterpreted: the stack walk itself is NOT under contract in this unit.
    #[verifier::external_body]
    pub ghost struct AuthEnv { _x: int }
    impl AuthEnv {
        /// a proof / implicit badge of exactly this non-fungible is visible
        pub uninterp spec fn shows_non_fungible(self, zone: NodeId, id: NonFungibleGlobalId) -> bool;
        /// a proof of this resource is visible
        pub uninterp spec fn shows_resource(self, zone: NodeId, res: ResourceAddress) -> bool;
        /// a single visible proof of this resource has at least this amount
        pub uninterp spec fn shows_amount(self, zone: NodeId, res: ResourceAddress, amount: Decimal) -> bool;
    }

    /// radix_engine_interface::api::SystemObjectApi<E> -- no method of it is called directly by the
    /// functions under contract
    pub trait SystemObjectApi<E> {}

    /// radix_engine::kernel::kernel_api::KernelSubstateApi<L>; carries the ghost environment
    pub trait KernelSubstateApi<L> {
        spec fn env(&self) -> AuthEnv;
    }

    /// num_traits::Zero (only `is_zero` on u8 is used)
    pub trait Zero: Sized {
        spec fn is_zero_spec(&self) -> bool;
        fn is_zero(&self) -> (r: bool) ensures r == self.is_zero_spec();
    }
    impl Zero for u8 {
        open spec fn is_zero_spec(&self) -> bool { *self == 0 }
        fn is_zero(&self) -> (r: bool) { *self == 0 }
    }
}
