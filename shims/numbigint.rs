// ---- shims/numbigint.rs : ASSUMED contracts for `num_bigint::BigInt` (hand-written) ------------
// Only what Decimal / PreciseDecimal root functions use: conversion from/to the bnum wrappers
// (radix-common/src/math/bnum_integer/convert.rs), `*`, `pow`, `cbrt`, `nth_root`.
// BigInt is an unbounded integer: `v()` is its mathematical value, no operation overflows.
// Roots follow num-integer's `Roots` for signed integers: the principal root TRUNCATED TOWARD ZERO
// (`BigInt::from_biguint(self.sign, self.data.nth_root(n))`); an even root of a negative number and
// a zero degree panic in the real crate, so they are preconditions here.
// Requires shims/bigint.rs to be included before (uses ipow / is_floor_root / I192 / I256).
pub mod numbigint {
    use vstd::prelude::*;
    use super::bigint::*;
    use core::ops::Mul;

    /// root of degree n truncated toward zero: floor root of |x| carrying the sign of x
    pub open spec fn is_trunc_root(x: int, n: nat, r: int) -> bool {
        if x >= 0 { is_floor_root(x, n, r) } else { is_floor_root(-x, n, -r) }
    }

    #[derive(Debug)]
    pub struct ParseI192Error;
    #[derive(Debug)]
    pub struct ParseI256Error;

    #[verifier::external_body]
    pub struct BigInt { _p: () }
    impl BigInt {
        pub uninterp spec fn v(self) -> int;
        pub uninterp spec fn of(i: int) -> BigInt;
        #[verifier::external_body]
        pub fn pow(&self, e: u32) -> (r: BigInt) ensures r.v() == ipow(self.v(), e as nat) { unimplemented!() }
        #[verifier::external_body]
        pub fn cbrt(&self) -> (r: BigInt) ensures is_trunc_root(self.v(), 3, r.v()) { unimplemented!() }
        #[verifier::external_body]
        pub fn nth_root(&self, n: u32) -> (r: BigInt)
            requires n > 0, self.v() >= 0 || n % 2 == 1
            ensures is_trunc_root(self.v(), n as nat, r.v())
        { unimplemented!() }
    }
    pub broadcast axiom fn ax_bigint_of(i: int) ensures #[trigger] BigInt::of(i).v() == i;

    impl vstd::std_specs::ops::MulSpecImpl<BigInt> for BigInt {
        open spec fn obeys_mul_spec() -> bool { true }
        open spec fn mul_req(self, o: BigInt) -> bool { true }
        open spec fn mul_spec(self, o: BigInt) -> BigInt { BigInt::of(self.v() * o.v()) }
    }
    impl Mul<BigInt> for BigInt { type Output = BigInt; #[verifier::external_body] fn mul(self, o: BigInt) -> BigInt { unimplemented!() } }

    impl From<I192> for BigInt { #[verifier::external_body] fn from(x: I192) -> (r: BigInt) ensures r.v() == x.v() { unimplemented!() } }
    impl vstd::std_specs::convert::FromSpecImpl<I192> for BigInt {
        open spec fn obeys_from_spec() -> bool { true }
        open spec fn from_spec(x: I192) -> BigInt { BigInt::of(x.v()) }
    }
    impl From<I256> for BigInt { #[verifier::external_body] fn from(x: I256) -> (r: BigInt) ensures r.v() == x.v() { unimplemented!() } }
    impl vstd::std_specs::convert::FromSpecImpl<I256> for BigInt {
        open spec fn obeys_from_spec() -> bool { true }
        open spec fn from_spec(x: I256) -> BigInt { BigInt::of(x.v()) }
    }
    impl TryFrom<BigInt> for I192 {
        type Error = ParseI192Error;
        #[verifier::external_body]
        fn try_from(x: BigInt) -> (r: Result<I192, ParseI192Error>)
            // (whether the most negative value -2^191 itself is accepted is left open: not needed, not assumed)
            ensures r matches Ok(y) ==> y.v() == x.v(), r is Ok ==> in_i192(x.v()), i192_min() < x.v() <= i192_max() ==> r is Ok
        { unimplemented!() }
    }
    impl TryFrom<BigInt> for I256 {
        type Error = ParseI256Error;
        #[verifier::external_body]
        fn try_from(x: BigInt) -> (r: Result<I256, ParseI256Error>)
            ensures r matches Ok(y) ==> y.v() == x.v(), r is Ok ==> in_i256(x.v()), i256_min() < x.v() <= i256_max() ==> r is Ok
        { unimplemented!() }
    }
}
