// ---- shims/c35_ordered_indexmap.rs : ASSUMED contracts for indexmap::IndexMap as an ORDERED map, and
// for the opaque `impl ExactSizeIterator` values the intent-tree traits hand out ------------------------
// Every item here is `external_body`: the real indexmap crate is trusted to meet its documented behaviour:
//   * the entries are kept in insertion order; `insert` of a NEW key appends at the end and returns None,
//     `insert` of a PRESENT key replaces the value in place (position kept) and returns the old value;
//   * `get(&k)` / `get_mut(&k)` borrow the value stored under `k` (keys compared with `Eq`, which for the derived
//     impls used here is structural equality); nothing else changes;
//   * `get_index(i)` / `get_index_mut(i)` address the i-th entry in insertion order;
//   * `iter()` yields every entry once, in insertion order.
// The model is the entry sequence `entries(): Seq<(K, V)>`. That the keys are pairwise distinct is NOT
// assumed here (clients prove it from `insert` returning None); `key_index` is then the unique position.
pub mod omap {
    use vstd::prelude::*;

    #[verifier::external_body]
    #[verifier::reject_recursive_types(K)]
    #[verifier::reject_recursive_types(V)]
    pub struct IndexMap<K, V> { k: core::marker::PhantomData<(K, V)> }

    pub open spec fn has_key<K, V>(s: Seq<(K, V)>, k: K) -> bool {
        exists|i: int| 0 <= i < s.len() && (#[trigger] s[i]).0 == k
    }
    /// a position holding key `k` (THE position when keys are distinct)
    pub open spec fn key_index<K, V>(s: Seq<(K, V)>, k: K) -> int {
        choose|i: int| 0 <= i < s.len() && (#[trigger] s[i]).0 == k
    }

    impl<K, V> IndexMap<K, V> {
        /// the (key, value) pairs in insertion order
        pub uninterp spec fn entries(&self) -> Seq<(K, V)>;

        #[verifier::external_body]
        pub fn insert(&mut self, key: K, value: V) -> (r: Option<V>)
            ensures
                has_key(old(self).entries(), key) ==>
                    r == Some(old(self).entries()[key_index(old(self).entries(), key)].1)
                    && final(self).entries() == old(self).entries().update(key_index(old(self).entries(), key), (key, value)),
                !has_key(old(self).entries(), key) ==>
                    r is None && final(self).entries() == old(self).entries().push((key, value)),
        { unimplemented!() }

        #[verifier::external_body]
        pub fn get_mut(&mut self, key: &K) -> (r: Option<&mut V>)
            ensures match r {
                Some(v) => has_key(old(self).entries(), *key)
                    && *v == old(self).entries()[key_index(old(self).entries(), *key)].1
                    && final(self).entries() == old(self).entries().update(key_index(old(self).entries(), *key), (*key, *final(v))),
                None => !has_key(old(self).entries(), *key) && final(self).entries() == old(self).entries(),
            }
        { unimplemented!() }

        #[verifier::external_body]
        pub fn get(&self, key: &K) -> (r: Option<&V>)
            ensures match r {
                Some(v) => has_key(self.entries(), *key) && *v == self.entries()[key_index(self.entries(), *key)].1,
                None => !has_key(self.entries(), *key),
            }
        { unimplemented!() }

        #[verifier::external_body]
        pub fn get_index(&self, index: usize) -> (r: Option<(&K, &V)>)
            ensures match r {
                Some(kv) => index < self.entries().len()
                    && *kv.0 == self.entries()[index as int].0 && *kv.1 == self.entries()[index as int].1,
                None => index >= self.entries().len(),
            }
        { unimplemented!() }

        #[verifier::external_body]
        pub fn get_index_mut(&mut self, index: usize) -> (r: Option<(&K, &mut V)>)
            ensures match r {
                Some(kv) => index < old(self).entries().len()
                    && *kv.0 == old(self).entries()[index as int].0 && *kv.1 == old(self).entries()[index as int].1
                    && final(self).entries() == old(self).entries().update(index as int, (old(self).entries()[index as int].0, *final(kv.1))),
                None => index >= old(self).entries().len() && final(self).entries() == old(self).entries(),
            }
        { unimplemented!() }

        #[verifier::external_body]
        pub fn iter(&self) -> (r: MapIter<'_, K, V>)
            ensures r.rest().len() == self.entries().len(),
                    forall|i: int| 0 <= i < self.entries().len() ==>
                        *(#[trigger] r.rest()[i]).0 == self.entries()[i].0 && *r.rest()[i].1 == self.entries()[i].1,
        { unimplemented!() }
    }
    /// `for (k, v) in &map` is `map.iter()` (indexmap: `impl IntoIterator for &IndexMap`)
    impl<'a, K, V> IntoIterator for &'a IndexMap<K, V> {
        type Item = (&'a K, &'a V);
        type IntoIter = MapIter<'a, K, V>;
        #[verifier::external_body]
        fn into_iter(self) -> (r: MapIter<'a, K, V>)
            ensures r.rest().len() == self.entries().len(),
                    forall|i: int| 0 <= i < self.entries().len() ==>
                        *(#[trigger] r.rest()[i]).0 == self.entries()[i].0 && *r.rest()[i].1 == self.entries()[i].1,
        { unimplemented!() }
    }
    /// radix-rust `index_map_with_capacity(n)`: an empty map (the capacity is only an allocation hint)
    #[verifier::external_body]
    pub fn index_map_with_capacity<K, V>(n: usize) -> (r: IndexMap<K, V>)
        ensures r.entries() == Seq::<(K, V)>::empty()
    { unimplemented!() }
    impl<K, V> Default for IndexMap<K, V> {
        #[verifier::external_body]
        fn default() -> (r: Self) ensures r.entries() == Seq::<(K, V)>::empty() { unimplemented!() }
    }

    #[verifier::external_body]
    #[verifier::reject_recursive_types(K)]
    #[verifier::reject_recursive_types(V)]
    pub struct MapIter<'a, K, V> { k: core::marker::PhantomData<&'a (K, V)> }
    impl<'a, K, V> MapIter<'a, K, V> { pub uninterp spec fn rest(&self) -> Seq<(&'a K, &'a V)>; }
    impl<'a, K, V> Iterator for MapIter<'a, K, V> {
        type Item = (&'a K, &'a V);
        #[verifier::external_body]
        fn next(&mut self) -> (r: Option<(&'a K, &'a V)>) { unimplemented!() }
    }
    impl<'a, K, V> vstd::std_specs::iter::IteratorSpecImpl for MapIter<'a, K, V> {
        open spec fn obeys_prophetic_iter_laws(&self) -> bool { true }
        open spec fn remaining(&self) -> Seq<(&'a K, &'a V)> { self.rest() }
        open spec fn will_return_none(&self) -> bool { true }
        open spec fn peek(&self, index: int) -> Option<(&'a K, &'a V)> { if 0 <= index < self.rest().len() { Some(self.rest()[index]) } else { None } }
        open spec fn decrease(&self) -> Option<nat> { Some(self.rest().len()) }
    }

    // ---- stand-ins for `impl ExactSizeIterator<Item = &'a T>` / `<Item = T>` ----------------------------
    // ASSUMED (Iterator / ExactSizeIterator docs): the iterator yields its items once each in order,
    // `len()` is the number of items still to come, `enumerate()` pairs the items with 0, 1, 2, ...
    #[verifier::external_body]
    #[verifier::reject_recursive_types(T)]
    pub struct RefIter<'a, T> { k: core::marker::PhantomData<&'a T> }
    impl<'a, T> RefIter<'a, T> {
        pub uninterp spec fn rest(&self) -> Seq<&'a T>;
        #[verifier::external_body]
        pub fn enumerate(self) -> (r: RefEnumerate<'a, T>)
            ensures r.rest().len() == self.rest().len(),
                forall|i: int| 0 <= i < self.rest().len() ==> (#[trigger] r.rest()[i]).0 == i && r.rest()[i].1 == self.rest()[i],
        { unimplemented!() }
        #[verifier::external_body]
        pub fn len(&self) -> (r: usize) ensures r == self.rest().len() { unimplemented!() }
    }
    impl<'a, T> Iterator for RefIter<'a, T> {
        type Item = &'a T;
        #[verifier::external_body]
        fn next(&mut self) -> (r: Option<&'a T>) { unimplemented!() }
    }
    impl<'a, T> vstd::std_specs::iter::IteratorSpecImpl for RefIter<'a, T> {
        open spec fn obeys_prophetic_iter_laws(&self) -> bool { true }
        open spec fn remaining(&self) -> Seq<&'a T> { self.rest() }
        open spec fn will_return_none(&self) -> bool { true }
        open spec fn peek(&self, index: int) -> Option<&'a T> { if 0 <= index < self.rest().len() { Some(self.rest()[index]) } else { None } }
        open spec fn decrease(&self) -> Option<nat> { Some(self.rest().len()) }
    }

    #[verifier::external_body]
    #[verifier::reject_recursive_types(T)]
    pub struct RefEnumerate<'a, T> { k: core::marker::PhantomData<&'a T> }
    impl<'a, T> RefEnumerate<'a, T> { pub uninterp spec fn rest(&self) -> Seq<(usize, &'a T)>; }
    impl<'a, T> Iterator for RefEnumerate<'a, T> {
        type Item = (usize, &'a T);
        #[verifier::external_body]
        fn next(&mut self) -> (r: Option<(usize, &'a T)>) { unimplemented!() }
    }
    impl<'a, T> vstd::std_specs::iter::IteratorSpecImpl for RefEnumerate<'a, T> {
        open spec fn obeys_prophetic_iter_laws(&self) -> bool { true }
        open spec fn remaining(&self) -> Seq<(usize, &'a T)> { self.rest() }
        open spec fn will_return_none(&self) -> bool { true }
        open spec fn peek(&self, index: int) -> Option<(usize, &'a T)> { if 0 <= index < self.rest().len() { Some(self.rest()[index]) } else { None } }
        open spec fn decrease(&self) -> Option<nat> { Some(self.rest().len()) }
    }

    #[verifier::external_body]
    #[verifier::reject_recursive_types(T)]
    pub struct ValIter<'a, T> { k: core::marker::PhantomData<&'a T> }
    impl<'a, T> ValIter<'a, T> {
        pub uninterp spec fn rest(&self) -> Seq<T>;
        #[verifier::external_body]
        pub fn len(&self) -> (r: usize) ensures r == self.rest().len() { unimplemented!() }
    }
    impl<'a, T> Iterator for ValIter<'a, T> {
        type Item = T;
        #[verifier::external_body]
        fn next(&mut self) -> (r: Option<T>) { unimplemented!() }
    }
    impl<'a, T> vstd::std_specs::iter::IteratorSpecImpl for ValIter<'a, T> {
        open spec fn obeys_prophetic_iter_laws(&self) -> bool { true }
        open spec fn remaining(&self) -> Seq<T> { self.rest() }
        open spec fn will_return_none(&self) -> bool { true }
        open spec fn peek(&self, index: int) -> Option<T> { if 0 <= index < self.rest().len() { Some(self.rest()[index]) } else { None } }
        open spec fn decrease(&self) -> Option<nat> { Some(self.rest().len()) }
    }
}
