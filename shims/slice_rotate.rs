// ---- shims/slice_rotate.rs : ASSUMED contract for `<[T]>::rotate_left` (core::slice) ------------
// std doc: "Rotates the slice in-place such that the first `mid` elements of the slice move to the
// end while the last `self.len() - mid` elements move to the front. [...] Panics if `mid` is
// greater than the length of the slice."
pub mod slice_rotate {
    use vstd::prelude::*;
    pub assume_specification<T> [<[T]>::rotate_left] (s: &mut [T], mid: usize)
        requires mid <= old(s)@.len()
        ensures final(s)@ == old(s)@.subrange(mid as int, old(s)@.len() as int) + old(s)@.subrange(0, mid as int);
}
