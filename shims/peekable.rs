// ---- shims/peekable.rs : ASSUMED model of core::iter::{Iterator, Peekable} ----------------------
// The real code wraps two arbitrary iterators in `core::iter::Peekable`. Here an iterator is only a
// type carrying its `Item`; a `Peekable<I>` is a cursor over a FINITE sequence `rest()` of the items
// that are still to come (trusted: the wrapped iterators terminate and `peek` does not consume).
// `next` / `peek` follow the documented behaviour of core::iter::Peekable.
pub mod peekable {
    use vstd::prelude::*;

    /// stand-in for core::iter::Iterator (only what the extracted code mentions)
    pub trait Iterator {
        type Item;
        fn next(&mut self) -> Option<Self::Item>;
    }

    /// an arbitrary iterator yielding items of type `T` (the unit instantiates the real code's
    /// `U: Iterator<Item = ..>` / `O: Iterator<Item = ..>` parameters with it); never called directly,
    /// the extracted code only goes through `Peekable`
    #[verifier::external_body]
    #[verifier::reject_recursive_types(T)]
    pub struct SeqIter<T> { v: Vec<T> }
    impl<T> Iterator for SeqIter<T> {
        type Item = T;
        #[verifier::external_body]
        fn next(&mut self) -> Option<T> { unimplemented!() }
    }

    #[verifier::external_body]
    #[verifier::reject_recursive_types(I)]
    pub struct Peekable<I: Iterator> { i: I }

    impl<I: Iterator> Peekable<I> {
        /// the items not yet consumed, in iteration order
        pub uninterp spec fn rest(&self) -> Seq<I::Item>;

        #[verifier::external_body]
        pub fn next(&mut self) -> (r: Option<I::Item>)
            ensures
                old(self).rest().len() == 0 ==> r is None && final(self).rest() == old(self).rest(),
                old(self).rest().len() > 0 ==> r == Some(old(self).rest()[0])
                    && final(self).rest() == old(self).rest().subrange(1, old(self).rest().len() as int),
        { unimplemented!() }

        #[verifier::external_body]
        pub fn peek(&mut self) -> (r: Option<&I::Item>)
            ensures
                final(self).rest() == old(self).rest(),
                old(self).rest().len() == 0 ==> r is None,
                old(self).rest().len() > 0 ==> r == Some(&old(self).rest()[0]),
        { unimplemented!() }
    }
}
