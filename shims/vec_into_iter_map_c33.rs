// ---- shims/vec_into_iter_map_c33.rs : `vec.into_iter().map(f).collect::<Result<Vec<_>, _>>()` -------
// TRUSTED BASE (std semantics; nothing here is under contract).  Iterator adapters are outside Verus, and
// `Vec<T>::into_iter` is a trait method of a std type, which an inherent shim method cannot shadow; units
// therefore @subst `.into_iter()` on the Vec to `.into_iter_shim()` (same precedent: shims/pool_iter_c41.rs)
// and keep `.map(closure).collect::<Result<_, _>>()` verbatim against the INHERENT methods below.
// ASSUMED (std docs):
//   * `<Vec<T> as IntoIterator>::into_iter` yields the elements in order;
//   * `Iterator::map(f)` is lazy; the closure is run by the consumer, once per item pulled, in order
//     (its precondition must hold for every item);
//   * `collect::<Result<Vec<U>, E>>()` (core: `impl FromIterator<Result<A, E>> for Result<V, E>`) pulls items
//     front to back: `Ok(v)` iff `f` returned `Ok` for every item, `v` holding the payloads in order
//     (same length as the source); otherwise the FIRST `Err` in order, every item in front of it having been
//     mapped to `Ok`, and no item behind it being evaluated.
pub mod vec_into_iter_map {
    use vstd::prelude::*;

    pub trait VecIntoIterShim<T> { fn into_iter_shim(self) -> OwnedIter<T>; }
    impl<T> VecIntoIterShim<T> for Vec<T> {
        #[verifier::external_body]
        fn into_iter_shim(self) -> (r: OwnedIter<T>) ensures r.seq() == self@ { unimplemented!() }
    }

    /// `alloc::vec::IntoIter<T>`: the items still to come
    #[verifier::external_body]
    #[verifier::reject_recursive_types(T)]
    pub struct OwnedIter<T> { k: core::marker::PhantomData<T> }
    impl<T> OwnedIter<T> {
        pub uninterp spec fn seq(&self) -> Seq<T>;
        /// `Iterator::map(f)` (lazy: nothing is evaluated yet)
        #[verifier::external_body]
        pub fn map<B, F: FnMut(T) -> B>(self, f: F) -> (r: LazyMap<T, F>)
            requires forall|i: int| 0 <= i < self.seq().len() ==> call_requires(f, (#[trigger] self.seq()[i],)),
            ensures r.src() == self.seq(), r.f() == f,
        { unimplemented!() }
    }

    /// `core::iter::Map<alloc::vec::IntoIter<T>, F>`
    #[verifier::external_body]
    #[verifier::reject_recursive_types(T)]
    #[verifier::reject_recursive_types(F)]
    pub struct LazyMap<T, F> { k: core::marker::PhantomData<(T, F)> }
    impl<T, F> LazyMap<T, F> {
        pub uninterp spec fn src(&self) -> Seq<T>;
        pub uninterp spec fn f(&self) -> F;
    }
    /// what `collect()` builds when `f` is run over `src` front to back
    pub trait FromMapped<T, F>: Sized { spec fn collected_from(&self, src: Seq<T>, f: F) -> bool; }
    impl<T, U, E, F: FnMut(T) -> Result<U, E>> FromMapped<T, F> for Result<Vec<U>, E> {
        open spec fn collected_from(&self, src: Seq<T>, f: F) -> bool {
            match *self {
                Ok(v) => v@.len() == src.len()
                    && forall|i: int| #![trigger src[i]] #![trigger v@[i]] 0 <= i < src.len() ==> call_ensures(f, (src[i],), Ok::<U, E>(v@[i])),
                Err(e) => exists|j: int| 0 <= j < src.len() && call_ensures(f, (#[trigger] src[j],), Err::<U, E>(e))
                    && (forall|i: int| 0 <= i < j ==> exists|u: U| call_ensures(f, (#[trigger] src[i],), Ok::<U, E>(u))),
            }
        }
    }
    impl<T, B, F: FnMut(T) -> B> LazyMap<T, F> {
        /// `Iterator::collect()`
        #[verifier::external_body]
        pub fn collect<C: FromMapped<T, F>>(self) -> (r: C) ensures r.collected_from(self.src(), self.f()) { unimplemented!() }
    }
}
