// ---- shims/decimal_attos.rs : ASSUMED contracts for the raw-integer side of radix-common Decimal --
// Extends shims/decimal.rs (which must be included as well; it is generated and frozen) with what
// `check_fungible_amount` needs: `Decimal::attos()` (the inner I192 = the integer view `v()`), an
// opaque I192 with `From<i128>` / `From<i32>` / `==` / `%`, and `i128::pow`.
// Real implementations: radix-common/src/math/decimal.rs (`pub fn attos(&self) -> I192 { self.0 }`),
// radix-common/src/math/bnum_integer.rs (+ bnum): `%` is the truncated remainder (sign of the
// dividend, as for Rust primitives) and panics on a zero divisor; conversions from narrower
// primitives are exact.  `i128::pow` panics on overflow in debug builds (stated as precondition).
pub mod decimal_attos {
    use vstd::prelude::*;
    use vstd::arithmetic::power::pow;
    use core::ops::Rem;
    use super::decimal::*;
    use super::decimal::Decimal;

    #[verifier::external_body]
    #[derive(Clone, Copy)]
    pub struct I192 { d: [u64; 3] }
    impl I192 {
        pub uninterp spec fn v(self) -> int;
        pub uninterp spec fn of(i: int) -> I192;
    }
    /// I192 has the same 192-bit range as Decimal's attos
    pub broadcast axiom fn ax_i192_range(x: I192) ensures in_dec(#[trigger] x.v());
    pub broadcast axiom fn ax_i192_of(i: int) requires in_dec(i) ensures #[trigger] I192::of(i).v() == i;
    pub broadcast axiom fn ax_i192_ext(a: I192, b: I192) ensures (#[trigger] a.v() == #[trigger] b.v()) ==> a == b;
    pub broadcast group group_i192 { ax_i192_range, ax_i192_of, ax_i192_ext }

    /// truncated remainder: a - b * trunc(a / b)
    pub open spec fn trem(a: int, b: int) -> int { a - b * tdiv(a, b) }

    impl Decimal {
        #[verifier::external_body]
        pub fn attos(&self) -> (r: I192) ensures r.v() == self.v() { unimplemented!() }
    }
    impl From<i128> for I192 { #[verifier::external_body] fn from(x: i128) -> (r: I192) ensures r.v() == x as int { unimplemented!() } }
    impl From<i32> for I192 { #[verifier::external_body] fn from(x: i32) -> (r: I192) ensures r.v() == x as int { unimplemented!() } }

    impl PartialEq for I192 { #[verifier::external_body] fn eq(&self, o: &I192) -> (r: bool) ensures r == (self.v() == o.v()) { unimplemented!() } }
    impl Eq for I192 {}
    impl vstd::std_specs::cmp::PartialEqSpecImpl for I192 {
        open spec fn obeys_eq_spec() -> bool { true }
        open spec fn eq_spec(&self, o: &I192) -> bool { self.v() == o.v() }
    }
    impl vstd::std_specs::ops::RemSpecImpl<I192> for I192 {
        open spec fn obeys_rem_spec() -> bool { true }
        open spec fn rem_req(self, o: I192) -> bool { o.v() != 0 }
        open spec fn rem_spec(self, o: I192) -> I192 { I192::of(trem(self.v(), o.v())) }
    }
    impl Rem<I192> for I192 { type Output = I192; #[verifier::external_body] fn rem(self, o: I192) -> I192 { unimplemented!() } }

    pub assume_specification[i128::pow](b: i128, e: u32) -> (r: i128)
        requires i128::MIN <= pow(b as int, e as nat) <= i128::MAX,
        ensures r == pow(b as int, e as nat);
}
