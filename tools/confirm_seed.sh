#!/bin/bash
# usage: confirm_seed.sh <worktree> <seed-dir-name> "<demo_cmd>" "<existing_tests_cmd>"
# Confirms independently: (1) with patch: existing tests pass, demo FAILS; (2) without patch: demo PASSES.
WT=$1; NAME=$2; DEMO=$3; EXIST=$4
OUT=/verif/seeded/$NAME
mkdir -p $OUT
cp $WT/SEED/patch.diff $WT/SEED/demo.diff $WT/SEED/meta.json $OUT/ 2>/dev/null
LOG=$OUT/confirm.log
: > $LOG
cd $WT || exit 9
export CARGO_TARGET_DIR=$WT/target CARGO_NET_OFFLINE=true
git checkout -- . ; git apply SEED/demo.diff || { echo "demo.diff does not apply" >> $LOG; exit 1; }
echo "== demo WITHOUT patch (must pass): $DEMO" >> $LOG
( eval "$DEMO" ) > $OUT/demo_without.txt 2>&1; R0=$?
echo "exit=$R0" >> $LOG; grep -E "^test result|panicked|FAILED|error(\[|:)" $OUT/demo_without.txt | head -5 >> $LOG
git apply SEED/patch.diff || { echo "patch.diff does not apply" >> $LOG; exit 1; }
echo "== demo WITH patch (must fail): $DEMO" >> $LOG
( eval "$DEMO" ) > $OUT/demo_with.txt 2>&1; R1=$?
echo "exit=$R1" >> $LOG; grep -E "^test result|panicked|FAILED|error(\[|:)" $OUT/demo_with.txt | head -5 >> $LOG
echo "== existing tests WITH patch (must pass): $EXIST" >> $LOG
git apply -R SEED/demo.diff
( eval "$EXIST" ) > $OUT/existing_with.txt 2>&1; R2=$?
echo "exit=$R2" >> $LOG; grep -E "^test result|FAILED|error(\[|:)" $OUT/existing_with.txt | head -8 >> $LOG
git checkout -- . ; git clean -fdq -e SEED -e target
rm -f $OUT/demo_without.txt $OUT/existing_with.txt
tail -c 3000 $OUT/demo_with.txt > $OUT/demo_with_tail.txt; rm -f $OUT/demo_with.txt
if [ $R0 -eq 0 ] && [ $R1 -ne 0 ] && [ $R2 -eq 0 ]; then echo "CONFIRMED" >> $LOG; else echo "NOT-CONFIRMED r0=$R0 r1=$R1 r2=$R2" >> $LOG; fi
rm -rf $WT/target
