#!/usr/bin/env python3
"""rsx.py -- mechanical Rust item extractor + contract weaver (DESIGN.md 3.1).

The verified text must be the code that runs: every run re-reads /repo, cuts the items named by
selectors out of the current working tree, applies only the catalogued rewrites (R1..R12, RX) and
inserts ghost text (contracts, invariants, proof blocks) at structural anchors.  Every edit is
recorded as a *marker* (`/*<k*/ new /*>*/` + side table k -> (rule, original text)); the identity
self-check inverts all markers and compares the token stream with the item in /repo.
"""
import re, hashlib, json, sys

# ------------------------------------------------------------------------------------------------
# Tokeniser
# ------------------------------------------------------------------------------------------------
class Tok:
    __slots__ = ("k", "s", "a", "b")
    def __init__(self, k, s, a, b):
        self.k, self.s, self.a, self.b = k, s, a, b
    def __repr__(self):
        return "%s(%r)" % (self.k, self.s)

_IDENT = re.compile(r"[A-Za-z_][A-Za-z0-9_]*")
_NUM = re.compile(r"[0-9][0-9A-Za-z_]*(\.[0-9][0-9A-Za-z_]*)?")
MULTI = ("->", "=>", "::")

def tokenize(src):
    """Token kinds: ws, lc (line comment), bc (block comment), str, chr, life, id, num, p."""
    toks = []
    i, n = 0, len(src)
    while i < n:
        c = src[i]
        if c.isspace():
            j = i
            while j < n and src[j].isspace():
                j += 1
            toks.append(Tok("ws", src[i:j], i, j)); i = j; continue
        if src.startswith("//", i):
            j = src.find("\n", i)
            j = n if j < 0 else j
            toks.append(Tok("lc", src[i:j], i, j)); i = j; continue
        if src.startswith("/*", i):
            d, j = 1, i + 2
            while j < n and d > 0:
                if src.startswith("/*", j): d += 1; j += 2
                elif src.startswith("*/", j): d -= 1; j += 2
                else: j += 1
            toks.append(Tok("bc", src[i:j], i, j)); i = j; continue
        # raw strings r"..", r#".."#, br#".."#
        m = re.match(r"b?r(#*)\"", src[i:i + 40])
        if m:
            hashes = m.group(1)
            end = src.find('"' + hashes, i + len(m.group(0)))
            j = end + 1 + len(hashes)
            toks.append(Tok("str", src[i:j], i, j)); i = j; continue
        if c == '"' or (c == "b" and src.startswith('b"', i)):
            j = i + (2 if c == "b" else 1)
            while j < n and src[j] != '"':
                j += 2 if src[j] == "\\" else 1
            j += 1
            toks.append(Tok("str", src[i:j], i, j)); i = j; continue
        if c == "'" or (c == "b" and src.startswith("b'", i)):
            st = i + (2 if c == "b" else 1)
            # char literal or lifetime?
            if st < n and src[st] == "\\":
                j = st + 2
                while j < n and src[j] != "'":
                    j += 1
                j += 1
                toks.append(Tok("chr", src[i:j], i, j)); i = j; continue
            if st + 1 < n and src[st + 1] == "'":
                j = st + 2
                toks.append(Tok("chr", src[i:j], i, j)); i = j; continue
            # multi-byte char literal like 'é'
            m2 = re.match(r"'[^'\\\n]'", src[i:i + 8])
            if m2 and c == "'":
                j = i + len(m2.group(0))
                toks.append(Tok("chr", src[i:j], i, j)); i = j; continue
            m3 = _IDENT.match(src, st)
            if m3 and c == "'":
                j = m3.end()
                toks.append(Tok("life", src[i:j], i, j)); i = j; continue
            toks.append(Tok("p", c, i, i + 1)); i += 1; continue
        m = _IDENT.match(src, i)
        if m:
            j = m.end()
            toks.append(Tok("id", src[i:j], i, j)); i = j; continue
        m = _NUM.match(src, i)
        if m:
            j = m.end()
            # do not swallow `..` of a range (1..2) or a method call on an int (1.max(2))
            t = src[i:j]
            if "." in t:
                dot = t.index(".")
                if not t[dot + 1].isdigit():
                    j = i + dot
            toks.append(Tok("num", src[i:j], i, j)); i = j; continue
        for mp in MULTI:
            if src.startswith(mp, i):
                toks.append(Tok("p", mp, i, i + len(mp))); i += len(mp); break
        else:
            toks.append(Tok("p", c, i, i + 1)); i += 1
    return toks

def sig(toks):
    """significant tokens (no whitespace / comments)"""
    return [t for t in toks if t.k not in ("ws", "lc", "bc")]

def sigtext(text):
    return [t.s for t in sig(tokenize(text))]

OPEN = {"(": ")", "[": "]", "{": "}"}
CLOSE = {")": "(", "]": "[", "}": "{"}

def match_close(st, i):
    """st: list of significant tokens, st[i] is an opener; returns index of matching closer."""
    d = 0
    o = st[i].s
    c = OPEN[o]
    j = i
    while j < len(st):
        if st[j].k == "p":
            if st[j].s == o: d += 1
            elif st[j].s == c:
                d -= 1
                if d == 0:
                    return j
        j += 1
    raise ValueError("unbalanced %r at byte %d" % (o, st[i].a))

# ------------------------------------------------------------------------------------------------
# Item finder
# ------------------------------------------------------------------------------------------------
class Item:
    def __init__(self, src, path, kind, name, a, b, hdr_b, containers):
        self.src, self.path, self.kind, self.name = src, path, kind, name
        self.a, self.b = a, b              # byte span in src (including attributes)
        self.hdr_b = hdr_b                 # byte offset of the body `{` (or None)
        self.containers = containers       # normalised headers of enclosing blocks
    @property
    def text(self):
        return self.src[self.a:self.b]
    def lines(self):
        return (self.src.count("\n", 0, self.a) + 1, self.src.count("\n", 0, self.b) + 1)
    def sha(self):
        return hashlib.sha256(self.text.encode()).hexdigest()

ITEM_KW = ("fn", "struct", "enum", "const", "static", "type", "trait", "impl", "mod", "macro_rules", "union")

def norm(s):
    return " ".join(sigtext(s))

def index_items(src, path):
    """Walk the file; return list of Item for every fn/struct/enum/const/type/trait/impl/macro."""
    st = sig(tokenize(src))
    items = []

    def walk(lo, hi, containers, in_test):
        i = lo
        while i < hi:
            # item start = i ; collect attributes
            start = i
            attrs_test = False
            while i < hi and st[i].s == "#":
                j = i + 1
                if st[j].s == "!":
                    j += 1
                k = match_close(st, j)
                atxt = "".join(t.s for t in st[j:k + 1])
                if "cfg(test)" in atxt:
                    attrs_test = True
                i = k + 1
            # header: scan until `{` or `;` at depth 0 (parens/brackets)
            j = i
            kw = None; name = None
            while j < hi:
                t = st[j]
                if t.k == "p" and t.s in "([":
                    j = match_close(st, j) + 1; continue
                if t.k == "p" and t.s in ("{", ";"):
                    break
                if t.k == "p" and t.s == "}":
                    break
                if kw is None and t.k == "id" and t.s in ITEM_KW:
                    # `const fn` -> fn ; `impl` inside a `fn` header (impl Trait) is not reached
                    if t.s == "const" and j + 1 < hi and st[j + 1].s in ("fn", "unsafe"):
                        j += 1; continue
                    kw = t.s
                    if kw == "macro_rules":
                        name = st[j + 2].s if st[j + 1].s == "!" else None
                    elif kw == "impl":
                        name = None
                    else:
                        name = st[j + 1].s if j + 1 < hi else None
                j += 1
            if j >= hi:
                break
            t = st[j]
            if t.s == "}":
                i = j + 1; continue
            if t.s == ";":
                end = j
                if kw in ("const", "static", "type", "struct", "fn"):
                    items.append(Item(src, path, kw, name, st[start].a, st[end].b, None, list(containers)))
                i = j + 1; continue
            # t is `{`
            close = match_close(st, j)
            hdr = " ".join(x.s for x in st[i:j])
            if kw in ("const", "static") :
                # `const X: T = Foo { .. };` -- runs to the `;`
                k = close + 1
                while k < hi and st[k].s != ";":
                    if st[k].s in OPEN: k = match_close(st, k)
                    k += 1
                items.append(Item(src, path, kw, name, st[start].a, st[min(k, hi - 1)].b, None, list(containers)))
                i = k + 1; continue
            if kw is None:
                # macro invocation `foo! { .. }` or stray block; skip
                i = close + 1
                if i < hi and st[i].s == ";": i += 1
                continue
            if kw == "macro_rules":
                end = close
                if end + 1 < hi and st[end + 1].s == ";": end += 1
                items.append(Item(src, path, "macro", name, st[start].a, st[end].b, st[j].a, list(containers)))
                i = end + 1; continue
            if kw in ("struct", "enum", "union", "fn"):
                end = close
                items.append(Item(src, path, kw, name, st[start].a, st[end].b, st[j].a,
                                  list(containers) + ([] if not (in_test or attrs_test) else ["#test"])))
                i = end + 1; continue
            if kw in ("impl", "trait", "mod"):
                items.append(Item(src, path, kw, name if kw != "impl" else hdr, st[start].a, st[close].b, st[j].a,
                                  list(containers) + ([] if not (in_test or attrs_test) else ["#test"])))
                walk(j + 1, close, containers + [hdr], in_test or attrs_test)
                i = close + 1; continue
            i = close + 1
    walk(0, len(st), [], False)
    return items

def _strip_vis(h):
    h = re.sub(r"^(pub (\( [^)]*\) )?)", "", h)
    return h

def find_item(src, path, selector):
    """selector: `[impl HEADER | trait NAME ::] fn NAME` | `struct NAME` | `enum NAME` | `const NAME`
    | `type NAME` | `macro NAME` | `impl HEADER`.  Optional suffix `#k` picks the k-th match."""
    parts = [p.strip() for p in selector.split(" :: ")]
    pick = None
    m = re.match(r"(.*)#(\d+)$", parts[-1])
    if m:
        parts[-1] = m.group(1).strip(); pick = int(m.group(2))
    leaf = parts[-1]
    conts = [norm(p) for p in parts[:-1]]
    kind, _, name = leaf.partition(" ")
    items = index_items(src, path)
    out = []
    for it in items:
        if "#test" in it.containers:
            continue
        if kind == "impl":
            if it.kind == "impl" and _hdr_eq(it.name, norm(leaf)):
                out.append(it)
            continue
        want_name = name.strip()
        if kind == "trait":
            want_name = re.match(r"[A-Za-z_0-9]+", want_name).group(0)
        if it.kind != kind or it.name != want_name:
            continue
        ic = [c for c in it.containers if not _strip_vis(c).startswith("mod ")]
        if len(conts) > len(ic):
            continue
        ok = True
        # containers given must match the innermost containers
        for want, have in zip(reversed(conts), reversed(ic)):
            if not _hdr_eq(have, want):
                ok = False
        if ok:
            out.append(it)
    if pick is not None:
        if pick < 1 or pick > len(out):
            raise LookupError("selector %r in %s: #%d of %d matches" % (selector, path, pick, len(out)))
        return out[pick - 1]
    if len(out) != 1:
        raise LookupError("selector %r in %s: %d matches" % (selector, path, len(out)))
    return out[0]

def _hdr_eq(have, want):
    have = _strip_vis(have); want = _strip_vis(want)
    if have == want:
        return True
    # allow omission of a where clause / generics bounds: prefix match on token boundary
    return have.startswith(want + " where ") or have.startswith(want + " {")

# ------------------------------------------------------------------------------------------------
# Marked text: a list of segments, each either real text or a marker edit
# ------------------------------------------------------------------------------------------------
class Edits:
    """Collects non-overlapping edits (a, b, new, rule) on a source string."""
    def __init__(self, text):
        self.text = text
        self.eds = []
    def add(self, a, b, new, rule):
        for (x, y, _, _) in self.eds:
            if a < y and x < b and not (a == b or x == y):
                raise ValueError("overlapping edits at %d..%d (%s)" % (a, b, rule))
        self.eds.append((a, b, new, rule))
    def render(self, table):
        """returns text with markers; appends (rule, original) to table"""
        out = []
        pos = 0
        # stable order: by position, insertions (a==b) before replacements at same a
        for idx, (a, b, new, rule) in sorted(enumerate(self.eds), key=lambda e: (e[1][0], e[1][1], e[0])):
            if a < pos:
                raise ValueError("edit order conflict at %d (%s)" % (a, rule))
            out.append(self.text[pos:a])
            k = len(table)
            table.append({"rule": rule, "orig": self.text[a:b]})
            out.append("/*<%d*/%s/*>*/" % (k, new))
            pos = b
        out.append(self.text[pos:])
        return "".join(out)

_MARK = re.compile(r"/\*<(\d+)\*/(.*?)/\*>\*/", re.S)

def invert(marked, table):
    return _MARK.sub(lambda m: table[int(m.group(1))]["orig"], marked)

def strip_markers(marked):
    """for human-readable output: keep new text, drop the marker comments"""
    return _MARK.sub(lambda m: m.group(2), marked)

# ------------------------------------------------------------------------------------------------
# Rewrites
# ------------------------------------------------------------------------------------------------
KEEP_DERIVES = {"Clone", "Copy", "PartialEq", "Eq", "Debug"}
PATH_TABLE = [
    ("sbor::rust::cmp::min", "core::cmp::min"),
    ("sbor::rust::cmp::max", "core::cmp::max"),
    ("sbor::rust::mem::", "core::mem::"),
    ("sbor::rust::cmp::", "core::cmp::"),
]

class Weaver:
    def __init__(self, item, opts=None):
        self.item = item
        self.text = item.text
        self.toks = tokenize(self.text)
        self.st = sig(self.toks)
        self.ed = Edits(self.text)
        self.opts = opts or {}
        self.log = []

    # ---- helpers -------------------------------------------------------------------------------
    def _idx_at(self, byte):
        for i, t in enumerate(self.st):
            if t.a == byte:
                return i
        raise ValueError("no token at %d" % byte)

    def body_open(self):
        """index in st of the item's body `{` (for fn/struct/enum/impl)"""
        if self.item.hdr_b is None:
            return 0
        off = self.item.hdr_b - self.item.a
        return self._idx_at(off)

    # ---- R2: attributes ------------------------------------------------------------------------
    def r2_attributes(self, keep_derives=None):
        keep = KEEP_DERIVES if keep_derives is None else set(keep_derives)
        st = self.st
        i = 0
        while i < len(st):
            if st[i].s == "#" and i + 1 < len(st) and st[i + 1].s in ("[", "!"):
                j = i + 1
                if st[j].s == "!": j += 1
                if st[j].s != "[":
                    i += 1; continue
                k = match_close(st, j)
                inner = st[j + 1:k]
                new = ""
                if inner and inner[0].s == "derive":
                    names = []
                    cur = []
                    for t in inner[2:-1]:
                        if t.s == ",":
                            names.append("".join(cur)); cur = []
                        else:
                            cur.append(t.s)
                    if cur: names.append("".join(cur))
                    kept = [x for x in names if x.split("::")[-1] in keep]
                    if kept:
                        new = "#[derive(%s)]" % ", ".join(kept)
                elif inner and inner[0].s == "verifier":
                    new = self.text[st[i].a:st[k].b]
                if new != self.text[st[i].a:st[k].b]:
                    self.ed.add(st[i].a, st[k].b, new, "R2")
                i = k + 1
            else:
                i += 1

    # ---- R1: name the return value -------------------------------------------------------------
    def fn_header(self):
        """returns (i_fn, i_name, i_popen, i_pclose, i_body) indices in st"""
        st = self.st
        ib = self.body_open()
        i = 0
        # skip attributes
        while st[i].s == "#":
            j = i + 1
            if st[j].s == "!": j += 1
            i = match_close(st, j) + 1
        while st[i].s != "fn":
            i += 1
        i_fn = i
        i_name = i + 1
        j = i_name + 1
        if st[j].s == "<":
            d = 0
            while True:
                if st[j].s == "<": d += 1
                elif st[j].s == ">":
                    d -= 1
                    if d == 0: break
                j += 1
            j += 1
        assert st[j].s == "(", "fn params expected, got %r" % st[j].s
        pc = match_close(st, j)
        return i_fn, i_name, j, pc, ib

    def r1_name_ret(self, name="ret"):
        st = self.st
        i_fn, i_name, po, pc, ib = self.fn_header()
        if st[pc + 1].s != "->":
            return False
        a = st[pc + 2].a
        j = pc + 2
        while j < ib and not (st[j].k == "id" and st[j].s == "where"):
            if st[j].s in "([": j = match_close(st, j)
            j += 1
        b = st[j - 1].b
        self.ed.add(a, b, "(%s: %s)" % (name, self.text[a:b]), "R1")
        return True

    # ---- R7: visibility ------------------------------------------------------------------------
    def r7_visibility(self):
        st = self.st
        i = 0
        while i < len(st):
            if st[i].s == "pub" and i + 1 < len(st) and st[i + 1].s == "(" and st[i + 2].s in ("crate", "super", "in", "self"):
                k = match_close(st, i + 1)
                self.ed.add(st[i].a, st[k].b, "pub", "R7")
                i = k + 1
            else:
                i += 1

    def r7_pub_fields(self):
        """struct fields -> pub (named and tuple structs); enum variants untouched"""
        st = self.st
        if self.item.kind != "struct":
            return
        # find first `{` or `(` after the name (skipping generics)
        i = 0
        while st[i].s != "struct": i += 1
        j = i + 2
        if st[j].s == "<":
            d = 0
            while True:
                if st[j].s == "<": d += 1
                elif st[j].s == ">":
                    d -= 1
                    if d == 0: break
                j += 1
            j += 1
        while j < len(st) and st[j].s not in ("{", "(", ";"):
            j += 1
        if j >= len(st) or st[j].s == ";":
            return
        close = match_close(st, j)
        k = j + 1
        field_start = True
        ad = 0
        while k < close:
            t = st[k]
            if field_start:
                # skip attributes
                while st[k].s == "#":
                    k = match_close(st, k + 1) + 1
                t = st[k]
                if k >= close: break
                if t.s != "pub":
                    self.ed.add(t.a, t.a, "pub ", "R7")
                field_start = False
                continue
            if t.s in OPEN:
                k = match_close(st, k) + 1; continue
            if t.s == "<": ad += 1
            elif t.s == ">": ad -= 1
            elif t.s == "," and ad == 0:
                field_start = True
            k += 1

    # ---- R5: panic sites become obligations ----------------------------------------------------
    def r5_panics(self):
        st = self.st
        i = 0
        while i < len(st) - 2:
            t = st[i]
            if t.k == "id" and st[i + 1].s == "!" and st[i + 2].s in OPEN:
                k = match_close(st, i + 2)
                args = st[i + 3:k]
                if t.s in ("assert", "debug_assert") and t.s == "assert":
                    # first argument up to a top-level comma
                    e = self._first_arg(i + 3, k)
                    self.ed.add(t.a, st[k].b, "rt_assert(%s)" % self.text[st[i + 3].a:st[e - 1].b], "R5")
                    i = k + 1; continue
                if t.s in ("assert_eq", "assert_ne"):
                    e = self._first_arg(i + 3, k)
                    e2 = self._first_arg(e + 1, k)
                    op = "==" if t.s == "assert_eq" else "!="
                    self.ed.add(t.a, st[k].b, "rt_assert((%s) %s (%s))" % (
                        self.text[st[i + 3].a:st[e - 1].b], op, self.text[st[e + 1].a:st[e2 - 1].b]), "R5")
                    i = k + 1; continue
                if t.s in ("panic", "unreachable", "unimplemented", "todo"):
                    self.ed.add(t.a, st[k].b, "rt_unreachable()", "R5")
                    i = k + 1; continue
            if t.s == "." and st[i + 1].s == "expect" and st[i + 2].s == "(":
                k = match_close(st, i + 2)
                self.ed.add(st[i + 1].a, st[k].b, "unwrap()", "R5")
                i = k + 1; continue
            i += 1

    def _first_arg(self, lo, hi):
        st = self.st
        j = lo
        while j < hi:
            if st[j].s in OPEN:
                j = match_close(st, j) + 1; continue
            if st[j].s == ",":
                return j
            j += 1
        return hi

    # ---- path table / unit-specific substitutions ----------------------------------------------
    def subst(self, old, new, rule, count=None):
        """token-sequence replace"""
        want = sigtext(old)
        st = self.st
        n = 0
        i = 0
        while i <= len(st) - len(want):
            if [t.s for t in st[i:i + len(want)]] == want:
                self.ed.add(st[i].a, st[i + len(want) - 1].b, new, rule)
                n += 1
                i += len(want)
            else:
                i += 1
        if count is not None and n != count:
            raise LookupError("subst %r: expected %d occurrences, found %d" % (old, count, n))
        return n

    # ---- anchors -------------------------------------------------------------------------------
    def loops(self):
        """indices (in st) of loop keywords inside the body, in order"""
        ib = self.body_open()
        res = []
        for i in range(ib, len(self.st)):
            t = self.st[i]
            if t.k == "id" and t.s in ("for", "while", "loop"):
                # `for<'a>` higher-ranked bounds: skip
                if t.s == "for" and self.st[i + 1].s == "<":
                    continue
                res.append(i)
        return res

    def loop_body_open(self, i):
        st = self.st
        j = i + 1
        while True:
            if st[j].s in "([":
                j = match_close(st, j) + 1; continue
            if st[j].s == "{":
                return j
            j += 1

    def weave_loop(self, k, text, itername=None):
        ls = self.loops()
        if k < 1 or k > len(ls):
            raise LookupError("lost anchor: loop #%d (have %d)" % (k, len(ls)))
        i = ls[k - 1]
        if itername and self.st[i].s == "for":
            j = i + 1
            while not (self.st[j].k == "id" and self.st[j].s == "in"):
                if self.st[j].s in OPEN: j = match_close(self.st, j)
                j += 1
            self.ed.add(self.st[j].b, self.st[j].b, " %s:" % itername, "R3")
        bo = self.loop_body_open(i)
        self.ed.add(self.st[bo].a, self.st[bo].a, "\n" + text.rstrip() + "\n", "R4")

    def weave_sig(self, text):
        ib = self.body_open()
        self.ed.add(self.st[ib].a, self.st[ib].a, "\n" + text.rstrip() + "\n", "R4")

    def weave_entry(self, text):
        ib = self.body_open()
        self.ed.add(self.st[ib].b, self.st[ib].b, "\n" + text.rstrip() + "\n", "R4")

    def find_seq(self, seq, k):
        want = sigtext(seq)
        st = self.st
        ib = self.body_open()
        n = 0
        for i in range(ib, len(st) - len(want) + 1):
            if [t.s for t in st[i:i + len(want)]] == want:
                n += 1
                if n == k:
                    return i
        raise LookupError("lost anchor: tok %r #%d (found %d)" % (seq, k, n))

    def stmt_start(self, i):
        """walk back from st[i] to the start of the enclosing statement"""
        st = self.st
        j = i - 1
        while j >= 0:
            s = st[j].s
            if st[j].k == "p" and s in CLOSE and s != "}":
                # jump over a balanced group
                d = 0
                while True:
                    if st[j].k == "p" and st[j].s in CLOSE: d += 1
                    elif st[j].k == "p" and st[j].s in OPEN: d -= 1
                    if d == 0: break
                    j -= 1
                j -= 1; continue
            if st[j].k == "p" and s in (";", "{", "}"):
                return j + 1
            if st[j].k == "p" and s == "=>":
                return j + 1
            j -= 1
        return 0

    def stmt_end(self, i):
        st = self.st
        j = i
        while j < len(st):
            if st[j].k == "p" and st[j].s in OPEN:
                j = match_close(st, j) + 1; continue
            if st[j].k == "p" and st[j].s == ";":
                return j
            if st[j].k == "p" and st[j].s == "}":
                return j - 1
            j += 1
        return len(st) - 1

    def weave_before(self, seq, k, text):
        i = self.stmt_start(self.find_seq(seq, k))
        self.ed.add(self.st[i].a, self.st[i].a, text.rstrip() + "\n", "R4")

    def weave_after(self, seq, k, text):
        i = self.stmt_end(self.find_seq(seq, k))
        self.ed.add(self.st[i].b, self.st[i].b, "\n" + text.rstrip() + "\n", "R4")

    def weave_at(self, seq, k, text):
        """insert ghost text immediately before the k-th occurrence of the token sequence"""
        i = self.find_seq(seq, k)
        self.ed.add(self.st[i].a, self.st[i].a, text, "R4")

    # ---- closures ------------------------------------------------------------------------------
    def closures(self):
        st = self.st
        ib = self.body_open()
        res = []
        i = ib
        while i < len(st):
            t = st[i]
            if t.k == "p" and t.s == "|":
                prev = st[i - 1]
                if (prev.k == "p" and prev.s in ("(", ",", "=", "{", ";", "=>", "[")) or (prev.k == "id" and prev.s in ("move", "return")):
                    # params end
                    j = i + 1
                    while st[j].s != "|":
                        if st[j].s in OPEN: j = match_close(st, j)
                        j += 1
                    res.append((i, j))
                    i = j + 1; continue
            i += 1
        return res

    def weave_closure(self, k, header):
        cs = self.closures()
        st = self.st
        # identify the closure by the name of its first parameter when both the header and the source
        # give one (robust against closures added / removed before it); otherwise by ordinal
        hm = re.match(r"\s*\|\s*(?:mut\s+)?(?:r#)?([A-Za-z][A-Za-z0-9_]*)\b", header)
        def first_name(c):
            a = c[0] + 1
            if st[a].k == "id" and st[a].s == "mut": a += 1
            return st[a].s if st[a].k == "id" and re.match(r"[A-Za-z][A-Za-z0-9_]*$", st[a].s) else None
        pick = None
        if hm:
            hn = hm.group(1)
            if 1 <= k <= len(cs) and first_name(cs[k - 1]) in (hn, None):
                pick = cs[k - 1]
            else:
                named = [c for c in cs if first_name(c) == hn]
                if len(named) == 1:
                    pick = named[0]
                elif 1 <= k <= len(cs) and first_name(cs[k - 1]) is not None:
                    raise LookupError("lost anchor: closure #%d |%s ..| (closure at that position takes |%s ..|)" % (k, hn, first_name(cs[k - 1])))
        if pick is None:
            if k < 1 or k > len(cs):
                raise LookupError("lost anchor: closure #%d (have %d)" % (k, len(cs)))
            pick = cs[k - 1]
        i, j = pick
        self.ed.add(st[i].a, st[j].b, header.strip() + " ", "R4")
        b = j + 1
        if st[b].s == "->":
            raise LookupError("closure #%d already has a return type" % k)
        if st[b].s == "{":
            return
        # expression body: until `,` or closer at depth 0
        e = b
        while e < len(st):
            if st[e].k == "p" and st[e].s in OPEN:
                e = match_close(st, e) + 1; continue
            if st[e].k == "p" and (st[e].s in (",", ";") or st[e].s in CLOSE):
                break
            e += 1
        self.ed.add(st[b].a, st[b].a, "{ ", "R4")
        self.ed.add(st[e - 1].b, st[e - 1].b, " }", "R4")

    # ---- R11: or-pattern split -----------------------------------------------------------------
    def r11_split_arm(self, seq, k):
        """the match arm whose pattern starts at the k-th occurrence of `seq`: `P1 | P2 => body,`
        becomes `P1 => body, P2 => body,`"""
        st = self.st
        i = self.find_seq(seq, k)
        # pattern runs from i to `=>` at depth 0
        j = i
        bars = []
        while st[j].s != "=>":
            if st[j].s in OPEN: j = match_close(st, j)
            elif st[j].s == "|": bars.append(j)
            j += 1
        if not bars:
            raise LookupError("R11: no or-pattern at %r #%d" % (seq, k))
        arrow = j
        # body
        b = arrow + 1
        if st[b].s == "{":
            e = match_close(st, b)
            if e + 1 < len(st) and st[e + 1].s == ",": e += 1
            body = self.text[st[arrow].a:st[e].b]
        else:
            e = b
            while True:
                if st[e].s in OPEN: e = match_close(st, e) + 1; continue
                if st[e].s == "," : break
                if st[e].s == "}": e -= 1; break
                e += 1
            body = self.text[st[arrow].a:st[e].b]
            if not body.rstrip().endswith(","): body += ","
        for bar in bars:
            self.ed.add(st[bar].a, st[bar].b, " " + body + "\n", "R11")

    # ---- R10: slice-literal concat ----------------------------------------------------------------
    def r10_concat(self):
        """`[e1, .., en].concat()` -> `concat_n(e1, .., en)` (n = 2 or 3)"""
        st = self.st
        n = 0
        i = 0
        while i < len(st) - 4:
            if st[i].s == "[":
                k = match_close(st, i)
                if k + 4 < len(st) + 1 and [t.s for t in st[k + 1:k + 5]] == [".", "concat", "(", ")"]:
                    # count top-level elements
                    elems = 1; j = i + 1; last = None
                    while j < k:
                        if st[j].s in OPEN: j = match_close(st, j) + 1; continue
                        if st[j].s == ",":
                            if j + 1 < k: elems += 1
                            else: last = j
                        j += 1
                    self.ed.add(st[i].a, st[i].b, "concat%d(" % elems, "R10")
                    if last is not None:
                        self.ed.add(st[last].a, st[last].b, "", "R10")
                    self.ed.add(st[k].a, st[k + 4].b, ")", "R10")
                    n += 1
                    i = k + 5; continue
            i += 1
        return n

    # ---- R9: drop tail -------------------------------------------------------------------------
    def r9_drop_tail(self, seq, k, replacement):
        """statements after the statement containing the anchor are replaced by `replacement`"""
        st = self.st
        i = self.stmt_end(self.find_seq(seq, k))
        ib = self.body_open()
        close = match_close(st, ib)
        a = st[i].b
        b = st[close].a
        self.ed.add(a, b, "\n" + replacement + "\n", "R9")

    def render(self, table):
        return self.ed.render(table)

# ------------------------------------------------------------------------------------------------
# Identity check
# ------------------------------------------------------------------------------------------------
def identity_check(marked, table, item):
    back = invert(marked, table)
    a = sigtext(back)
    b = sigtext(item.text)
    if a != b:
        # locate first difference for the report
        for i, (x, y) in enumerate(zip(a, b)):
            if x != y:
                return False, "token %d: woven %r vs source %r" % (i, " ".join(a[max(0, i - 3):i + 3]), " ".join(b[max(0, i - 3):i + 3]))
        return False, "length %d vs %d" % (len(a), len(b))
    return True, ""

if __name__ == "__main__":
    p, sel = sys.argv[1], sys.argv[2]
    src = open(p).read()
    it = find_item(src, p, sel)
    print(it.lines(), it.sha()[:12])
    print(it.text)
