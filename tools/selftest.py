#!/usr/bin/env python3
"""selftest.py <unit> [-j N] -- thorough-tier self-test: applies every stored semantic mutation of
units/<unit>/mutants.txt (`<repo file> | <sed expr> | note`) to a scratch overlay copy of that one
source file (under a mkdtemp dir, deleted immediately) and runs the unit on it.  A mutant is KILLED when
at least one proof unit fails; results go to the evidence file (mutants_killed), never to a VIOLATION."""
import os, sys, re, json, subprocess, tempfile, shutil
from concurrent.futures import ThreadPoolExecutor
V = os.path.dirname(os.path.dirname(os.path.abspath(__file__)))
REPO = os.environ.get("VERIF_REPO", "/repo")

def parse(unit):
    p = os.path.join(V, "units", unit, "mutants.txt")
    out = []
    if not os.path.exists(p):
        return out
    for ln in open(p):
        ln = ln.rstrip("\n")
        if not ln.strip() or ln.startswith("#"):
            continue
        parts = ln.split(" | ")
        if len(parts) < 3:
            continue
        f = parts[0].strip(); expr = " | ".join(parts[1:-1]).strip()
        expr = re.sub(r"\s\s+\(.*\)\s*$", "", expr)      # trailing "  (comment)"
        expr = re.sub(r"\s+\([^/]*\)\s*$", "", expr) if not expr.endswith(("/", "d", "g")) else expr
        if not os.path.exists(os.path.join(REPO, f)):
            continue
        out.append((f, expr, parts[-1].strip()))
    return out

def run_one(unit, f, expr):
    ov = tempfile.mkdtemp(prefix="verif-mut-")
    try:
        dst = os.path.join(ov, f)
        os.makedirs(os.path.dirname(dst), exist_ok=True)
        shutil.copy(os.path.join(REPO, f), dst)
        r = subprocess.run(["sed", "-i", expr, dst], capture_output=True, text=True)
        if r.returncode != 0 or open(dst).read() == open(os.path.join(REPO, f)).read():
            return "not-applied"
        env = dict(os.environ); env["VERIF_OVERLAY"] = ov
        p = subprocess.run([sys.executable, os.path.join(V, "tools", "unit.py"), unit], capture_output=True, text=True, env=env, timeout=900)
        txt = p.stdout
        if "UNDECIDED" in txt or re.search(r"^status (compile-error|timeout)", txt, re.M):
            return "undecided"
        if re.search(r"^FAILED ", txt, re.M):
            return "killed"
        return "survived"
    except subprocess.TimeoutExpired:
        return "undecided"
    finally:
        shutil.rmtree(ov, ignore_errors=True)
        import hashlib
        shutil.rmtree(os.path.join(V, ".cache", "build", "%s-ov-%s" % (unit, hashlib.sha256(ov.encode()).hexdigest()[:10])), ignore_errors=True)

def selftest(unit, jobs=4, expected_fail=()):
    ms = parse(unit)
    with ThreadPoolExecutor(jobs) as ex:
        res = list(ex.map(lambda m: run_one(unit, m[0], m[1]), ms))
    out = {"unit": unit, "mutants": len(ms), "killed": res.count("killed"), "survived": [], "undecided": res.count("undecided"), "not_applied": res.count("not-applied")}
    for m, r in zip(ms, res):
        if r == "survived":
            out["survived"].append({"file": m[0], "sed": m[1], "note": m[2][:200]})
    return out

if __name__ == "__main__":
    j = 4
    if "-j" in sys.argv:
        j = int(sys.argv[sys.argv.index("-j") + 1])
    print(json.dumps(selftest(sys.argv[1], j), indent=1))
