#!/usr/bin/env python3
"""kani_run.py -- run one Kani harness of a harness crate under /verif/kani/<crate> against the
real crates in /repo (path dependencies), parse the CBMC verdict and the concrete playback."""
import os, re, subprocess, time, shutil, json

VERIF = os.path.dirname(os.path.dirname(os.path.abspath(__file__)))
REPO = os.environ.get("VERIF_REPO", "/repo")
GUARD = "radixdlt_radixdlt_scrypto_verif"

def run_harness(h, tier, playback=True):
    crate = os.path.join(VERIF, "kani", h["crate"])
    out = {"harness": "%s::%s" % (h["crate"], h["harness"]), "complete": bool(h.get("complete")), "bound": h.get("bound", ""),
           "status": "ok", "checks": 0, "wall_s": 0.0, "cmd": "", "trusted": h.get("trusted", []), "reason": ""}
    t0 = time.time()
    try:
        shutil.copy(os.path.join(REPO, "Cargo.lock"), os.path.join(crate, "Cargo.lock"))
    except OSError as e:
        out["status"] = "undecided"; out["reason"] = "Cargo.lock: %s" % e; return out
    env = dict(os.environ)
    env["CARGO_NET_OFFLINE"] = "true"
    env["CARGO_TARGET_DIR"] = os.path.join(VERIF, ".cache", "kani-target", h["crate"])
    env["RUSTFLAGS"] = (env.get("RUSTFLAGS", "") + " --cfg " + GUARD).strip()
    cmd = ["cargo", "kani", "-Z", "function-contracts", "-Z", "stubbing", "--harness", h["harness"]]
    if playback:
        cmd += ["-Z", "concrete-playback", "--concrete-playback=print"]
    cmd += h.get("args", [])
    out["cmd"] = "cd kani/%s && CARGO_NET_OFFLINE=true RUSTFLAGS='--cfg %s' %s" % (h["crate"], GUARD, " ".join(cmd))
    to = h.get("timeout_thorough", h.get("timeout", 900)) if tier == "thorough" else h.get("timeout", 900)
    try:
        p = subprocess.run(cmd, cwd=crate, env=env, capture_output=True, text=True, timeout=to)
        txt = p.stdout + "\n" + p.stderr
    except subprocess.TimeoutExpired as e:
        out["status"] = "undecided"; out["reason"] = "timeout after %ds" % to
        out["wall_s"] = round(time.time() - t0, 1)
        subprocess.run(["pkill", "-f", "cbmc.*%s" % h["harness"]], capture_output=True)
        return out
    out["wall_s"] = round(time.time() - t0, 1)
    out["tail"] = txt[-3000:]
    m = re.search(r"\*\* (\d+) of (\d+) failed", txt)
    if m:
        out["checks"] = int(m.group(2))
    if "VERIFICATION:- SUCCESSFUL" in txt:
        out["status"] = "ok"
        if out["checks"] == 0:
            out["status"] = "undecided"; out["reason"] = "zero CBMC checks generated (vacuous harness)"
        # unwinding assertions are on by default; a complete harness must not have been cut short
    elif "VERIFICATION:- FAILED" in txt:
        fc = re.findall(r"Failed Checks: (.*)", txt)
        out["failed_checks"] = fc
        # unwinding assertion failures mean the bound was too small: that is not a property failure
        real = [c for c in fc if "unwinding assertion" not in c]
        if not real:
            out["status"] = "undecided"; out["reason"] = "unwinding bound too small: " + "; ".join(fc[:2])
        else:
            out["status"] = "failed"
            m = re.search(r"Concrete playback unit test for `[^`]*`:\n```\n(.*?)```", txt, re.S)
            if m:
                vals = [[int(x) for x in v.split(",") if x.strip()] for v in re.findall(r"vec!\[([0-9, ]*)\],", m.group(1).split("concrete_vals", 1)[-1])]
                out["cex"] = {"harness": out["harness"], "concrete_vals": vals, "playback_test": m.group(1)}
                out["cex"]["replay"] = replay(h, vals)
    else:
        out["status"] = "undecided"
        out["reason"] = "no verdict: " + txt[-600:].replace("\n", " | ")
    return out

def replay(h, vals):
    """re-run the harness body on the recorded concrete values against the real crates under plain
    `cargo test` (no Kani): the test panics iff the input really fails on the real code"""
    crate = os.path.join(VERIF, "kani", h["crate"])
    env = dict(os.environ)
    env["CARGO_NET_OFFLINE"] = "true"
    env["CARGO_TARGET_DIR"] = os.path.join(VERIF, ".cache", "replay-target", h["crate"])
    env["RUSTFLAGS"] = (env.get("RUSTFLAGS", "") + " --cfg " + GUARD).strip()
    env["VERIF_REPLAY_HARNESS"] = h["harness"]
    env["VERIF_REPLAY_VALS"] = ";".join(",".join(str(b) for b in v) for v in vals)
    cmd = ["cargo", "test", "--offline", "--lib", "replay_from_env", "--", "--nocapture"]
    try:
        p = subprocess.run(cmd, cwd=crate, env=env, capture_output=True, text=True, timeout=1800)
    except subprocess.TimeoutExpired:
        return {"verdict": "replay timed out", "cmd": " ".join(cmd)}
    txt = p.stdout + p.stderr
    m = re.search(r"REPLAY-RESULT: (.*)", txt)
    pan = re.search(r"panicked at [^\n]*\n[^\n]*", txt)
    return {"verdict": m.group(1) if m else "no verdict (build failed?)", "confirmed": bool(m and "CONFIRMED" in m.group(1)),
            "panic": pan.group(0) if pan else None,
            "cmd": "cd kani/%s && VERIF_REPLAY_HARNESS=%s VERIF_REPLAY_VALS='%s' %s" % (h["crate"], h["harness"], env["VERIF_REPLAY_VALS"], " ".join(cmd))}

def run_regression(reg):
    """re-run a recorded failing input of a FIXED finding on the real crates (plain cargo test): the
    test fails iff the defect is back"""
    crate = os.path.join(VERIF, "kani", reg["crate"])
    env = dict(os.environ)
    env["CARGO_NET_OFFLINE"] = "true"
    env["CARGO_TARGET_DIR"] = os.path.join(VERIF, ".cache", "replay-target", reg["crate"])
    env["RUSTFLAGS"] = (env.get("RUSTFLAGS", "") + " --cfg " + GUARD).strip()
    try:
        shutil.copy(os.path.join(REPO, "Cargo.lock"), os.path.join(crate, "Cargo.lock"))
    except OSError:
        pass
    cmd = ["cargo", "test", "--offline", "--lib", reg["test"], "--", "--exact", "--nocapture"] if reg.get("exact") else ["cargo", "test", "--offline", "--lib", reg["test"], "--", "--nocapture"]
    t0 = time.time()
    try:
        p = subprocess.run(cmd, cwd=crate, env=env, capture_output=True, text=True, timeout=reg.get("timeout", 1800))
    except subprocess.TimeoutExpired:
        return {"test": reg["test"], "status": "undecided", "reason": "timeout", "cmd": " ".join(cmd), "wall_s": round(time.time() - t0, 1)}
    txt = p.stdout + p.stderr
    m = re.search(r"test result: (\w+)\. (\d+) passed; (\d+) failed", txt)
    out = {"test": reg["test"], "cmd": "cd kani/%s && %s" % (reg["crate"], " ".join(cmd)), "wall_s": round(time.time() - t0, 1), "tail": txt[-1500:]}
    if not m or int(m.group(2)) + int(m.group(3)) == 0:
        out["status"] = "undecided"; out["reason"] = "test did not run: " + txt[-300:].replace("\n", " | ")
    elif int(m.group(3)) > 0:
        out["status"] = "failed"
    else:
        out["status"] = "ok"
    return out

if __name__ == "__main__":
    import sys
    r = run_harness({"crate": sys.argv[1], "harness": sys.argv[2], "complete": True}, "quick")
    print(json.dumps({k: v for k, v in r.items() if k != "tail"}, indent=1))
    if r["status"] != "ok":
        print(r.get("tail", ""))
