#!/usr/bin/env python3
"""regenerates MANIFEST.json from props.json (claimed checks) + na_reasons.json"""
import json, os
V = os.path.dirname(os.path.dirname(os.path.abspath(__file__)))
props = json.load(open(os.path.join(V, "props.json")))
na = json.load(open(os.path.join(V, "na_reasons.json")))
ids = [json.loads(l)["id"] for l in open(os.path.join(V, "properties.jsonl"))]
hooks_commits = json.load(open(os.path.join(V, "hooks.json"))) if os.path.exists(os.path.join(V, "hooks.json")) else []
checks = []
for pid in ids:
    if pid not in props: continue
    c = props[pid]
    checks.append({
        "property_id": pid,
        "quick_cmd": "bin/check %s --tier quick" % pid,
        "thorough_cmd": "bin/check %s --tier thorough" % pid,
        "evidence_file": "evidence/%s.json" % pid,
        "replay_cmd_template": "bin/check --replay {path}",
        "engine": "contracts",
        "level_claimed": {"category": c.get("level", "proof"), "text": c["scope"], "design_ref": "DESIGN.md section 4, " + pid},
        "level_note": "Trusted base: " + "; ".join(c.get("assumptions", [])) + "; assumed contracts (external_body / axioms) of the shims are enumerated in coverage.trusted_base of the evidence file on every run.",
        "technique": c.get("technique", "contract-based deductive verification: Verus requires/ensures/invariants woven into the real functions extracted from /repo on every run"),
    })
not_app = []
for pid in ids:
    if pid in props: continue
    not_app.append({"property_id": pid, "reason": na.get(pid, "within the family in principle; not brought within the verifier's reach in this effort (see DESIGN.md section 4)")})
m = {
    "version": 1,
    "setup_cmd": "bin/setup",
    "hooks": {
        "guard": "radixdlt_radixdlt_scrypto_verif",
        "enable": "RUSTFLAGS='--cfg radixdlt_radixdlt_scrypto_verif' (Kani harness crates only; Verus reads the source text and needs no hook)",
        "baseline_off_cmd": "cd /repo && cargo test --workspace --no-fail-fast --offline",
        "source_commits": hooks_commits,
        "add_only": True,
    },
    "engines": [{"name": "contracts", "path": "bin/check", "serves_properties": [c["property_id"] for c in checks],
                 "kind_free_text": "Verus (unbounded, per function, real code extracted mechanically on every run) + Kani function-level harnesses on the real crates (complete where loop-free/full-domain, else labelled bounded)"}],
    "checks": checks,
    "not_applicable": not_app,
    "notes": "exit 0 = held; exit 1 + VIOLATION line = a baseline obligation failed; exit 2 + UNDECIDED lines = infrastructure (lost anchor, solver limit), never an alarm. known_findings.txt lists genuine defects.",
}
json.dump(m, open(os.path.join(V, "MANIFEST.json"), "w"), indent=1)
print("claimed", len(checks), "not_applicable", len(not_app))
