#!/usr/bin/env python3
"""prints the prompt for an independent breakage sub-agent: property text + scratch worktree only"""
import json, sys
pid, wt = sys.argv[1], sys.argv[2]
for l in open('/verif/properties.jsonl'):
    d = json.loads(l)
    if d['id'] == pid:
        break
print(f"""You are testing how robust a Rust codebase's guarantees are. You work ONLY inside the scratch git worktree {wt} (a checkout of the radixdlt-scrypto repository: Radix Engine, a deterministic ledger transaction execution engine). Do not read or write anything under /verif or /repo; do not look outside {wt} except for the Rust toolchain. The machine is offline: always pass --offline to cargo. Use CARGO_TARGET_DIR={wt}/target and build only the crate(s) you need (e.g. `cargo test --offline -p <crate> --lib <filter>`), never the whole workspace; builds of radix-engine take 30+ minutes and a first build of the radix-engine-tests crate takes 2-3 HOURS on this loaded machine, so be economical: prefer a demonstration and existing-test runs inside the crate you change (its lib tests or a new integration test file of that crate using its public API), and build radix-engine-tests only if there is no other way.

PROPERTY that the code is supposed to guarantee:
  id: {d['id']}
  title: {d['title']}
  statement: {d['statement']}
  quantified over: {d['quantifier']['text']}
  why the existing tests cannot settle it: {d['why_tests_cant']}
  code anchors: {json.dumps(d['anchors']['mechanism'])}

YOUR TASK: produce ONE realistic change (a plausible bug a maintainer could introduce: an off-by-one, a wrong comparison, a dropped update, a boundary mishandled, two sites that each look fine alone, ...) to the non-test source code in {wt} that BREAKS this property, while (a) the code still compiles, and (b) the existing tests of the touched crate(s) still pass (run the relevant existing unit tests of the module you touch, and a reasonable related subset, to confirm; say exactly which you ran). The breakage should need something specific to manifest -- an unusual input, a boundary value, a multi-step sequence of operations, a long history -- not something ordinary use would expose at once. Do not change or delete existing tests. Keep the change small (a few lines), in the mechanism code named by the anchors or close to it.

Then write a DEMONSTRATION: a new Rust test (preferably a unit test file or a #[test] function appended in a NEW file/module, or a small example program) that exercises the real code and FAILS with your change applied and PASSES on the original code. Verify both directions yourself (use `git stash` / `git diff` / `git apply -R` to flip).

DELIVERABLES, written into {wt}/SEED/ :
  - patch.diff  : `git diff` of ONLY the source change that breaks the property (not the demonstration), applicable with `git apply` at the repository root
  - demo.diff   : `git diff`/new-file patch adding ONLY the demonstration test (applicable on the original tree independently of patch.diff)
  - meta.json   : {{"property": "{pid}", "summary": "...what was changed...", "needs_to_manifest": "...the specific input/sequence/boundary...", "existing_tests_run": ["...commands..."], "demo_cmd": "...command that fails with the patch and passes without..."}}
When finished, make sure the worktree's tracked files are back to the ORIGINAL state (no patch applied; `git status` shows only SEED/ and target/ as untracked), delete {wt}/target to free disk space, and reply with a short summary (what you changed, how the demo fails). If after a serious attempt you cannot find a change that keeps existing tests passing, say so and explain what you tried.""")
