#!/bin/bash
# usage: reconfirm_seed.sh <seed-name e.g. C41-1> "<demo_cmd>" "<existing_cmd>"  -- recreates a scratch worktree from seeded/<name>
N=$1; WT=/tmp/wt_re_$N
git -C /repo worktree add --detach $WT HEAD >/dev/null 2>&1
mkdir -p $WT/SEED; cp /verif/seeded/$N/patch.diff /verif/seeded/$N/demo.diff /verif/seeded/$N/meta.json $WT/SEED/
nice -n 10 /verif/tools/confirm_seed.sh $WT $N "$2" "$3" >/dev/null 2>&1
git -C /repo worktree remove --force $WT
tail -1 /verif/seeded/$N/confirm.log
