#!/bin/bash
# re-run every claimed check (quick tier) on the unchanged tree, 4 at a time; report non-zero exits
cd /verif
IDS=$(python3 -c "import json; print(' '.join(c['property_id'] for c in json.load(open('MANIFEST.json'))['checks']))")
if [ -n "$1" ]; then IDS="$@"; fi
mkdir -p .cache/refresh
echo $IDS | tr ' ' '\n' | xargs -P 4 -I{} sh -c 'bin/check {} --tier quick > .cache/refresh/{}.log 2>&1; echo "{} rc=$? $(tail -1 .cache/refresh/{}.log)"'
python3-vt tools/validate.py
