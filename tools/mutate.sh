#!/bin/bash
# usage: tools/mutate.sh <repo-relative-file> <sed-expr> <PID>   -- developer self-test on a scratch overlay
set -e
OV=$(mktemp -d)
mkdir -p $OV/$(dirname $1)
cp /repo/$1 $OV/$1
sed -i "$2" $OV/$1
if cmp -s /repo/$1 $OV/$1; then echo "MUTATION DID NOT APPLY"; rm -rf $OV; exit 3; fi
diff /repo/$1 $OV/$1 | head -8
VERIF_OVERLAY=$OV /verif/bin/check $3 --no-kani | grep -v "^    " | tail -6
rm -rf $OV
