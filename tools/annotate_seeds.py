#!/usr/bin/env python3
"""re-run every seeded change through the current checks (overlay, /repo untouched) and record the
outcome in seeded/<id>/meta.json under `detected_by_current_checks`; prints a table"""
import os, json, glob, subprocess, re, sys
V = os.path.dirname(os.path.dirname(os.path.abspath(__file__)))
rows = []
for d in sorted(glob.glob(os.path.join(V, "seeded", "*-*"))):
    name = os.path.basename(d); pid = name.split("-")[0]
    if len(sys.argv) > 1 and name not in sys.argv[1:]: continue
    patch = os.path.join(d, "patch.diff")
    if not os.path.exists(patch): continue
    p = subprocess.run([os.path.join(V, "tools", "check_patch.sh"), patch, pid], capture_output=True, text=True)
    out = p.stdout
    failed = re.findall(r"FAILED-OBLIGATION (\S+)", out)
    und = re.findall(r"UNDECIDED property=\S+ reason=(.*)", out)
    verdict = "VIOLATION" if p.returncode == 1 else ("UNDECIDED" if p.returncode == 2 else "NOT DETECTED")
    mp = os.path.join(d, "meta.json")
    m = json.load(open(mp)) if os.path.exists(mp) else {}
    m["property"] = m.get("property", pid)
    m["detected_by_current_checks"] = {"cmd": "tools/check_patch.sh seeded/%s/patch.diff %s" % (name, pid), "exit": p.returncode,
                                       "verdict": verdict, "failed_obligations": failed, "undecided": [u[:200] for u in und]}
    cl = os.path.join(d, "confirm.log")
    m["confirmed"] = (open(cl).read().strip().split("\n")[-1] if os.path.exists(cl) else "not run")
    json.dump(m, open(mp, "w"), indent=1)
    rows.append((name, verdict, ",".join(f.split("::")[-1] for f in failed)[:70], m["confirmed"][:14]))
for r in rows: print("%-8s %-12s %-72s %s" % r)
