#!/bin/bash
# usage: tools/mutate_unit.sh <repo-relative-file> <sed-expr> <unit>
# developer self-test: applies the sed mutation to a scratch overlay copy of ONE source file and
# runs the unit on it; prints which proof units fail (a good contract makes at least one fail).
OV=$(mktemp -d)
mkdir -p $OV/$(dirname $1)
cp /repo/$1 $OV/$1
sed -i "$2" $OV/$1
if cmp -s /repo/$1 $OV/$1; then echo "MUTATION DID NOT APPLY"; rm -rf $OV; exit 3; fi
diff /repo/$1 $OV/$1 | head -8
VERIF_OVERLAY=$OV python3 /verif/tools/unit.py $3 2>&1 | grep -E "^(status|FAILED|UNDECIDED|error)" | head -12
rm -rf $OV
