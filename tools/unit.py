#!/usr/bin/env python3
"""unit.py -- assemble one Verus unit from /repo's working tree, run Verus, classify.

Unit template = plain Verus text + directive blocks:

  /*@include shims/decimal.rs @*/
  /*@item radix-engine/src/x.rs :: struct Foo
  @derive Clone, Copy
  @*/
  /*@fn radix-engine/src/x.rs :: impl Foo :: fn bar
  @ret r
  @sig
      requires ..
      ensures ..
  @loop 1 iter it
      invariant ..
  @before <<self.advance(>> #1
      proof { .. }
  @after <<tok seq>> #1
  @at <<tok seq>> #1 := inline ghost text
  @entry
      proof { .. }
  @closure 1 := |a: T| -> (r: U) ensures ..
  @split-arm <<pattern start>> #1
  @subst <<old>> => <<new>> why: justification          (rule RX, listed in evidence)
  @drop-tail <<tok seq>> #1 => replacement call         (rule R9)
  @no-r5 / @no-r1 / @no-r7
  @*/
"""
import os, re, sys, json, time, subprocess, hashlib
sys.path.insert(0, os.path.dirname(os.path.abspath(__file__)))
import rsx

VERIF = os.path.dirname(os.path.dirname(os.path.abspath(__file__)))
REPO = os.environ.get("VERIF_REPO", "/repo")
CACHE = os.path.join(VERIF, ".cache")

class Undecided(Exception):
    """infrastructure problem: lost anchor, unsupported construct, identity mismatch"""

_BLOCK = re.compile(r"/\*@(fn|item|include|expr-after|expr)\b(.*?)@\*/", re.S)
_ANCH = re.compile(r"<<(.*?)>>(?:\s*#(\d+))?", re.S)

def parse_sections(body):
    """split directive block body into header line + [(directive line, text)]"""
    lines = body.split("\n")
    head = lines[0].strip()
    secs = []
    cur = None
    for ln in lines[1:]:
        if ln.lstrip().startswith("@"):
            cur = [ln.strip(), []]
            secs.append(cur)
        elif cur is not None:
            cur[1].append(ln)
    return head, [(d, "\n".join(t)) for d, t in secs]

_srccache = {}
def read_src(path):
    p = os.path.join(REPO, path)
    ov = os.environ.get("VERIF_OVERLAY")
    if ov and os.path.exists(os.path.join(ov, path)):
        p = os.path.join(ov, path)
    if p not in _srccache:
        _srccache[p] = open(p).read()
    return _srccache[p]

def anchor(d):
    m = _ANCH.search(d)
    if not m:
        raise Undecided("bad anchor in directive %r" % d)
    return m.group(1).strip(), int(m.group(2) or 1), d[m.end():]

def _one_directive(w, key, d, t, rx):
    if key == "@r10":
        if w.r10_concat() == 0:
            raise LookupError("lost anchor: no `[..].concat()` for @r10")
        return
    if key == "@sig":
        w.weave_sig(t); pass
    elif key == "@entry":
        w.weave_entry(t)
    elif key == "@loop":
        parts = d.split()
        k = int(parts[1])
        itn = parts[3] if len(parts) > 3 and parts[2] == "iter" else None
        w.weave_loop(k, t, itn)
    elif key == "@before":
        s, k, _ = anchor(d); w.weave_before(s, k, t)
    elif key == "@after":
        s, k, _ = anchor(d); w.weave_after(s, k, t)
    elif key == "@at":
        s, k, rest = anchor(d)
        w.weave_at(s, k, rest.split(":=", 1)[1].strip() + " ")
    elif key == "@closure":
        m = re.match(r"@closure\s+(\d+)\s*:=\s*(.*)", d + " " + t.replace("\n", " "), re.S)
        w.weave_closure(int(m.group(1)), m.group(2))
    elif key == "@split-arm":
        s, k, _ = anchor(d); w.r11_split_arm(s, k)
    elif key == "@subst":
        m = re.match(r"@subst\s*<<(.*?)>>\s*=>\s*<<(.*?)>>\s*(?:x(\d+)\s*)?why:\s*(.*)", d, re.S)
        if not m:
            raise Undecided("bad @subst %r" % d)
        n = w.subst(m.group(1), m.group(2), "RX", int(m.group(3)) if m.group(3) else None)
        if n == 0:
            raise LookupError("lost anchor: subst %r" % m.group(1))
        rx.append({"old": m.group(1), "new": m.group(2), "n": n, "why": m.group(4).strip()})
    elif key == "@drop-tail":
        s, k, rest = anchor(d)
        w.r9_drop_tail(s, k, rest.split("=>", 1)[1].strip())
    else:
        raise Undecided("unknown directive %r" % d)

def build_item(kind, head, secs, probe, report):
    path, _, selector = head.partition(" :: ")
    path = path.strip(); selector = selector.strip()
    try:
        src = read_src(path)
        it = rsx.find_item(src, path, selector)
    except (LookupError, OSError) as e:
        raise Undecided("lost item: %s" % e)
    w = rsx.Weaver(it)
    flags = {d.split()[0] for d, _ in secs}
    derives = None
    for d, t in secs:
        if d.startswith("@derive"):
            derives = [x.strip() for x in d[len("@derive"):].split(",") if x.strip()]
    w.r2_attributes(derives)
    if "@no-r7" not in flags:
        w.r7_visibility()
    ret = "ret"
    rx = []
    has_sig = False
    skipped = []
    try:
        if it.kind == "struct" and "@no-r7" not in flags:
            w.r7_pub_fields()
        if it.kind == "fn":
            for d, t in secs:
                if d.startswith("@ret"):
                    ret = d.split()[1]
            if "@no-r1" not in flags:
                w.r1_name_ret(ret)
            if "@no-r5" not in flags:
                w.r5_panics()
        for old, new in rsx.PATH_TABLE:
            w.subst(old, new, "R7")
        for d, t in secs:
            key = d.split()[0]
            if key in ("@ret", "@derive", "@no-r1", "@no-r5", "@no-r7"):
                continue
            # optional form `@closure? / @subst? / @before? ...`: when the anchor no longer exists in the
            # source (e.g. the annotated statement was deleted) the weave is skipped instead of making the
            # whole unit UNDECIDED; the function is then verified without that ghost text
            if key.endswith("?"):
                d = d.replace(key, key[:-1], 1); key = key[:-1]
                try:
                    _one_directive(w, key, d, t, rx)
                except LookupError as e:
                    skipped.append("%s (%s)" % (d[:60], e))
                continue
            if key == "@r10":
                if w.r10_concat() == 0:
                    raise LookupError("lost anchor: no `[..].concat()` for @r10")
                continue
            if key == "@sig":
                w.weave_sig(t); has_sig = True
            elif key == "@entry":
                w.weave_entry(t)
            elif key == "@loop":
                parts = d.split()
                k = int(parts[1])
                itn = parts[3] if len(parts) > 3 and parts[2] == "iter" else None
                w.weave_loop(k, t, itn)
            elif key == "@before":
                s, k, _ = anchor(d); w.weave_before(s, k, t)
            elif key == "@after":
                s, k, _ = anchor(d); w.weave_after(s, k, t)
            elif key == "@at":
                s, k, rest = anchor(d)
                w.weave_at(s, k, rest.split(":=", 1)[1].strip() + " ")
            elif key == "@closure":
                m = re.match(r"@closure\s+(\d+)\s*:=\s*(.*)", d + " " + t.replace("\n", " "), re.S)
                w.weave_closure(int(m.group(1)), m.group(2))
            elif key == "@split-arm":
                s, k, _ = anchor(d); w.r11_split_arm(s, k)
            elif key == "@subst":
                m = re.match(r"@subst\s*<<(.*?)>>\s*=>\s*<<(.*?)>>\s*(?:x(\d+)\s*)?why:\s*(.*)", d, re.S)
                if not m:
                    raise Undecided("bad @subst %r" % d)
                n = w.subst(m.group(1), m.group(2), "RX", int(m.group(3)) if m.group(3) else None)
                if n == 0:
                    raise LookupError("lost anchor: subst %r" % m.group(1))
                rx.append({"old": m.group(1), "new": m.group(2), "n": n, "why": m.group(4).strip()})
            elif key == "@drop-tail":
                s, k, rest = anchor(d)
                w.r9_drop_tail(s, k, rest.split("=>", 1)[1].strip())
            else:
                raise Undecided("unknown directive %r" % d)
        if probe and it.kind == "fn" and it.hdr_b is not None:
            w.weave_entry("assert(false); // vacuity probe")
        table = []
        marked = w.render(table)
    except LookupError as e:
        raise Undecided("%s :: %s: %s" % (path, selector, e))
    except (ValueError, AssertionError, IndexError) as e:
        raise Undecided("%s :: %s: weave failed: %s" % (path, selector, e))
    ok, why = rsx.identity_check(marked, table, it)
    if not ok:
        raise Undecided("identity check failed for %s :: %s: %s" % (path, selector, why))
    rules = {}
    for e in table:
        rules[e["rule"]] = rules.get(e["rule"], 0) + 1
    l0, l1 = it.lines()
    report.append({"path": path, "selector": selector, "kind": it.kind, "name": it.name,
                   "lines": [l0, l1], "sha256": it.sha(), "rewrites": rules, "rx": rx,
                   "contracted": has_sig, "skipped_optional": skipped})
    return rsx.strip_markers(marked)

def build_expr_after(head, secs, report):
    """/*@expr-after path :: selector :: <<anchor>> #k  -- the expression following the anchor
    tokens up to the next `,` or `;` at depth 0 (a field initialiser or a const value)."""
    m = re.match(r"(.*?) :: (.*) :: <<(.*?)>>(?:\s*#(\d+))?\s*$", head, re.S)
    if not m:
        raise Undecided("bad @expr-after %r" % head)
    path, selector, seq, k = m.group(1).strip(), m.group(2).strip(), m.group(3), int(m.group(4) or 1)
    try:
        it = rsx.find_item(read_src(path), path, selector)
        w = rsx.Weaver(it)
        i = w.find_seq(seq, k) + len(rsx.sigtext(seq))
    except (LookupError, OSError) as e:
        raise Undecided("lost item/anchor: %s" % e)
    st = w.st
    e = i
    while e < len(st) and not (st[e].k == "p" and st[e].s in (",", ";", "}", ")", "]")):
        if st[e].s in rsx.OPEN: e = rsx.match_close(st, e)
        e += 1
    text = w.text[st[i].a:st[e - 1].b]
    l0, l1 = it.lines()
    report.append({"path": path, "selector": selector + " :: expression after <<%s>>" % seq, "kind": "expr",
                   "name": it.name, "lines": [l0, l1], "sha256": hashlib.sha256(text.encode()).hexdigest(),
                   "rewrites": {}, "rx": [], "contracted": False})
    return text

def build_expr(head, secs, report):
    """/*@expr path :: selector :: <<anchor>> #k  -- extracts the condition expression of the `if`
    whose condition contains the anchor (used to slice a guard out of a large function)."""
    m = re.match(r"(.*?) :: (.*) :: <<(.*?)>>(?:\s*#(\d+))?\s*$", head, re.S)
    if not m:
        raise Undecided("bad @expr %r" % head)
    path, selector, seq, k = m.group(1).strip(), m.group(2).strip(), m.group(3), int(m.group(4) or 1)
    try:
        it = rsx.find_item(read_src(path), path, selector)
        w = rsx.Weaver(it)
        i = w.find_seq(seq, k)
    except (LookupError, OSError) as e:
        raise Undecided("lost item/anchor: %s" % e)
    st = w.st
    j = i
    while j >= 0 and not (st[j].k == "id" and st[j].s == "if"):
        j -= 1
    if j < 0:
        raise Undecided("@expr: no enclosing `if` for %r" % seq)
    e = j + 1
    while st[e].s != "{":
        if st[e].s in "([": e = rsx.match_close(st, e)
        e += 1
    text = w.text[st[j + 1].a:st[e - 1].b]
    l0, l1 = it.lines()
    report.append({"path": path, "selector": selector + " :: if-condition <<%s>>" % seq, "kind": "expr",
                   "name": it.name, "lines": [l0, l1], "sha256": hashlib.sha256(text.encode()).hexdigest(),
                   "rewrites": {}, "rx": [], "contracted": False})
    return text

def add_std_extra(tpl):
    """auto-include shims/std_extra.rs right after `verus! {`, minus the items the unit specifies itself"""
    if "//@no-std-extra" in tpl or "pub mod std_extra" in tpl:
        return tpl
    try:
        lines = open(os.path.join(VERIF, "shims", "std_extra.rs")).read().split("\n")
    except OSError:
        return tpl
    flat = re.sub(r"\s+", "", tpl)
    keep = []
    i = 0
    while i < len(lines):
        ln = lines[i]
        if ln.strip().startswith("//@@ "):
            key = ln.strip()[5:]
            ty, fn = key.split("::")
            pat = re.compile(r"assume_specification(<[^\[]*>)?\[(<)?%s(::<[^\]]*?>)?(asOrd>)?::%s\]" % (re.escape(ty), re.escape(fn)))
            if pat.search(flat):
                i += 2; continue
            keep.append(lines[i + 1]); i += 2; continue
        keep.append(ln); i += 1
    m = re.search(r"verus!\s*\{", tpl)
    if not m:
        return tpl
    return tpl[:m.end()] + "\n" + "\n".join(keep) + "\n" + tpl[m.end():]

def assemble(unit, probe=False):
    udir = os.path.join(VERIF, "units", unit)
    tpl = open(os.path.join(udir, "unit.rs")).read()
    report = []
    def sub(m):
        kind, body = m.group(1), m.group(2)
        head, secs = parse_sections(body.strip("\n").lstrip(" "))
        if kind == "include":
            return open(os.path.join(VERIF, head.strip())).read()
        if kind == "expr":
            return build_expr(head, secs, report)
        if kind == "expr-after":
            return build_expr_after(head, secs, report)
        return build_item(kind, head, secs, probe, report)
    # includes may themselves contain directives: expand includes first
    for _ in range(3):
        tpl2 = re.sub(r"/\*@include\b(.*?)@\*/", lambda m: open(os.path.join(VERIF, m.group(1).strip())).read(), tpl, flags=re.S)
        if tpl2 == tpl: break
        tpl = tpl2
    tpl = add_std_extra(tpl)
    # record where each block lands
    out = []
    pos = 0
    spans = []
    for m in _BLOCK.finditer(tpl):
        out.append(tpl[pos:m.start()])
        n_before = len(report)
        txt = sub(m)
        start_line = "".join(out).count("\n") + 1
        out.append(txt)
        end_line = "".join(out).count("\n") + 1
        for r in report[n_before:]:
            r["asm_lines"] = [start_line, end_line]
        pos = m.end()
    out.append(tpl[pos:])
    text = "".join(out)
    ov = os.environ.get("VERIF_OVERLAY")
    # overlay (mutation / patch) runs get their own build directory so that parallel runs do not mix
    bdir = os.path.join(CACHE, "build", unit if not ov else "%s-ov-%s" % (unit, hashlib.sha256(ov.encode()).hexdigest()[:10]))
    os.makedirs(bdir, exist_ok=True)
    fn = os.path.join(bdir, ("probe_" if probe else "") + unit.replace("-", "_") + ".rs")
    open(fn, "w").write(text)
    return fn, report, text

TRUST_PAT = re.compile(r"external_body|assume_specification|\baxiom\b|\bassume\s*\(|\badmit\s*\(|external_type_specification|external_fn_specification|#\[verifier::external\]|uninterp\s+spec")

def trusted_scan(text):
    """mechanical scan for every unchecked assumption in the assembled file"""
    found = []
    lines = text.split("\n")
    for i, ln in enumerate(lines):
        if TRUST_PAT.search(ln) and not ln.lstrip().startswith("//"):
            # name = next fn/struct/axiom identifier on this or following lines
            ctx = " ".join(lines[i:i + 4])
            m = re.search(r"\b(?:fn|struct|enum|type)\s+([A-Za-z_][A-Za-z0-9_]*)|assume_specification(?:<[^>]*>)?\s*\[\s*([^\]]+)\]", ctx)
            kind = TRUST_PAT.search(ln).group(0).strip("( ")
            name = (m.group(1) or m.group(2)) if m else "?"
            found.append("%s %s" % (kind, name.strip()))
    # de-dup, keep order
    seen = set(); out = []
    for f in found:
        if f not in seen:
            seen.add(f); out.append(f)
    return out

def run_verus(fn, rlimit=None, seed=None, threads=None, timeout=900):
    cmd = ["verus", fn, "--triggers-mode", "silent", "--output-json", "--time", "--error-format=json",
           "--multiple-errors", "3"]
    if rlimit: cmd += ["--rlimit", str(rlimit)]
    if seed: cmd += ["--smt-option", "smt.random_seed=%d" % seed]
    if threads: cmd += ["--num-threads", str(threads)]
    t0 = time.time()
    try:
        p = subprocess.run(cmd, capture_output=True, text=True, timeout=timeout, cwd=os.path.dirname(fn))
    except subprocess.TimeoutExpired:
        return {"status": "timeout", "wall_s": time.time() - t0, "cmd": " ".join(cmd), "functions": {}, "diags": [], "raw_err": "timeout"}
    wall = time.time() - t0
    res = {"status": "ok", "wall_s": wall, "cmd": " ".join(cmd), "functions": {}, "diags": [], "raw_err": ""}
    try:
        j = json.loads(p.stdout)
    except Exception:
        j = None
    diags = []
    rendered = []
    for ln in p.stderr.split("\n"):
        ln = ln.strip()
        if not ln.startswith("{"):
            if ln: rendered.append(ln)
            continue
        try:
            d = json.loads(ln)
        except Exception:
            continue
        if d.get("level") not in ("error",):
            continue
        if d.get("message", "").startswith("aborting due to"):
            continue
        prim = [s for s in d.get("spans", []) if s.get("is_primary")]
        allsp = d.get("spans", [])
        diags.append({"message": d.get("message"),
                      "line": prim[0]["line_start"] if prim else None,
                      "text": (prim[0]["text"][0]["text"].strip() if prim and prim[0].get("text") else ""),
                      "label": prim[0].get("label") if prim else None,
                      "lines": [s["line_start"] for s in allsp],
                      "rendered": d.get("rendered", "")})
    res["diags"] = diags
    res["raw_err"] = "\n".join(rendered)[-4000:]
    if j is None or "verification-results" not in j:
        res["status"] = "compile-error"
        return res
    vr = j["verification-results"]
    res["verified"] = vr.get("verified", 0); res["errors"] = vr.get("errors", 0)
    if vr.get("encountered-vir-error"):
        res["status"] = "compile-error"
    smt = j.get("times-ms", {}).get("smt", {})
    res["smt_ms"] = smt.get("total", 0)
    for mod in smt.get("smt-run-module-times", []):
        for f in mod.get("function-breakdown", []):
            name = f["function"]
            prev = res["functions"].get(name)
            ent = {"success": f["success"] and (prev["success"] if prev else True),
                   "time_us": f.get("time-micros", 0) + (prev["time_us"] if prev else 0),
                   "rlimit": f.get("rlimit", 0) + (prev["rlimit"] if prev else 0),
                   "mode": f.get("mode:", "")}
            res["functions"][name] = ent
    if not res["functions"] and diags:
        res["status"] = "compile-error"
    if not res["functions"] and res["errors"] and not vr.get("verified"):
        # errors before SMT (type errors etc.)
        if not any("postcondition" in (d["message"] or "") or "assertion" in (d["message"] or "") or "precondition" in (d["message"] or "") for d in diags):
            res["status"] = "compile-error"
    return res

def short(fname):
    """strip the crate prefix (file stem) from a Verus function path"""
    return fname.split("::", 1)[1] if "::" in fname else fname

if __name__ == "__main__":
    unit = sys.argv[1]
    probe = "--probe" in sys.argv
    try:
        fn, rep, text = assemble(unit, probe)
    except Undecided as e:
        print("UNDECIDED", e); sys.exit(2)
    print("assembled", fn, "items:", len(rep))
    r = run_verus(fn)
    print("status", r["status"], "verified", r.get("verified"), "errors", r.get("errors"), "wall %.1fs" % r["wall_s"])
    for d in r["diags"]:
        print(d["rendered"])
    if r["status"] != "ok":
        print(r["raw_err"])
    for f, v in sorted(r["functions"].items()):
        if not v["success"]:
            print("FAILED", f)
