#!/bin/bash
# usage: tools/check_patch.sh <patch.diff> <PID> [extra bin/check args]
# Runs the Verus part of a property check against /repo + patch WITHOUT touching /repo:
# the files named by the patch are copied to a scratch overlay, patched there, and read through VERIF_OVERLAY.
P=$(readlink -f $1); PID=$2; shift 2
OV=$(mktemp -d)
for f in $(grep '^+++ b/' $P | sed 's#^+++ b/##'); do mkdir -p $OV/$(dirname $f); cp /repo/$f $OV/$f 2>/dev/null; done
( cd $OV && patch -p1 -s < $P ) || { echo "patch failed"; rm -rf $OV; exit 3; }
VERIF_OVERLAY=$OV /verif/bin/check $PID --no-kani "$@"
rc=$?
rm -rf $OV
exit $rc
