#!/usr/bin/env python3
"""merge units/*/props.frag.json (delivered per unit) into props.json; idempotent"""
import json, glob, os, sys
V = os.path.dirname(os.path.dirname(os.path.abspath(__file__)))
props = json.load(open(os.path.join(V, "props.json")))
only = set(sys.argv[1:])
for f in sorted(glob.glob(os.path.join(V, "units", "*", "props.frag.json"))):
    fr = json.load(open(f))
    unit = fr["unit"]
    if only and unit not in only:
        continue
    pids = fr["property"] if isinstance(fr["property"], list) else [fr["property"]]
    for pid in pids:
        p = props.setdefault(pid, {"level": "proof", "units": [], "kani": [], "scope": "", "assumptions": [], "unit_scopes": {}})
        p.setdefault("unit_scopes", {})
        if unit not in p["units"]:
            p["units"].append(unit)
        p["unit_scopes"][unit] = fr["scope"]
        for a in fr.get("assumptions", []):
            if a not in p["assumptions"]:
                p["assumptions"].append(a)
        # property-level scope = concatenation of the unit scopes (hand-written scope kept if no unit_scopes)
        p["scope"] = " || ".join("[%s] %s" % (u, s) for u, s in p["unit_scopes"].items()) if p["unit_scopes"] else p["scope"]
json.dump(props, open(os.path.join(V, "props.json"), "w"), indent=1)
print("merged; properties:", sorted(props.keys()))
