// Unit c37_resource_assertions -- property C37 "Resource assertions accept exactly the balances they describe"
// Real code: radix-common/src/data/manifest/model/manifest_resource_assertion.rs (31 functions, bodies verbatim)
//   ManifestResourceConstraint::{is_valid_for, is_valid_for_fungible_use, is_valid_for_non_fungible_use,
//       validate_fungible, validate_non_fungible}
//   GeneralResourceConstraint::{is_valid_for_fungible_use, is_valid_for_non_fungible_use, validate_fungible,
//       validate_non_fungible_ids, validate_amount, is_valid_independent_of_resource_type, normalize}
//   LowerBound::{Ord::cmp, cmp_upper, zero, non_zero, validate_amount, is_valid_for_fungible_use,
//       is_valid_for_non_fungible_use, equivalent_decimal, is_satisfied_by}
//   UpperBound::{Ord::cmp, zero, unbounded, validate_amount, is_valid_for_fungible_use,
//       is_valid_for_non_fungible_use, equivalent_decimal}
//   AllowedIds::{validate_ids, allowlist_equivalent_length, is_valid_for_fungible_use}
// Oracle: sat_f / sat_nf (meaning of a constraint over attos / finite id sets), valid_* (documented validity),
// normal_form (documented normal form), key_cmp (documented order of bounds).
// Pure lemmas: satisfiability of valid constraints, meaning of the bound order, FINDING witness lemma_fungible_gap.
// FINDING (replayed on the real crate, see finding_replay/): GeneralResourceConstraint::is_valid_for_fungible_use
// accepts an empty allowlist without the documented "upper bound is zero" clause; normalize then changes the
// accepted fungible amounts of such a "valid" constraint.
use vstd::prelude::*;
verus! {
/*@include shims/rt.rs @*/
/*@include shims/decimal_cmp.rs @*/
/*@include shims/index_set.rs @*/

pub mod env {
    use vstd::prelude::*;
    // Environment: non-fungible local ids are opaque values; only equality and Clone matter.
    #[verifier::external_body]
    pub struct NonFungibleLocalId { x: Vec<u8> }
    impl Clone for NonFungibleLocalId {
        #[verifier::external_body]
        fn clone(&self) -> (r: Self) ensures r == *self { unimplemented!() }
    }
    // Environment: a resource address knows (from its entity-type byte) whether the resource is fungible.
    #[verifier::external_body]
    #[derive(Clone, Copy)]
    pub struct ResourceAddress { x: [u8; 30] }
    impl ResourceAddress {
        pub uninterp spec fn fungible(&self) -> bool;
        #[verifier::external_body]
        pub fn is_fungible(&self) -> (r: bool) ensures r == self.fungible() { unimplemented!() }
    }
}

pub mod unit {
    use vstd::prelude::*;
    use core::cmp::Ordering;
    use super::rt::*;
    use super::decimal_cmp::*;
    use super::decimal_cmp::Decimal;
    use super::index_set::*;
    use super::env::*;
    broadcast use {ax_dec_range, ax_dec_ext, ax_index_set_order};

    /*@item radix-common/src/data/manifest/model/manifest_resource_assertion.rs :: enum LowerBound
    @derive Clone, Copy
    @*/
    /*@item radix-common/src/data/manifest/model/manifest_resource_assertion.rs :: enum UpperBound
    @derive Clone, Copy
    @*/
    /*@item radix-common/src/data/manifest/model/manifest_resource_assertion.rs :: enum AllowedIds
    @derive
    @*/
    /*@item radix-common/src/data/manifest/model/manifest_resource_assertion.rs :: struct GeneralResourceConstraint
    @derive
    @*/
    /*@item radix-common/src/data/manifest/model/manifest_resource_assertion.rs :: enum ManifestResourceConstraint
    @derive
    @*/
    /*@item radix-common/src/data/manifest/model/manifest_resource_assertion.rs :: enum ResourceConstraintError
    @derive
    @*/

    pub type Id = NonFungibleLocalId;
    pub type Err = ResourceConstraintError;

    // ==========================================================================================
    // ORACLE -- the mathematical meaning of the constraints, written from the documentation of
    // the types (not from the validate functions).  Amounts are integers counting attos
    // (10^-18); a non-fungible balance is a finite set of ids, its amount is |ids| whole units.
    // ==========================================================================================
    pub open spec fn whole(n: nat) -> int { n * dec_one() }

    /// "NonZero represents a lower bound of an infinitesimal amount above 0"
    pub open spec fn lower_sat(l: LowerBound, a: int) -> bool {
        match l { LowerBound::NonZero => a > 0, LowerBound::Inclusive(x) => a >= dec_int(x) }
    }
    /// "Unbounded represents an upper bound above any possible decimal"
    pub open spec fn upper_sat(u: UpperBound, a: int) -> bool {
        match u { UpperBound::Inclusive(x) => a <= dec_int(x), UpperBound::Unbounded => true }
    }
    /// "the ids in the resource balance must be a subset of the allowlist"
    pub open spec fn allowed_sat(al: AllowedIds, ids: Set<Id>) -> bool {
        match al { AllowedIds::Allowlist(s) => ids.subset_of(s@), AllowedIds::Any => true }
    }
    /// fungible balance vs general constraint: "we disregard ids and permit non-integer balances"
    pub open spec fn sat_general_f(g: GeneralResourceConstraint, a: int) -> bool {
        lower_sat(g.lower_bound, a) && upper_sat(g.upper_bound, a)
    }
    pub open spec fn sat_general_nf(g: GeneralResourceConstraint, ids: Set<Id>) -> bool {
        &&& lower_sat(g.lower_bound, whole(ids.len()))
        &&& upper_sat(g.upper_bound, whole(ids.len()))
        &&& g.required_ids@.subset_of(ids)
        &&& allowed_sat(g.allowed_ids, ids)
    }
    /// fungible balance `a` (attos, a >= 0) satisfies the constraint
    pub open spec fn sat_f(c: ManifestResourceConstraint, a: int) -> bool {
        match c {
            ManifestResourceConstraint::NonZeroAmount => a > 0,
            ManifestResourceConstraint::ExactAmount(x) => a == dec_int(x),
            ManifestResourceConstraint::AtLeastAmount(x) => a >= dec_int(x),
            // a fungible balance holds no ids
            ManifestResourceConstraint::ExactNonFungibles(_) => false,
            ManifestResourceConstraint::AtLeastNonFungibles(_) => false,
            ManifestResourceConstraint::General(g) => sat_general_f(g, a),
        }
    }
    /// non-fungible balance `ids` satisfies the constraint
    pub open spec fn sat_nf(c: ManifestResourceConstraint, ids: Set<Id>) -> bool {
        match c {
            ManifestResourceConstraint::NonZeroAmount => ids.len() > 0,
            ManifestResourceConstraint::ExactAmount(x) => whole(ids.len()) == dec_int(x),
            ManifestResourceConstraint::AtLeastAmount(x) => whole(ids.len()) >= dec_int(x),
            ManifestResourceConstraint::ExactNonFungibles(s) => ids =~= s@,
            ManifestResourceConstraint::AtLeastNonFungibles(s) => s@.subset_of(ids),
            ManifestResourceConstraint::General(g) => sat_general_nf(g, ids),
        }
    }

    // ---- which error reports a rejected balance (first violated clause, in documentation order:
    //      lower bound, upper bound, required ids, allowed ids) -------------------------------------
    pub open spec fn lower_err(l: LowerBound, amount: Decimal) -> Err {
        match l {
            LowerBound::NonZero => ResourceConstraintError::ExpectedNonZeroAmount,
            LowerBound::Inclusive(x) => ResourceConstraintError::ExpectedAtLeastAmount { expected_at_least_amount: x, actual_amount: amount },
        }
    }
    pub open spec fn amount_err(g: GeneralResourceConstraint, amount: Decimal) -> Err {
        if !lower_sat(g.lower_bound, dec_int(amount)) { lower_err(g.lower_bound, amount) }
        else { ResourceConstraintError::ExpectedAtMostAmount { expected_at_most_amount: g.upper_bound->Inclusive_0, actual_amount: amount } }
    }
    pub open spec fn missing_err(e: Err, required: Set<Id>, ids: Set<Id>) -> bool {
        e matches ResourceConstraintError::NonFungibleMissing { missing_id } && required.contains(missing_id) && !ids.contains(missing_id)
    }
    pub open spec fn not_allowed_err(e: Err, allowed: Set<Id>, ids: Set<Id>) -> bool {
        e matches ResourceConstraintError::NonFungibleNotAllowed { disallowed_id } && ids.contains(disallowed_id) && !allowed.contains(disallowed_id)
    }
    pub open spec fn general_nf_err(g: GeneralResourceConstraint, ids: Set<Id>, e: Err) -> bool {
        if !lower_sat(g.lower_bound, whole(ids.len())) || !upper_sat(g.upper_bound, whole(ids.len())) {
            exists|amount: Decimal| dec_int(amount) == whole(ids.len()) && e == amount_err(g, amount)
        } else if !g.required_ids@.subset_of(ids) { missing_err(e, g.required_ids@, ids) }
        else { g.allowed_ids is Allowlist && not_allowed_err(e, g.allowed_ids->Allowlist_0@, ids) }
    }
    pub open spec fn fungible_err(c: ManifestResourceConstraint, amount: Decimal) -> Err {
        match c {
            ManifestResourceConstraint::NonZeroAmount => ResourceConstraintError::ExpectedNonZeroAmount,
            ManifestResourceConstraint::ExactAmount(x) => ResourceConstraintError::ExpectedExactAmount { expected_amount: x, actual_amount: amount },
            ManifestResourceConstraint::AtLeastAmount(x) => ResourceConstraintError::ExpectedAtLeastAmount { expected_at_least_amount: x, actual_amount: amount },
            ManifestResourceConstraint::ExactNonFungibles(_) => ResourceConstraintError::NonFungibleConstraintNotValidForFungibleResource,
            ManifestResourceConstraint::AtLeastNonFungibles(_) => ResourceConstraintError::NonFungibleConstraintNotValidForFungibleResource,
            ManifestResourceConstraint::General(g) => amount_err(g, amount),
        }
    }
    pub open spec fn non_fungible_err(c: ManifestResourceConstraint, ids: Set<Id>, e: Err) -> bool {
        match c {
            ManifestResourceConstraint::NonZeroAmount => e is ExpectedNonZeroAmount,
            ManifestResourceConstraint::ExactAmount(x) =>
                e matches ResourceConstraintError::ExpectedExactAmount { expected_amount, actual_amount } && expected_amount == x && dec_int(actual_amount) == whole(ids.len()),
            ManifestResourceConstraint::AtLeastAmount(x) =>
                e matches ResourceConstraintError::ExpectedAtLeastAmount { expected_at_least_amount, actual_amount } && expected_at_least_amount == x && dec_int(actual_amount) == whole(ids.len()),
            ManifestResourceConstraint::ExactNonFungibles(s) =>
                if !s@.subset_of(ids) { missing_err(e, s@, ids) } else { not_allowed_err(e, s@, ids) },
            ManifestResourceConstraint::AtLeastNonFungibles(s) => missing_err(e, s@, ids),
            ManifestResourceConstraint::General(g) => general_nf_err(g, ids, e),
        }
    }

    // ---- the decimals the documentation calls "equivalent" to the symbolic bounds ---------------
    pub open spec fn lower_eq(l: LowerBound) -> int {
        match l { LowerBound::NonZero => 1, LowerBound::Inclusive(x) => dec_int(x) }
    }
    pub open spec fn upper_eq(u: UpperBound) -> int {
        match u { UpperBound::Inclusive(x) => dec_int(x), UpperBound::Unbounded => dec_max_int() }
    }
    pub open spec fn is_whole(a: int) -> bool { a % dec_one() == 0 }

    // ---- VALIDITY, from the "## Validity" section of the GeneralResourceConstraint documentation --
    /// numeric bounds satisfiable; id bounds satisfiable; numeric and id bounds overlap
    pub open spec fn valid_general(g: GeneralResourceConstraint) -> bool {
        &&& lower_eq(g.lower_bound) <= upper_eq(g.upper_bound)
        &&& whole(g.required_ids@.len()) <= upper_eq(g.upper_bound)
        &&& (g.allowed_ids matches AllowedIds::Allowlist(al) ==>
                g.required_ids@.subset_of(al@) && lower_eq(g.lower_bound) <= whole(al@.len()))
    }
    /// "The amount in Inclusive(amount) is required to be non-negative"
    pub open spec fn bounds_non_negative(g: GeneralResourceConstraint) -> bool {
        lower_eq(g.lower_bound) >= 0 && upper_eq(g.upper_bound) >= 0
    }
    /// fungible use, the part of the documented rule that the code checks: required_ids empty and
    /// allowed_ids Any or an empty allowlist
    pub open spec fn valid_f_checked(g: GeneralResourceConstraint) -> bool {
        &&& g.required_ids@.len() == 0
        &&& bounds_non_negative(g)
        &&& (g.allowed_ids matches AllowedIds::Allowlist(al) ==> al@.len() == 0)
        &&& valid_general(g)
    }
    /// fungible use as DOCUMENTED: an empty allowlist is acceptable only "if the upper bound is zero"
    pub open spec fn valid_f_doc(g: GeneralResourceConstraint) -> bool {
        valid_f_checked(g) && (g.allowed_ids is Allowlist ==> upper_eq(g.upper_bound) == 0)
    }
    /// non-fungible use: "any decimal balances must be integers"
    pub open spec fn valid_nf(g: GeneralResourceConstraint) -> bool {
        &&& bounds_non_negative(g)
        &&& (g.lower_bound matches LowerBound::Inclusive(x) ==> is_whole(dec_int(x)))
        &&& (g.upper_bound matches UpperBound::Inclusive(x) ==> is_whole(dec_int(x)))
        &&& valid_general(g)
    }
    /// validity of a manifest constraint for fungible use; `as_documented` selects valid_f_doc over valid_f_checked
    pub open spec fn valid_mf(c: ManifestResourceConstraint, as_documented: bool) -> bool {
        match c {
            ManifestResourceConstraint::NonZeroAmount => true,
            ManifestResourceConstraint::ExactAmount(x) => dec_int(x) >= 0,
            ManifestResourceConstraint::AtLeastAmount(x) => dec_int(x) >= 0,
            ManifestResourceConstraint::ExactNonFungibles(_) => false,
            ManifestResourceConstraint::AtLeastNonFungibles(_) => false,
            ManifestResourceConstraint::General(g) => if as_documented { valid_f_doc(g) } else { valid_f_checked(g) },
        }
    }
    pub open spec fn valid_mnf(c: ManifestResourceConstraint) -> bool {
        match c {
            ManifestResourceConstraint::NonZeroAmount => true,
            ManifestResourceConstraint::ExactAmount(x) => dec_int(x) >= 0 && is_whole(dec_int(x)),
            ManifestResourceConstraint::AtLeastAmount(x) => dec_int(x) >= 0 && is_whole(dec_int(x)),
            ManifestResourceConstraint::ExactNonFungibles(_) => true,
            ManifestResourceConstraint::AtLeastNonFungibles(_) => true,
            ManifestResourceConstraint::General(g) => valid_nf(g),
        }
    }

    // ---- NORMAL FORM, from the "## Normalization" section ---------------------------------------
    /// `required_ids.len() <= lower_bound <= upper_bound <= allowlist.len()` and detection of exact definition
    pub open spec fn normal_form(g: GeneralResourceConstraint) -> bool {
        &&& whole(g.required_ids@.len()) <= lower_eq(g.lower_bound) <= upper_eq(g.upper_bound)
        &&& (g.allowed_ids matches AllowedIds::Allowlist(al) ==> upper_eq(g.upper_bound) <= whole(al@.len()))
        &&& (whole(g.required_ids@.len()) == upper_eq(g.upper_bound) ==>
                (g.allowed_ids matches AllowedIds::Allowlist(al) && al@ =~= g.required_ids@))
        &&& (g.allowed_ids matches AllowedIds::Allowlist(al) ==>
                (lower_eq(g.lower_bound) == whole(al@.len()) ==> g.required_ids@ =~= al@))
    }

    // ---- proof devices for normalize (relations between the ghost snapshots) ---------------------
    pub open spec fn tighten_rel(g0: GeneralResourceConstraint, g1: GeneralResourceConstraint) -> bool {
        &&& g1.required_ids == g0.required_ids
        &&& g1.allowed_ids == g0.allowed_ids
        &&& (if lower_eq(g0.lower_bound) < whole(g0.required_ids@.len()) {
                g1.lower_bound is Inclusive && lower_eq(g1.lower_bound) == whole(g0.required_ids@.len())
             } else { g1.lower_bound == g0.lower_bound })
        &&& (if (g0.allowed_ids matches AllowedIds::Allowlist(al) && whole(al@.len()) < upper_eq(g0.upper_bound)) {
                g1.upper_bound is Inclusive && upper_eq(g1.upper_bound) == whole(g0.allowed_ids->Allowlist_0@.len())
             } else { g1.upper_bound == g0.upper_bound })
    }
    pub proof fn lemma_tighten(g0: GeneralResourceConstraint, g1: GeneralResourceConstraint, ids: Set<Id>)
        requires tighten_rel(g0, g1)
        ensures sat_general_nf(g0, ids) <==> sat_general_nf(g1, ids)
    {
        if g0.required_ids@.subset_of(ids) { vstd::set_lib::lemma_len_subset(g0.required_ids@, ids); }
        if let AllowedIds::Allowlist(al) = g0.allowed_ids {
            if ids.subset_of(al@) { vstd::set_lib::lemma_len_subset(ids, al@); }
        }
    }
    pub proof fn lemma_tighten_valid(g0: GeneralResourceConstraint, g1: GeneralResourceConstraint)
        requires tighten_rel(g0, g1), valid_general(g0)
        ensures valid_general(g1),
                whole(g1.required_ids@.len()) <= lower_eq(g1.lower_bound),
                g1.allowed_ids matches AllowedIds::Allowlist(al) ==> upper_eq(g1.upper_bound) <= whole(al@.len()),
                bounds_non_negative(g0) ==> bounds_non_negative(g1),
                valid_nf(g0) ==> valid_nf(g1),
    {
        if let AllowedIds::Allowlist(al) = g0.allowed_ids {
            vstd::set_lib::lemma_len_subset(g0.required_ids@, al@);
        }
    }
    /// FINDING witness: for a constraint that passes the fungible validity check with an empty allowlist and a
    /// positive upper bound, the tightening done by normalize changes the accepted fungible amounts
    /// (the old upper bound is accepted before and rejected after).
    pub proof fn lemma_fungible_gap(g0: GeneralResourceConstraint, g1: GeneralResourceConstraint)
        requires tighten_rel(g0, g1), valid_f_checked(g0), !valid_f_doc(g0)
        ensures sat_general_f(g0, upper_eq(g0.upper_bound)), !sat_general_f(g1, upper_eq(g0.upper_bound)), upper_eq(g0.upper_bound) > 0
    {}
    /// C37 AS STATED: normalising a general constraint that the code DECLARES valid for fungible use
    /// (is_valid_for_fungible_use() == true, i.e. valid_f_checked) never changes which amounts it accepts.
    /// EXPECTED TO FAIL -- known finding, listed in known_findings.txt and replayed on the real crate in
    /// finding_replay/: with an empty allowlist and a positive (or unbounded) upper bound the code's validity
    /// check passes, and the first step of normalize (tighten_rel, proved inside `normalize`) lowers the upper bound to 0.
    pub proof fn lemma_normalize_keeps_fungible_acceptance_KNOWN_FINDING(g0: GeneralResourceConstraint, g1: GeneralResourceConstraint, a: int)
        requires tighten_rel(g0, g1), valid_f_checked(g0), a >= 0
        ensures sat_general_f(g0, a) <==> sat_general_f(g1, a)
    {}
    pub open spec fn exact_rel(g1: GeneralResourceConstraint, g2: GeneralResourceConstraint) -> bool {
        &&& g2.lower_bound == g1.lower_bound
        &&& g2.upper_bound == g1.upper_bound
        &&& (if allow_len(g1.allowed_ids) > g1.required_ids@.len() && whole(g1.required_ids@.len()) == upper_eq(g1.upper_bound) {
                g2.required_ids == g1.required_ids && (g2.allowed_ids matches AllowedIds::Allowlist(s) && s@ == g1.required_ids@)
             } else if allow_len(g1.allowed_ids) > g1.required_ids@.len()
                    && (g1.allowed_ids matches AllowedIds::Allowlist(al) && whole(al@.len()) == lower_eq(g1.lower_bound)) {
                g2.allowed_ids == g1.allowed_ids && g2.required_ids@ == g1.allowed_ids->Allowlist_0@
             } else {
                g2.required_ids == g1.required_ids && g2.allowed_ids == g1.allowed_ids
             })
    }
    pub open spec fn allow_len(al: AllowedIds) -> nat {
        match al { AllowedIds::Allowlist(s) => s@.len(), AllowedIds::Any => usize::MAX as nat }
    }
    pub proof fn lemma_exact_normal(g1: GeneralResourceConstraint, g2: GeneralResourceConstraint)
        requires exact_rel(g1, g2), valid_general(g1), g1.required_ids@.len() < usize::MAX,
                 whole(g1.required_ids@.len()) <= lower_eq(g1.lower_bound),
                 g1.allowed_ids matches AllowedIds::Allowlist(al) ==> upper_eq(g1.upper_bound) <= whole(al@.len()),
        ensures normal_form(g2)
    {
        if let AllowedIds::Allowlist(al) = g1.allowed_ids {
            vstd::set_lib::lemma_len_subset(g1.required_ids@, al@);
            if al@.len() <= g1.required_ids@.len() { vstd::set_lib::lemma_subset_equality(g1.required_ids@, al@); }
        }
    }
    pub proof fn lemma_exact(g1: GeneralResourceConstraint, g2: GeneralResourceConstraint, ids: Set<Id>)
        requires exact_rel(g1, g2), valid_general(g1), g1.required_ids@.len() <= usize::MAX,
        ensures sat_general_nf(g1, ids) <==> sat_general_nf(g2, ids)
    {
        let req = g1.required_ids@;
        if req.subset_of(ids) { vstd::set_lib::lemma_len_subset(req, ids); }
        if ids.subset_of(req) { vstd::set_lib::lemma_len_subset(ids, req); }
        if req.subset_of(ids) && ids.len() <= req.len() { vstd::set_lib::lemma_subset_equality(req, ids); }
        if let AllowedIds::Allowlist(al) = g1.allowed_ids {
            if ids.subset_of(al@) { vstd::set_lib::lemma_len_subset(ids, al@); }
            if al@.subset_of(ids) { vstd::set_lib::lemma_len_subset(al@, ids); }
            if ids.subset_of(al@) && al@.len() <= ids.len() { vstd::set_lib::lemma_subset_equality(ids, al@); }
        }
    }

    // ---- ORDER of bounds, from the "Trait Implementations" notes: --------------------------------
    // LowerBound: `Inclusive(Zero) < NonZero < Inclusive(AnyPositive)`; UpperBound: `Inclusive(Any) < Unbounded`.
    // A bound is placed on the amount line at (attos, infinitesimal part).
    pub open spec fn lower_key(l: LowerBound) -> (int, int) {
        match l { LowerBound::NonZero => (0, 1), LowerBound::Inclusive(x) => (dec_int(x), 0) }
    }
    pub open spec fn upper_key(u: UpperBound) -> (int, int) {
        match u { UpperBound::Inclusive(x) => (dec_int(x), 0), UpperBound::Unbounded => (dec_max_int() + 1, 0) }
    }
    pub open spec fn key_cmp(a: (int, int), b: (int, int)) -> Ordering {
        if a.0 < b.0 || (a.0 == b.0 && a.1 < b.1) { Ordering::Less }
        else if a == b { Ordering::Equal }
        else { Ordering::Greater }
    }
    /// meaning of the order: a lower bound lies above an upper bound exactly when no amount fits between them
    pub proof fn lemma_cmp_upper_meaning(l: LowerBound, u: UpperBound)
        requires upper_eq(u) >= 0
        ensures key_cmp(lower_key(l), upper_key(u)) is Greater
                    <==> (forall|a: int| dec_in_range(a) ==> !(lower_sat(l, a) && #[trigger] upper_sat(u, a)))
    {
        let w: int = match l { LowerBound::NonZero => 1, LowerBound::Inclusive(x) => if dec_int(x) >= 0 { dec_int(x) } else { 0 } };
        if !(key_cmp(lower_key(l), upper_key(u)) is Greater) {
            assert(dec_in_range(w) && lower_sat(l, w) && upper_sat(u, w));
        }
    }
    /// meaning of the order among lower bounds / among upper bounds: a greater bound accepts fewer / more amounts
    pub proof fn lemma_lower_cmp_meaning(l1: LowerBound, l2: LowerBound, a: int)
        requires !(key_cmp(lower_key(l1), lower_key(l2)) is Greater), a >= 0, lower_sat(l2, a)
        ensures lower_sat(l1, a)
    {}
    pub proof fn lemma_upper_cmp_meaning(u1: UpperBound, u2: UpperBound, a: int)
        requires !(key_cmp(upper_key(u1), upper_key(u2)) is Greater), dec_in_range(a), upper_sat(u1, a)
        ensures upper_sat(u2, a)
    {}

    // ---- SATISFIABILITY of constraints declared valid --------------------------------------------
    pub open spec fn witness_f(c: ManifestResourceConstraint) -> int {
        match c {
            ManifestResourceConstraint::NonZeroAmount => 1,
            ManifestResourceConstraint::ExactAmount(x) => dec_int(x),
            ManifestResourceConstraint::AtLeastAmount(x) => dec_int(x),
            ManifestResourceConstraint::General(g) => lower_eq(g.lower_bound),
            _ => 0,
        }
    }
    /// a constraint declared valid for fungible use accepts some representable non-negative amount
    /// (for a general constraint: `lower_bound.equivalent_decimal()`)
    pub proof fn lemma_valid_fungible_satisfiable(c: ManifestResourceConstraint)
        requires valid_mf(c, false)
        ensures witness_f(c) >= 0, dec_in_range(witness_f(c)), sat_f(c, witness_f(c)),
    {}

    /// between two finite sets a <= b there is a set of every intermediate size
    pub proof fn lemma_between(a: Set<Id>, b: Set<Id>, n: nat) -> (s: Set<Id>)
        requires a.subset_of(b), a.len() <= n <= b.len()
        ensures a.subset_of(s), s.subset_of(b), s.len() == n
        decreases n - a.len()
    {
        if a.len() == n { a } else {
            if b.subset_of(a) { assert(a =~= b); }
            let x = choose|x: Id| b.contains(x) && !a.contains(x);
            lemma_between(a.insert(x), b, n)
        }
    }
    /// what a universe `u` of ids must offer for the constraint to be satisfiable inside it; with an
    /// allowlist the universe IS the allowlist, otherwise ids must be available in sufficient number
    pub open spec fn universe_ok(c: ManifestResourceConstraint, u: Set<Id>) -> bool {
        match c {
            ManifestResourceConstraint::NonZeroAmount => u.len() >= 1,
            ManifestResourceConstraint::ExactAmount(x) => dec_int(x) <= whole(u.len()),
            ManifestResourceConstraint::AtLeastAmount(x) => dec_int(x) <= whole(u.len()),
            ManifestResourceConstraint::ExactNonFungibles(s) => s@.subset_of(u),
            ManifestResourceConstraint::AtLeastNonFungibles(s) => s@.subset_of(u),
            ManifestResourceConstraint::General(g) => {
                &&& g.required_ids@.subset_of(u)
                &&& lower_eq(g.lower_bound) <= whole(u.len())
                &&& (g.allowed_ids matches AllowedIds::Allowlist(al) ==> u == al@)
            }
        }
    }
    pub proof fn lemma_valid_general_nf_satisfiable(g: GeneralResourceConstraint, u: Set<Id>) -> (ids: Set<Id>)
        requires valid_nf(g), universe_ok(ManifestResourceConstraint::General(g), u)
        ensures ids.subset_of(u), sat_general_nf(g, ids)
    {
        let req = g.required_ids@;
        vstd::set_lib::lemma_len_subset(req, u);
        let k: nat = match g.lower_bound { LowerBound::NonZero => 1nat, LowerBound::Inclusive(x) => (dec_int(x) / dec_one()) as nat };
        let n: nat = if req.len() >= k { req.len() } else { k };
        assert(whole(k) >= lower_eq(g.lower_bound) && whole(k) <= upper_eq(g.upper_bound) && k <= u.len());
        let s = lemma_between(req, u, n);
        s
    }
    /// a constraint declared valid for non-fungible use accepts some balance drawn from any sufficient universe
    pub proof fn lemma_valid_non_fungible_satisfiable(c: ManifestResourceConstraint, u: Set<Id>) -> (ids: Set<Id>)
        requires valid_mnf(c), universe_ok(c, u)
        ensures ids.subset_of(u), sat_nf(c, ids)
    {
        match c {
            ManifestResourceConstraint::NonZeroAmount => lemma_between(Set::<Id>::empty(), u, 1),
            ManifestResourceConstraint::ExactAmount(x) => lemma_between(Set::<Id>::empty(), u, (dec_int(x) / dec_one()) as nat),
            ManifestResourceConstraint::AtLeastAmount(x) => lemma_between(Set::<Id>::empty(), u, (dec_int(x) / dec_one()) as nat),
            ManifestResourceConstraint::ExactNonFungibles(s) => s@,
            ManifestResourceConstraint::AtLeastNonFungibles(s) => s@,
            ManifestResourceConstraint::General(g) => lemma_valid_general_nf_satisfiable(g, u),
        }
    }
    /// with an allowlist no assumption about the id universe is needed: validity itself makes the allowlist sufficient
    pub proof fn lemma_allowlist_is_sufficient_universe(g: GeneralResourceConstraint)
        requires valid_nf(g), g.allowed_ids is Allowlist
        ensures universe_ok(ManifestResourceConstraint::General(g), g.allowed_ids->Allowlist_0@)
    {}

    /// `a.difference(b)` yields nothing exactly when a is a subset of b
    pub proof fn lemma_difference_empty(a: Set<Id>, b: Set<Id>)
        ensures a.difference(b).len() == 0 <==> a.subset_of(b)
    {
        if a.difference(b).len() == 0 {
            assert forall|x: Id| a.contains(x) implies b.contains(x) by {
                if !b.contains(x) { assert(a.difference(b).contains(x)); }
            }
        }
        if a.subset_of(b) { assert(a.difference(b) =~= Set::<Id>::empty()); }
    }

    impl LowerBound {
        /*@fn radix-common/src/data/manifest/model/manifest_resource_assertion.rs :: impl LowerBound :: fn validate_amount
        @sig
            requires dec_int(*amount) >= 0
            ensures ret is Ok <==> lower_sat(*self, dec_int(*amount)),
                    ret matches Err(e) ==> e == lower_err(*self, *amount),
        @*/
        /*@fn radix-common/src/data/manifest/model/manifest_resource_assertion.rs :: impl LowerBound :: fn equivalent_decimal
        @sig
            ensures dec_int(ret) == lower_eq(*self)
        @*/
        /*@fn radix-common/src/data/manifest/model/manifest_resource_assertion.rs :: impl LowerBound :: fn is_satisfied_by
        @sig
            requires dec_int(amount) >= 0
            ensures ret == lower_sat(*self, dec_int(amount))
        @*/
        /*@fn radix-common/src/data/manifest/model/manifest_resource_assertion.rs :: impl LowerBound :: fn is_valid_for_fungible_use
        @sig
            ensures ret == (lower_eq(*self) >= 0)
        @*/
        /*@fn radix-common/src/data/manifest/model/manifest_resource_assertion.rs :: impl LowerBound :: fn is_valid_for_non_fungible_use
        @sig
            ensures ret == (lower_eq(*self) >= 0 && (*self matches LowerBound::Inclusive(x) ==> is_whole(dec_int(x))))
        @*/
    }

    impl LowerBound {
        // `impl Ord for LowerBound` (placed in an inherent impl: the unit keeps no Ord derive/impl on the type)
        /*@fn radix-common/src/data/manifest/model/manifest_resource_assertion.rs :: impl Ord for LowerBound :: fn cmp
        @sig
            ensures ret == key_cmp(lower_key(*self), lower_key(*other))
        @*/
        /*@fn radix-common/src/data/manifest/model/manifest_resource_assertion.rs :: impl LowerBound :: fn cmp_upper
        @sig
            requires upper_eq(*other) >= 0
            ensures ret == key_cmp(lower_key(*self), upper_key(*other))
        @*/
        /*@fn radix-common/src/data/manifest/model/manifest_resource_assertion.rs :: impl LowerBound :: fn zero
        @sig
            ensures ret is Inclusive, lower_eq(ret) == 0
        @*/
        /*@fn radix-common/src/data/manifest/model/manifest_resource_assertion.rs :: impl LowerBound :: fn non_zero
        @sig
            ensures ret is NonZero
        @*/
    }

    impl UpperBound {
        /*@fn radix-common/src/data/manifest/model/manifest_resource_assertion.rs :: impl Ord for UpperBound :: fn cmp
        @sig
            ensures ret == key_cmp(upper_key(*self), upper_key(*other))
        @*/
        /*@fn radix-common/src/data/manifest/model/manifest_resource_assertion.rs :: impl UpperBound :: fn zero
        @sig
            ensures ret is Inclusive, upper_eq(ret) == 0
        @*/
        /*@fn radix-common/src/data/manifest/model/manifest_resource_assertion.rs :: impl UpperBound :: fn unbounded
        @sig
            ensures ret is Unbounded
        @*/
        /*@fn radix-common/src/data/manifest/model/manifest_resource_assertion.rs :: impl UpperBound :: fn validate_amount
        @sig
            ensures ret is Ok <==> upper_sat(*self, dec_int(*amount)),
                    ret matches Err(e) ==> (*self matches UpperBound::Inclusive(x) && e == (ResourceConstraintError::ExpectedAtMostAmount { expected_at_most_amount: x, actual_amount: *amount })),
        @*/
        /*@fn radix-common/src/data/manifest/model/manifest_resource_assertion.rs :: impl UpperBound :: fn equivalent_decimal
        @sig
            ensures dec_int(ret) == upper_eq(*self)
        @*/
        /*@fn radix-common/src/data/manifest/model/manifest_resource_assertion.rs :: impl UpperBound :: fn is_valid_for_fungible_use
        @sig
            ensures ret == (upper_eq(*self) >= 0)
        @*/
        /*@fn radix-common/src/data/manifest/model/manifest_resource_assertion.rs :: impl UpperBound :: fn is_valid_for_non_fungible_use
        @sig
            ensures ret == (upper_eq(*self) >= 0 && (*self matches UpperBound::Inclusive(x) ==> is_whole(dec_int(x))))
        @*/
    }

    impl AllowedIds {
        /*@fn radix-common/src/data/manifest/model/manifest_resource_assertion.rs :: impl AllowedIds :: fn validate_ids
        @sig
            ensures ret is Ok <==> allowed_sat(*self, ids@),
                    ret matches Err(e) ==> (*self matches AllowedIds::Allowlist(s) && not_allowed_err(e, s@, ids@)),
        @loop 1 iter it
                    invariant
                        *self matches AllowedIds::Allowlist(s) && s == *allowed,
                        forall|i: int| 0 <= i < it.index@ ==> allowed@.contains(#[trigger] ids.order()[i]),
        @before <<return Err>> #1
                        proof { assert(ids.order().to_set().contains(*id)); }
        @after <<for id in ids>> #1
                proof {
                    assert forall|x: Id| ids@.contains(x) implies allowed@.contains(x) by { assert(ids.order().to_set().contains(x)); }
                }
        @*/
        /*@fn radix-common/src/data/manifest/model/manifest_resource_assertion.rs :: impl AllowedIds :: fn allowlist_equivalent_length
        @sig
            ensures ret == allow_len(*self)
        @*/
        /*@fn radix-common/src/data/manifest/model/manifest_resource_assertion.rs :: impl AllowedIds :: fn is_valid_for_fungible_use
        @sig
            ensures ret == (*self matches AllowedIds::Allowlist(s) ==> s@.len() == 0)
        @*/
    }

    impl GeneralResourceConstraint {
        /*@fn radix-common/src/data/manifest/model/manifest_resource_assertion.rs :: impl GeneralResourceConstraint :: fn is_valid_independent_of_resource_type
        @sig
            ensures ret == valid_general(*self)
        @*/
        /*@fn radix-common/src/data/manifest/model/manifest_resource_assertion.rs :: impl GeneralResourceConstraint :: fn is_valid_for_fungible_use
        @sig
            // FINDING (see props.frag.json): the code does not check the documented clause "an empty
            // allowlist is acceptable only if the upper bound is zero"; the contract brackets the result
            // between the documented rule and the part of it that is checked, so it holds before and after a fix.
            ensures valid_f_doc(*self) ==> ret,
                    ret ==> valid_f_checked(*self),
        @*/
        /*@fn radix-common/src/data/manifest/model/manifest_resource_assertion.rs :: impl GeneralResourceConstraint :: fn is_valid_for_non_fungible_use
        @sig
            ensures ret == valid_nf(*self)
        @*/
        /*@fn radix-common/src/data/manifest/model/manifest_resource_assertion.rs :: impl GeneralResourceConstraint :: fn normalize
        @sig
            requires valid_general(*old(self))
            ensures
                // the accepted set of non-fungible balances is unchanged
                forall|ids: Set<Id>| sat_general_nf(*old(self), ids) <==> #[trigger] sat_general_nf(*final(self), ids),
                // the accepted set of fungible balances is unchanged (for constraints valid as documented)
                valid_f_doc(*old(self)) ==> forall|a: int| sat_general_f(*old(self), a) <==> #[trigger] sat_general_f(*final(self), a),
                // validity is kept
                valid_general(*final(self)),
                valid_nf(*old(self)) ==> valid_nf(*final(self)),
                valid_f_doc(*old(self)) ==> valid_f_doc(*final(self)),
                // the result is in the documented normal form
                old(self).required_ids@.len() < usize::MAX ==> normal_form(*final(self)),
        @entry
            let ghost g0 = *self;
        @before <<if self.allowed_ids.allowlist_equivalent_length()>> #1
            let ghost g1 = *self;
            proof {
                assert(tighten_rel(g0, g1));
                lemma_tighten_valid(g0, g1);
                assert forall|ids: Set<Id>| sat_general_nf(g0, ids) <==> #[trigger] sat_general_nf(g1, ids) by { lemma_tighten(g0, g1, ids); }
            }
        @after <<if self.allowed_ids.allowlist_equivalent_length()>> #1
            proof {
                let g2 = *self;
                assert(exact_rel(g1, g2));
                assert forall|ids: Set<Id>| sat_general_nf(g1, ids) <==> #[trigger] sat_general_nf(g2, ids) by { lemma_exact(g1, g2, ids); }
                if g0.required_ids@.len() < usize::MAX { lemma_exact_normal(g1, g2); }
            }
        @*/
        /*@fn radix-common/src/data/manifest/model/manifest_resource_assertion.rs :: impl GeneralResourceConstraint :: fn validate_non_fungible_ids
        @sig
            ensures ret is Ok <==> sat_general_nf(*self, ids@),
                    ret matches Err(e) ==> general_nf_err(*self, ids@, e),
        @entry
            proof { lemma_difference_empty(self.required_ids@, ids@); }
        @*/
        /*@fn radix-common/src/data/manifest/model/manifest_resource_assertion.rs :: impl GeneralResourceConstraint :: fn validate_amount
        @sig
            requires dec_int(amount) >= 0
            ensures ret is Ok <==> sat_general_f(*self, dec_int(amount)),
                    ret matches Err(e) ==> e == amount_err(*self, amount),
        @*/
        /*@fn radix-common/src/data/manifest/model/manifest_resource_assertion.rs :: impl GeneralResourceConstraint :: fn validate_fungible
        @sig
            requires dec_int(amount) >= 0
            ensures ret is Ok <==> sat_general_f(*self, dec_int(amount)),
                    ret matches Err(e) ==> e == amount_err(*self, amount),
        @*/
    }

    impl ManifestResourceConstraint {
        /*@fn radix-common/src/data/manifest/model/manifest_resource_assertion.rs :: impl ManifestResourceConstraint :: fn is_valid_for
        @sig
            ensures resource_address.fungible() ==> (valid_mf(*self, true) ==> ret) && (ret ==> valid_mf(*self, false)),
                    !resource_address.fungible() ==> ret == valid_mnf(*self),
        @*/
        /*@fn radix-common/src/data/manifest/model/manifest_resource_assertion.rs :: impl ManifestResourceConstraint :: fn is_valid_for_fungible_use
        @sig
            ensures valid_mf(*self, true) ==> ret,
                    ret ==> valid_mf(*self, false),
        @*/
        /*@fn radix-common/src/data/manifest/model/manifest_resource_assertion.rs :: impl ManifestResourceConstraint :: fn is_valid_for_non_fungible_use
        @sig
            ensures ret == valid_mnf(*self)
        @*/
        /*@fn radix-common/src/data/manifest/model/manifest_resource_assertion.rs :: impl ManifestResourceConstraint :: fn validate_fungible
        @sig
            requires dec_int(amount) >= 0
            ensures ret is Ok <==> sat_f(self, dec_int(amount)),
                    ret matches Err(e) ==> e == fungible_err(self, amount),
        @*/
        /*@fn radix-common/src/data/manifest/model/manifest_resource_assertion.rs :: impl ManifestResourceConstraint :: fn validate_non_fungible
        @sig
            ensures ret is Ok <==> sat_nf(self, ids@),
                    ret matches Err(e) ==> non_fungible_err(self, ids@, e),
        @before <<if let Some(disallowed_id)>> #1
                proof { lemma_difference_empty(expected_exact_ids@, ids@); lemma_difference_empty(ids@, expected_exact_ids@); }
        @before <<if let Some(missing_id)>> #2
                proof { lemma_difference_empty(expected_at_least_ids@, ids@); }
        @*/
    }
}
} // verus!
fn main() {}
