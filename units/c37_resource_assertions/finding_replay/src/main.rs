use radix_common::prelude::*;

fn main() {
    // A general constraint for a FUNGIBLE resource: no required ids, bounds [0, unbounded), EMPTY allowlist.
    let mut g = GeneralResourceConstraint {
        required_ids: Default::default(),
        lower_bound: LowerBound::Inclusive(Decimal::ZERO),
        upper_bound: UpperBound::Unbounded,
        allowed_ids: AllowedIds::Allowlist(Default::default()),
    };
    println!("is_valid_for_fungible_use       = {}", g.is_valid_for_fungible_use());
    println!("is_valid_for(XRD)               = {}", ManifestResourceConstraint::General(g.clone()).is_valid_for(&XRD));
    let five = Decimal::from(5u32);
    println!("before normalize: validate_fungible(5) = {:?}", g.validate_fungible(five));
    println!("before normalize: Manifest validate_fungible(5) = {:?}", ManifestResourceConstraint::General(g.clone()).validate_fungible(five));
    g.normalize();
    println!("normalized = {:?}", g);
    println!("after  normalize: validate_fungible(5) = {:?}", g.validate_fungible(five));
}
