// Unit c43_non_fungible_ids -- property C43 "Non-fungible ids are never reused and data changes are restricted"
// (and, as a by-product, the non-fungible half of C03's supply bookkeeping).
// Real code: radix-engine/src/blueprints/resource/non_fungible/non_fungible_resource_manager.rs ::
//     create_non_fungibles, NonFungibleResourceManagerBlueprint::{mint_non_fungible, mint_ruid_non_fungible,
//     mint_single_ruid_non_fungible, burn, package_burn, burn_internal, update_non_fungible_data,
//     non_fungible_exists, get_non_fungible, create_bucket, update_total_supply, assert_mintable, assert_burnable,
//     assert_is_not_ruid, assert_is_ruid}
//   radix-engine/src/blueprints/resource/bucket_common.rs :: drop_non_fungible_bucket
//   radix-engine-interface/src/blueprints/resource/resource.rs :: LiquidNonFungibleResource::{new, ids, into_ids,
//     amount}, LockedNonFungibleResource::{is_locked, default}
// run against a ghost key-value store with per-entry lock flags (env::SystemApi):
//     kv : NonFungibleLocalId -> (value: Option<data>, locked)      (an absent key is the default entry: None, unlocked)
// plus the fields (0 = IdType, 1 = MutableFields, 2 = TotalSupply), features and live objects of the resource manager.
// A LIVE non-fungible is an entry with Some(data); a TOMBSTONE is a locked entry with None.  The assumed KV-entry
// API (opening an entry for writing fails if the entry is locked -- the ONLY lock check; set / remove / lock need a
// write handle) is the behaviour of radix-engine/src/system/system.rs that unit c51_locked_state puts under contract.
use vstd::prelude::*;
// radix-rust `indexmap!{ k => v, .. }` (radix-rust/src/rust.rs): a fresh IndexMap, the pairs inserted in order
macro_rules! indexmap {
    ($($key:expr => $value:expr),* $(,)?) => ({
        let mut temp = index_map_new();
        $( temp.insert($key, $value); )*
        temp
    });
}
verus! {
/*@include shims/rt.rs @*/
/*@include shims/decimal.rs @*/
/*@include shims/maps.rs @*/
/*@include shims/sets.rs @*/

pub mod env {
    use vstd::prelude::*;
    use super::decimal::*;
    use super::decimal::Decimal;
    use super::maps::IndexMap;
    use super::sets::*;
    use super::unit::{NonFungibleResourceManagerError, NonFungibleIdType, BucketError, DroppedNonFungibleBucket,
        NonFungibleResourceManagerMutableFieldsV1};

    // ================================================================================ addresses / ids ==
    /// radix-common/src/types/node_id.rs
    #[derive(Clone, Copy, PartialEq, Eq)]
    pub struct NodeId(pub [u8; 30]);
    /// radix-common/src/data/scrypto/model/own.rs
    #[derive(Clone, Copy, PartialEq, Eq)]
    pub struct Own(pub NodeId);
    impl Own {
        pub fn as_node_id(&self) -> (r: &NodeId) ensures *r == self.0 { &self.0 }
    }
    /// radix-common ResourceAddress (checked wrapper around NodeId)
    #[derive(Clone, Copy, PartialEq, Eq)]
    pub struct ResourceAddress(pub NodeId);
    impl ResourceAddress {
        pub fn new_or_panic(raw: [u8; 30]) -> (r: Self) ensures r == ResourceAddress(NodeId(raw)) { ResourceAddress(NodeId(raw)) }
    }
    impl From<NodeId> for [u8; 30] {
        fn from(n: NodeId) -> (r: [u8; 30]) ensures r == n.0 { n.0 }
    }
    impl vstd::std_specs::convert::FromSpecImpl<NodeId> for [u8; 30] {
        open spec fn obeys_from_spec() -> bool { true }
        open spec fn from_spec(n: NodeId) -> [u8; 30] { n.0 }
    }

    /// radix-common NonFungibleLocalId: opaque.  `id_type()` is the variant tag; `to_key()` is its SBOR
    /// encoding, ASSUMED injective (`id_of_key` is the decoder).
    #[verifier::external_body]
    pub struct NonFungibleLocalId { _p: Vec<u8> }
    pub uninterp spec fn id_of_key(key: Seq<u8>) -> NonFungibleLocalId;
    impl NonFungibleLocalId {
        pub uninterp spec fn id_type_spec(&self) -> NonFungibleIdType;
        #[verifier::external_body]
        pub fn id_type(&self) -> (r: NonFungibleIdType) ensures r == self.id_type_spec() { unimplemented!() }
        #[verifier::external_body]
        pub fn to_key(&self) -> (r: Vec<u8>) ensures id_of_key(r@) == *self { unimplemented!() }
        /// `NonFungibleLocalId::RUID(RUIDNonFungibleLocalId(bytes))`
        #[verifier::external_body]
        pub fn ruid(value: [u8; 32]) -> (r: Self) ensures r.id_type_spec() == NonFungibleIdType::RUID { unimplemented!() }
    }
    impl Clone for NonFungibleLocalId {
        #[verifier::external_body]
        fn clone(&self) -> (r: Self) ensures r == *self { unimplemented!() }
    }
    /// `#[derive(PartialEq)]` on the field-less enum NonFungibleIdType is equality of variants
    impl vstd::std_specs::cmp::PartialEqSpecImpl for NonFungibleIdType {
        open spec fn obeys_eq_spec() -> bool { true }
        open spec fn eq_spec(&self, o: &NonFungibleIdType) -> bool { *self == *o }
    }
    /// radix-common NonFungibleGlobalId
    pub struct NonFungibleGlobalId { pub resource_address: ResourceAddress, pub local_id: NonFungibleLocalId }
    impl NonFungibleGlobalId {
        pub fn new(resource_address: ResourceAddress, local_id: NonFungibleLocalId) -> (r: Self)
            ensures r.resource_address == resource_address, r.local_id == local_id
        { NonFungibleGlobalId { resource_address, local_id } }
    }

    /// sbor `Value<ScryptoCustomValueKind, ScryptoCustomValue>`: only the Tuple shape is looked at
    #[verifier::external_body]
    pub struct OpaqueValue { _p: Vec<u8> }
    pub enum Value { Tuple { fields: Vec<Value> }, Other(OpaqueValue) }
    pub type ScryptoValue = Value;

    /// radix-engine/src/errors.rs :: error_models::OwnedNodeId (a display wrapper around NodeId)
    pub mod error_models {
        use vstd::prelude::*;
        pub struct OwnedNodeId(pub super::NodeId);
        impl From<super::NodeId> for OwnedNodeId {
            fn from(n: super::NodeId) -> (r: OwnedNodeId) ensures r.0 == n { OwnedNodeId(n) }
        }
        impl vstd::std_specs::convert::FromSpecImpl<super::NodeId> for OwnedNodeId {
            open spec fn obeys_from_spec() -> bool { true }
            open spec fn from_spec(n: super::NodeId) -> OwnedNodeId { OwnedNodeId(n) }
        }
    }
    pub struct ProofError;
    pub enum ApplicationError { NonFungibleResourceManagerError(NonFungibleResourceManagerError), BucketError(BucketError), Other }
    pub enum RuntimeError { ApplicationError(ApplicationError), Environment }

    // ================================================================================ API types ==
    pub type FieldHandle = u32;
    pub type FieldIndex = u8;
    pub type KeyValueEntryHandle = u32;
    pub type CollectionIndex = u8;
    pub type ActorStateHandle = u32;
    pub type ActorRefHandle = u32;
    /// radix-engine-interface/src/api/mod.rs
    pub const ACTOR_STATE_SELF: ActorStateHandle = 0u32;
    pub const ACTOR_REF_GLOBAL: ActorRefHandle = 1u32;
    /// radix-engine-interface/src/api/field_api.rs (bitflags): MUTABLE = 0b0000_0001, read_only() = empty()
    pub struct LockFlags { pub bits: u32 }
    impl LockFlags {
        pub const MUTABLE: LockFlags = LockFlags { bits: 1 };
        pub fn read_only() -> (r: LockFlags) ensures r.bits == 0 { LockFlags { bits: 0 } }
    }
    pub open spec fn is_mutable(flags: LockFlags) -> bool { flags.bits == 1 }

    /// `declare_native_blueprint_state!{ .. collections: { data: KeyValue {..} } }`: one collection, index 0
    pub enum NonFungibleResourceManagerCollection { DataKeyValue }
    impl NonFungibleResourceManagerCollection {
        pub fn collection_index(&self) -> (r: CollectionIndex) ensures r == 0u8 { 0u8 }
    }

    /// `fields: { id_type, mutable_fields, total_supply }` of the same macro invocation: `#[repr(u8)]` enum in
    /// declaration order with `From<..> for u8` (= discriminant)
    pub enum NonFungibleResourceManagerField { IdType, MutableFields, TotalSupply }
    pub open spec fn I_ID_TYPE() -> FieldIndex { 0u8 }
    pub open spec fn I_MUTABLE() -> FieldIndex { 1u8 }
    pub open spec fn I_SUPPLY() -> FieldIndex { 2u8 }
    pub open spec fn nfrm_idx(f: NonFungibleResourceManagerField) -> FieldIndex {
        match f {
            NonFungibleResourceManagerField::IdType => I_ID_TYPE(),
            NonFungibleResourceManagerField::MutableFields => I_MUTABLE(),
            NonFungibleResourceManagerField::TotalSupply => I_SUPPLY(),
        }
    }
    impl From<NonFungibleResourceManagerField> for u8 {
        fn from(f: NonFungibleResourceManagerField) -> (r: u8) ensures r == nfrm_idx(f)
        { match f { NonFungibleResourceManagerField::IdType => 0u8, NonFungibleResourceManagerField::MutableFields => 1u8, NonFungibleResourceManagerField::TotalSupply => 2u8 } }
    }
    impl vstd::std_specs::convert::FromSpecImpl<NonFungibleResourceManagerField> for u8 {
        open spec fn obeys_from_spec() -> bool { true }
        open spec fn from_spec(f: NonFungibleResourceManagerField) -> u8 { nfrm_idx(f) }
    }
    /// the non-fungible bucket: fields { liquid, locked }
    pub enum NonFungibleBucketField { Liquid, Locked }
    pub open spec fn I_LIQUID() -> FieldIndex { 0u8 }
    pub open spec fn I_LOCKED() -> FieldIndex { 1u8 }
    pub open spec fn bucket_idx(f: NonFungibleBucketField) -> FieldIndex {
        match f { NonFungibleBucketField::Liquid => I_LIQUID(), NonFungibleBucketField::Locked => I_LOCKED() }
    }
    impl From<NonFungibleBucketField> for u8 {
        fn from(f: NonFungibleBucketField) -> (r: u8) ensures r == bucket_idx(f)
        { match f { NonFungibleBucketField::Liquid => 0u8, NonFungibleBucketField::Locked => 1u8 } }
    }
    impl vstd::std_specs::convert::FromSpecImpl<NonFungibleBucketField> for u8 {
        open spec fn obeys_from_spec() -> bool { true }
        open spec fn from_spec(f: NonFungibleBucketField) -> u8 { bucket_idx(f) }
    }

    /// the `features:` of the macro invocation.  `feature_name()` is `stringify!(<property name>)`: five distinct
    /// strings, so the name determines the feature (`feature_of`, uninterpreted inverse).
    pub enum NonFungibleResourceManagerFeature { TrackTotalSupply, VaultFreeze, VaultRecall, Mint, Burn }
    pub uninterp spec fn feature_of(name: Seq<char>) -> NonFungibleResourceManagerFeature;
    impl NonFungibleResourceManagerFeature {
        #[verifier::external_body]
        pub fn feature_name(&self) -> (r: &'static str) ensures feature_of(r@) == *self { unimplemented!() }
    }

    // ================================================================================ ghost store ==
    /// ghost value of a field (of the resource manager, or of a bucket object)
    pub enum GhostVal {
        IdType(NonFungibleIdType), MutableFields(Map<String, usize>), Supply(Decimal),
        LiquidNf(Set<NonFungibleLocalId>), LockedNf(Map<NonFungibleLocalId, usize>), Other,
    }
    /// which kind of value the three resource manager fields hold (established by `create_object`)
    pub open spec fn kind_ok(idx: FieldIndex, g: GhostVal) -> bool {
        (idx == I_ID_TYPE() ==> g is IdType) && (idx == I_MUTABLE() ==> g is MutableFields) && (idx == I_SUPPLY() ==> g is Supply)
    }
    /// a live (heap) object: its blueprint name and fields
    pub ghost struct ObjG { pub blueprint: Seq<char>, pub fields: Map<FieldIndex, GhostVal> }
    /// spec view of a typed field payload
    pub trait VerifPayload: Sized {
        spec fn accepts(v: GhostVal) -> bool;
        spec fn ghost(&self) -> GhostVal;
    }
    /// radix-engine-interface FieldValue: an encoded field payload (+ locked flag)
    #[verifier::external_body]
    pub struct FieldValue { _p: () }
    impl FieldValue {
        pub uninterp spec fn ghost(&self) -> GhostVal;
        #[verifier::external_body]
        pub fn new<S: VerifPayload>(value: S) -> (r: FieldValue) ensures r.ghost() == value.ghost() { unimplemented!() }
    }
    pub open spec fn ghost_fields(m: Map<FieldIndex, FieldValue>) -> Map<FieldIndex, GhostVal> {
        m.map_values(|v: FieldValue| v.ghost())
    }
    /// what the raw (encoded) fields returned by `drop_object` decode to
    pub uninterp spec fn raw_fields(raw: Vec<Vec<u8>>) -> Map<FieldIndex, GhostVal>;
    /// what a raw (encoded) entry value decodes to
    pub uninterp spec fn raw_value(raw: Seq<u8>) -> ScryptoValue;
    /// ASSUMED: SBOR decoding at type T is a (partial) function of the bytes
    pub uninterp spec fn dec<T>(raw: Seq<u8>) -> Option<T>;
    /// sbor DecodeError: opaque
    pub struct DecodeError;
    #[verifier::external]
    impl core::fmt::Debug for DecodeError {
        fn fmt(&self, f: &mut core::fmt::Formatter<'_>) -> core::fmt::Result { f.write_str("DecodeError") }
    }
    /// radix-common scrypto_decode: total to Result, Ok exactly on the bytes that decode (as in unit c51_locked_state)
    #[verifier::external_body]
    pub fn scrypto_decode<T>(buf: &[u8]) -> (r: Result<T, DecodeError>)
        ensures match dec::<T>(buf@) { Some(t) => r == Ok::<T, DecodeError>(t), None => r is Err }
    { unimplemented!() }
    /// one entry of the Data collection
    pub ghost struct EntryG { pub value: Option<ScryptoValue>, pub locked: bool }
    pub type Kv = Map<NonFungibleLocalId, EntryG>;
    /// an entry that was never touched is the default: no value, not locked
    pub open spec fn entry_of(kv: Kv, id: NonFungibleLocalId) -> EntryG {
        if kv.contains_key(id) { kv[id] } else { EntryG { value: None, locked: false } }
    }
    pub ghost struct State {
        /// the Data key-value collection of the current actor (SELF = the non-fungible resource manager)
        pub kv: Kv,
        /// open entry handles -> (id, opened MUTABLE)
        pub kv_handles: Map<KeyValueEntryHandle, (NonFungibleLocalId, bool)>,
        /// fields of the resource manager
        pub fields: Map<FieldIndex, GhostVal>,
        /// open field handles -> (field, opened MUTABLE)
        pub handles: Map<FieldHandle, (FieldIndex, bool)>,
        /// features the resource manager was instantiated with (immutable)
        pub features: Set<NonFungibleResourceManagerFeature>,
        /// live objects owned by the current call frame (buckets)
        pub objects: Map<NodeId, ObjG>,
    }

    /// spec view of a typed entry payload (stands for ScryptoEncode / ScryptoDecode of the payload type)
    pub trait KvPayload: Sized { spec fn ghost(&self) -> ScryptoValue; }

    /// ASSUMED: the system API itself fails with kernel / system / module errors only, never with a
    /// blueprint-level `RuntimeError::ApplicationError`.
    pub trait SystemApiError: Sized { spec fn is_application_error(&self) -> bool; }
    impl SystemApiError for RuntimeError {
        open spec fn is_application_error(&self) -> bool { *self is ApplicationError }
    }

    /// Ghost model of the key-value-entry part of radix-engine-interface SystemApi (actor_key_value_entry_api.rs,
    /// key_value_entry_api.rs).  A failing call changes nothing.
    ///   * opening an entry with LockFlags::MUTABLE FAILS if the entry is locked (system.rs actor_open_key_value_entry:
    ///     KeyValueEntryLocked; under contract in unit c51_locked_state); a read-only open always may succeed.
    ///     THIS is the only place where the lock flag is looked at:
    ///   * set / remove / lock succeed only through a handle opened MUTABLE (else NotAKeyValueEntryWriteHandle);
    ///     `set` writes `KeyValueEntrySubstate::unlocked_entry(value)` (value := Some, flag := unlocked), `remove`
    ///     takes the value and keeps the flag, `lock` keeps the value and sets the flag (system.rs,
    ///     system_substates.rs) -- none of them checks the flag of the entry it overwrites.
    pub trait SystemApi<E: SystemApiError>: Sized {
        spec fn state(&self) -> State;

        fn actor_open_key_value_entry(&mut self, object_handle: ActorStateHandle, collection_index: CollectionIndex, key: &Vec<u8>, flags: LockFlags) -> (r: Result<KeyValueEntryHandle, E>)
            requires object_handle == ACTOR_STATE_SELF, collection_index == 0
            ensures
                r matches Ok(h) ==> !old(self).state().kv_handles.contains_key(h)
                    && (is_mutable(flags) ==> !entry_of(old(self).state().kv, id_of_key(key@)).locked)
                    && final(self).state() == (State { kv_handles: old(self).state().kv_handles.insert(h, (id_of_key(key@), is_mutable(flags))), ..old(self).state() }),
                r is Err ==> final(self).state() == old(self).state(),
                r matches Err(e) ==> !e.is_application_error();

        fn key_value_entry_get_typed<S: KvPayload>(&mut self, handle: KeyValueEntryHandle) -> (r: Result<Option<S>, E>)
            requires old(self).state().kv_handles.contains_key(handle)
            ensures
                final(self).state() == old(self).state(),
                r matches Ok(o) ==> (match entry_of(old(self).state().kv, old(self).state().kv_handles[handle].0).value {
                    Some(v) => o matches Some(s) && s.ghost() == v,
                    None => o is None,
                }),
                r matches Err(e) ==> !e.is_application_error();

        fn key_value_entry_set_typed<S: KvPayload>(&mut self, handle: KeyValueEntryHandle, value: S) -> (r: Result<(), E>)
            requires old(self).state().kv_handles.contains_key(handle)
            ensures
                r is Ok ==> old(self).state().kv_handles[handle].1
                    && final(self).state() == (State { kv: old(self).state().kv.insert(old(self).state().kv_handles[handle].0,
                            EntryG { value: Some(value.ghost()), locked: false }), ..old(self).state() }),
                r is Err ==> final(self).state() == old(self).state(),
                r matches Err(e) ==> !e.is_application_error();

        /// raw form of `set_typed`
        fn key_value_entry_set(&mut self, handle: KeyValueEntryHandle, buffer: Vec<u8>) -> (r: Result<(), E>)
            requires old(self).state().kv_handles.contains_key(handle)
            ensures
                r is Ok ==> old(self).state().kv_handles[handle].1
                    && final(self).state() == (State { kv: old(self).state().kv.insert(old(self).state().kv_handles[handle].0,
                            EntryG { value: Some(raw_value(buffer@)), locked: false }), ..old(self).state() }),
                r is Err ==> final(self).state() == old(self).state(),
                r matches Err(e) ==> !e.is_application_error();

        /// removes the value (system_substates.rs `KeyValueEntrySubstate::remove`: value := None, lock flag kept) and
        /// returns the encoding of the removed `Option<value>` (system.rs: `scrypto_encode(&value)`)
        fn key_value_entry_remove(&mut self, handle: KeyValueEntryHandle) -> (r: Result<Vec<u8>, E>)
            requires old(self).state().kv_handles.contains_key(handle)
            ensures
                r matches Ok(bytes) ==> dec::<Option<ScryptoValue>>(bytes@) == Some(entry_of(old(self).state().kv, old(self).state().kv_handles[handle].0).value),
                r is Ok ==> old(self).state().kv_handles[handle].1
                    && final(self).state() == (State { kv: old(self).state().kv.insert(old(self).state().kv_handles[handle].0,
                            EntryG { value: None, locked: entry_of(old(self).state().kv, old(self).state().kv_handles[handle].0).locked }), ..old(self).state() }),
                r is Err ==> final(self).state() == old(self).state(),
                r matches Err(e) ==> !e.is_application_error();

        /// locks the entry: the value is kept, the flag is set (for good)
        fn key_value_entry_lock(&mut self, handle: KeyValueEntryHandle) -> (r: Result<(), E>)
            requires old(self).state().kv_handles.contains_key(handle)
            ensures
                r is Ok ==> old(self).state().kv_handles[handle].1
                    && final(self).state() == (State { kv: old(self).state().kv.insert(old(self).state().kv_handles[handle].0,
                            EntryG { value: entry_of(old(self).state().kv, old(self).state().kv_handles[handle].0).value, locked: true }), ..old(self).state() }),
                r is Err ==> final(self).state() == old(self).state(),
                r matches Err(e) ==> !e.is_application_error();

        // ---- field API, features, objects (same model as unit c03_fungible_supply) ----
        fn actor_open_field(&mut self, object_handle: ActorStateHandle, field: FieldIndex, flags: LockFlags) -> (r: Result<FieldHandle, E>)
            requires object_handle == ACTOR_STATE_SELF
            ensures
                r matches Ok(h) ==> !old(self).state().handles.contains_key(h)
                    && final(self).state() == (State { handles: old(self).state().handles.insert(h, (field, is_mutable(flags))), ..old(self).state() }),
                r is Err ==> final(self).state() == old(self).state(),
                r matches Err(e) ==> !e.is_application_error();

        fn field_read_typed<S: VerifPayload>(&mut self, handle: FieldHandle) -> (r: Result<S, E>)
            requires
                old(self).state().handles.contains_key(handle),
                old(self).state().fields.contains_key(old(self).state().handles[handle].0),
                S::accepts(old(self).state().fields[old(self).state().handles[handle].0]),
            ensures
                final(self).state() == old(self).state(),
                r matches Ok(s) ==> s.ghost() == old(self).state().fields[old(self).state().handles[handle].0],
                r matches Err(e) ==> !e.is_application_error();

        fn field_write_typed<S: VerifPayload>(&mut self, handle: FieldHandle, substate: &S) -> (r: Result<(), E>)
            requires
                old(self).state().handles.contains_key(handle),
                old(self).state().handles[handle].1,
                kind_ok(old(self).state().handles[handle].0, substate.ghost()),
            ensures
                r is Ok ==> final(self).state() == (State { fields: old(self).state().fields.insert(old(self).state().handles[handle].0, substate.ghost()), ..old(self).state() }),
                r is Err ==> final(self).state() == old(self).state(),
                r matches Err(e) ==> !e.is_application_error();

        fn field_close(&mut self, handle: FieldHandle) -> (r: Result<(), E>)
            requires old(self).state().handles.contains_key(handle)
            ensures
                r is Ok ==> final(self).state() == (State { handles: old(self).state().handles.remove(handle), ..old(self).state() }),
                r is Err ==> final(self).state() == old(self).state(),
                r matches Err(e) ==> !e.is_application_error();

        /// creates a new object of an inner blueprint of this package with the given fields; its id is fresh
        fn new_simple_object(&mut self, blueprint_ident: &str, fields: IndexMap<FieldIndex, FieldValue>) -> (r: Result<NodeId, E>)
            ensures
                r matches Ok(id) ==> !old(self).state().objects.contains_key(id)
                    && final(self).state() == (State { objects: old(self).state().objects.insert(id,
                            ObjG { blueprint: blueprint_ident@, fields: ghost_fields(fields@) }), ..old(self).state() }),
                r is Err ==> final(self).state() == old(self).state(),
                r matches Err(e) ==> !e.is_application_error();

        fn actor_is_feature_enabled(&mut self, object_handle: ActorStateHandle, feature: &str) -> (r: Result<bool, E>)
            requires object_handle == ACTOR_STATE_SELF
            ensures
                final(self).state() == old(self).state(),
                r matches Ok(b) ==> b == old(self).state().features.contains(feature_of(feature@)),
                r matches Err(e) ==> !e.is_application_error();

        /// the global address of the resource manager
        fn actor_get_node_id(&mut self, ref_handle: ActorRefHandle) -> (r: Result<NodeId, E>)
            ensures final(self).state() == old(self).state(), r matches Err(e) ==> !e.is_application_error();

        /// drops a live object (system.rs: only an inner object of the actor's outer object, i.e. a bucket of THIS
        /// resource manager) and returns its encoded fields
        fn drop_object(&mut self, node_id: &NodeId) -> (r: Result<Vec<Vec<u8>>, E>)
            ensures
                r matches Ok(raw) ==> old(self).state().objects.contains_key(*node_id)
                    && raw_fields(raw) == old(self).state().objects[*node_id].fields
                    && final(self).state() == (State { objects: old(self).state().objects.remove(*node_id), ..old(self).state() }),
                r is Err ==> final(self).state() == old(self).state(),
                r matches Err(e) ==> !e.is_application_error();

        fn key_value_entry_close(&mut self, handle: KeyValueEntryHandle) -> (r: Result<(), E>)
            requires old(self).state().kv_handles.contains_key(handle)
            ensures
                r is Ok ==> final(self).state() == (State { kv_handles: old(self).state().kv_handles.remove(handle), ..old(self).state() }),
                r is Err ==> final(self).state() == old(self).state(),
                r matches Err(e) ==> !e.is_application_error();
    }

    /// macro-generated wrapper of the Data collection's value: a payload is its content
    pub struct NonFungibleResourceManagerDataEntryPayload { pub content: ScryptoValue }
    impl KvPayload for NonFungibleResourceManagerDataEntryPayload {
        open spec fn ghost(&self) -> ScryptoValue { self.content }
    }
    impl NonFungibleResourceManagerDataEntryPayload {
        pub fn from_content_source(c: ScryptoValue) -> (r: Self) ensures r.content == c { Self { content: c } }
        pub fn into_content(self) -> (r: ScryptoValue) ensures r == self.content { self.content }
    }

    impl NonFungibleResourceManagerDataEntryPayload {
        /// `AsMut<ScryptoValue>` of the wrapper: a mutable view of the content
        #[verifier::external_body]
        pub fn as_mut(&mut self) -> (r: &mut ScryptoValue)
            ensures *r == old(self).content, final(self).content == *final(r)
        { unimplemented!() }
    }
    /// sbor EncodeError: opaque
    pub struct EncodeError;
    #[verifier::external]
    impl core::fmt::Debug for EncodeError {
        fn fmt(&self, f: &mut core::fmt::Formatter<'_>) -> core::fmt::Result { f.write_str("EncodeError") }
    }
    /// radix-common scrypto_encode of an entry payload: succeeds (the value was decoded from / validated
    /// against the schema before); the bytes decode back to the content
    #[verifier::external_body]
    pub fn scrypto_encode<T: KvPayload>(value: &T) -> (r: Result<Vec<u8>, EncodeError>)
        ensures r matches Ok(b) && raw_value(b@) == value.ghost()
    { unimplemented!() }

    pub struct NonFungibleResourceManagerMutableFieldsFieldPayload { pub content: NonFungibleResourceManagerMutableFieldsV1 }
    impl VerifPayload for NonFungibleResourceManagerMutableFieldsFieldPayload {
        open spec fn accepts(v: GhostVal) -> bool { v is MutableFields }
        open spec fn ghost(&self) -> GhostVal { GhostVal::MutableFields(self.content.mutable_field_index@) }
    }
    impl NonFungibleResourceManagerMutableFieldsFieldPayload {
        pub fn fully_update_and_into_latest_version(self) -> (r: NonFungibleResourceManagerMutableFieldsV1) ensures r == self.content { self.content }
    }

    pub struct NonFungibleResourceManagerTotalSupplyFieldPayload { pub content: Decimal }
    impl VerifPayload for NonFungibleResourceManagerTotalSupplyFieldPayload {
        open spec fn accepts(v: GhostVal) -> bool { v is Supply }
        open spec fn ghost(&self) -> GhostVal { GhostVal::Supply(self.content) }
    }
    impl NonFungibleResourceManagerTotalSupplyFieldPayload {
        pub fn fully_update_and_into_latest_version(self) -> (r: Decimal) ensures r == self.content { self.content }
        pub fn from_content_source(c: Decimal) -> (r: Self) ensures r.content == c { Self { content: c } }
    }
    pub struct NonFungibleResourceManagerIdTypeFieldPayload { pub content: NonFungibleIdType }
    impl VerifPayload for NonFungibleResourceManagerIdTypeFieldPayload {
        open spec fn accepts(v: GhostVal) -> bool { v is IdType }
        open spec fn ghost(&self) -> GhostVal { GhostVal::IdType(self.content) }
    }
    impl NonFungibleResourceManagerIdTypeFieldPayload {
        pub fn fully_update_and_into_latest_version(self) -> (r: NonFungibleIdType) ensures r == self.content { self.content }
    }

    // ---- `map.into_iter().map(f).collect()`: modelled as inherent methods on the by-value iterator (inherent
    // methods shadow Iterator::map / collect, so the real text resolves to them).  ASSUMED (std / indexmap docs):
    // `map(f)` applies `f` to every item in order; collecting pairs into an IndexMap inserts them in order.
    #[verifier::external_body]
    #[verifier::reject_recursive_types(B)]
    pub struct MappedIter<B> { k: core::marker::PhantomData<B> }
    impl<B> MappedIter<B> {
        pub uninterp spec fn seq(&self) -> Seq<B>;
        #[verifier::external_body]
        pub fn collect<C: FromPairSeq<B>>(self) -> (r: C) ensures C::collected(self.seq(), r) { unimplemented!() }
    }
    pub trait FromPairSeq<B>: Sized { spec fn collected(s: Seq<B>, r: Self) -> bool; }
    impl<K, V> FromPairSeq<(K, V)> for IndexMap<K, V> {
        /// for pairwise distinct keys: exactly those keys, each with its value
        open spec fn collected(s: Seq<(K, V)>, r: Self) -> bool {
            (forall|i: int, j: int| 0 <= i < j < s.len() ==> s[i].0 != s[j].0)
            ==> (forall|i: int| 0 <= i < s.len() ==> r@.contains_key(#[trigger] s[i].0) && r@[s[i].0] == s[i].1)
                && (forall|k: K| r@.contains_key(k) ==> exists|i: int| 0 <= i < s.len() && #[trigger] s[i].0 == k)
        }
    }
    impl<K, V> ImIntoIter<K, V> {
        #[verifier::external_body]
        pub fn map<B, F: Fn((K, V)) -> B>(self, f: F) -> (r: MappedIter<B>)
            requires forall|i: int| 0 <= i < self.rest().len() ==> call_requires(f, (#[trigger] self.rest()[i],))
            ensures r.seq().len() == self.rest().len(),
                    forall|i: int| #![trigger self.rest()[i]] #![trigger r.seq()[i]]
                        0 <= i < self.rest().len() ==> call_ensures(f, (self.rest()[i],), r.seq()[i])
        { unimplemented!() }
    }

    /// radix-native-sdk Runtime::emit_event -> api.actor_emit_event: touches nothing of the modelled state
    pub struct Runtime;
    impl Runtime {
        #[verifier::external_body]
        pub fn emit_event<Y: SystemApi<E>, E: SystemApiError, T>(api: &mut Y, event: T) -> (r: Result<(), E>)
            ensures final(api).state() == old(api).state(), r matches Err(e) ==> !e.is_application_error(),
        { unimplemented!() }
    }
    impl Runtime {
        /// radix-native-sdk Runtime::generate_ruid -> api.generate_ruid(): 32 bytes derived from the transaction hash and
        /// an id allocator counter; touches nothing of the modelled state.  Its UNIQUENESS is not modelled.
        #[verifier::external_body]
        pub fn generate_ruid<Y: SystemApi<E>, E: SystemApiError>(api: &mut Y) -> (r: Result<[u8; 32], E>)
            ensures final(api).state() == old(api).state(), r matches Err(e) ==> !e.is_application_error(),
        { unimplemented!() }
    }

    /// bucket_common.rs `impl From<Vec<Vec<u8>>> for DroppedNonFungibleBucket`: `scrypto_decode(&val[i]).unwrap()`
    /// of the Liquid and Locked fields.  It PANICS on fields of any other shape; a trait impl cannot carry a
    /// precondition, so the contract is conditional and callers under contract establish the condition
    /// (`is_nf_bucket`) from their own precondition.
    impl From<Vec<Vec<u8>>> for DroppedNonFungibleBucket {
        #[verifier::external_body]
        fn from(val: Vec<Vec<u8>>) -> (r: DroppedNonFungibleBucket)
            ensures
                (raw_fields(val).contains_key(I_LIQUID()) && raw_fields(val)[I_LIQUID()] is LiquidNf
                    && raw_fields(val).contains_key(I_LOCKED()) && raw_fields(val)[I_LOCKED()] is LockedNf)
                ==> (r.liquid.ids@ == raw_fields(val)[I_LIQUID()]->LiquidNf_0
                    && r.locked.ids@ == raw_fields(val)[I_LOCKED()]->LockedNf_0)
        { unimplemented!() }
    }

    // ---- `for x in index_set` (by value): the members in iteration (insertion) order -------------------------
    #[verifier::external_body]
    #[verifier::reject_recursive_types(T)]
    pub struct IsIntoIter<T> { k: core::marker::PhantomData<T> }
    impl<T> IsIntoIter<T> {
        pub uninterp spec fn rest(&self) -> Seq<T>;
    }
    impl<T> Iterator for IsIntoIter<T> {
        type Item = T;
        #[verifier::external_body]
        fn next(&mut self) -> (r: Option<T>) { unimplemented!() }
    }
    impl<T> vstd::std_specs::iter::IteratorSpecImpl for IsIntoIter<T> {
        open spec fn obeys_prophetic_iter_laws(&self) -> bool { true }
        open spec fn remaining(&self) -> Seq<T> { self.rest() }
        open spec fn will_return_none(&self) -> bool { true }
        open spec fn peek(&self, index: int) -> Option<T> { if 0 <= index < self.rest().len() { Some(self.rest()[index]) } else { None } }
        open spec fn decrease(&self) -> Option<nat> { Some(self.rest().len()) }
    }
    impl<T> IntoIterator for IndexSet<T> {
        type Item = T;
        type IntoIter = IsIntoIter<T>;
        #[verifier::external_body]
        fn into_iter(self) -> (r: IsIntoIter<T>) ensures r.rest() == self.order() { unimplemented!() }
    }

    // ---- `for (k, v) in index_map` (by value): the entries in iteration (insertion) order -------------------
    #[verifier::external_body]
    #[verifier::reject_recursive_types(K)]
    #[verifier::reject_recursive_types(V)]
    pub struct ImIntoIter<K, V> { k: core::marker::PhantomData<(K, V)> }
    impl<K, V> ImIntoIter<K, V> {
        pub uninterp spec fn rest(&self) -> Seq<(K, V)>;
    }
    impl<K, V> Iterator for ImIntoIter<K, V> {
        type Item = (K, V);
        #[verifier::external_body]
        fn next(&mut self) -> (r: Option<(K, V)>) { unimplemented!() }
    }
    impl<K, V> vstd::std_specs::iter::IteratorSpecImpl for ImIntoIter<K, V> {
        open spec fn obeys_prophetic_iter_laws(&self) -> bool { true }
        open spec fn remaining(&self) -> Seq<(K, V)> { self.rest() }
        open spec fn will_return_none(&self) -> bool { true }
        open spec fn peek(&self, index: int) -> Option<(K, V)> { if 0 <= index < self.rest().len() { Some(self.rest()[index]) } else { None } }
        open spec fn decrease(&self) -> Option<nat> { Some(self.rest().len()) }
    }
    pub open spec fn entry_order<K, V>(m: IndexMap<K, V>) -> Seq<(K, V)> {
        Seq::new(m.key_order().len(), |i: int| (m.key_order()[i], m@[m.key_order()[i]]))
    }
    impl<K, V> IntoIterator for IndexMap<K, V> {
        type Item = (K, V);
        type IntoIter = ImIntoIter<K, V>;
        #[verifier::external_body]
        fn into_iter(self) -> (r: ImIntoIter<K, V>) ensures r.rest() == entry_order(self) { unimplemented!() }
    }
}

pub mod unit {
    use vstd::prelude::*;
    use super::rt::*;
    use super::decimal::*;
    use super::decimal::Decimal;
    use super::maps::*;
    use super::sets::*;
    use super::env::*;
    use core::ops::Neg;
    broadcast use {group_decimal, group_sets};

    /*@item radix-common/src/data/scrypto/model/non_fungible_id_type.rs :: enum NonFungibleIdType
    @derive Clone, Copy, PartialEq, Eq
    @*/
    /*@item radix-engine/src/blueprints/resource/non_fungible/non_fungible_resource_manager.rs :: enum NonFungibleResourceManagerError
    @derive
    @*/
    pub struct NonFungibleResourceManagerBlueprint;
    /// payload types of error variants that the functions under contract never build
    pub struct InvalidNonFungibleSchema;
    /*@item radix-engine/src/blueprints/resource/non_fungible/non_fungible_resource_manager.rs :: struct NonFungibleResourceManagerMutableFieldsV1
    @derive
    @*/
    /*@item radix-engine-interface/src/blueprints/resource/resource.rs :: enum ResourceError
    @derive
    @*/
    /*@item radix-engine/src/blueprints/resource/bucket_common.rs :: enum BucketError
    @derive
    @*/
    /*@item radix-engine-interface/src/blueprints/resource/resource.rs :: struct LiquidNonFungibleResource
    @derive
    @*/
    /*@item radix-engine-interface/src/blueprints/resource/resource.rs :: struct LockedNonFungibleResource
    @derive
    @*/
    /*@item radix-engine/src/blueprints/resource/bucket_common.rs :: struct DroppedNonFungibleBucket
    @derive
    @*/
    /*@item radix-engine-interface/src/blueprints/resource/bucket.rs :: struct Bucket
    @derive
    @*/
    /*@item radix-engine/src/blueprints/resource/events/resource_manager.rs :: struct BurnNonFungibleResourceEvent
    @derive
    @*/
    /*@item radix-engine/src/blueprints/resource/events/resource_manager.rs :: struct MintNonFungibleResourceEvent
    @derive
    @*/
    // (Verus needs the explicit 'static; the value is re-read from /repo on every run)
    pub const NON_FUNGIBLE_BUCKET_BLUEPRINT: &'static str = /*@expr-after radix-engine-interface/src/blueprints/resource/non_fungible/non_fungible_bucket.rs :: const NON_FUNGIBLE_BUCKET_BLUEPRINT :: <<&str =>> @*/;
    impl VerifPayload for LiquidNonFungibleResource {
        open spec fn accepts(v: GhostVal) -> bool { v is LiquidNf }
        open spec fn ghost(&self) -> GhostVal { GhostVal::LiquidNf(self.ids@) }
    }
    impl VerifPayload for LockedNonFungibleResource {
        open spec fn accepts(v: GhostVal) -> bool { v is LockedNf }
        open spec fn ghost(&self) -> GhostVal { GhostVal::LockedNf(self.ids@) }
    }

    // ==========================================================================================
    // ORACLE (from the property statement)
    // ==========================================================================================
    /// the id has been minted and not burnt
    pub open spec fn live(kv: Kv, id: NonFungibleLocalId) -> bool { entry_of(kv, id).value is Some }
    /// the id has been minted and burnt: a locked, empty entry
    pub open spec fn tombstone(kv: Kv, id: NonFungibleLocalId) -> bool { entry_of(kv, id).value is None && entry_of(kv, id).locked }
    /// the id has never been minted: neither a live entry nor a tombstone
    pub open spec fn never_minted(kv: Kv, id: NonFungibleLocalId) -> bool { entry_of(kv, id).value is None && !entry_of(kv, id).locked }
    /// every id other than those in `ids` has exactly the entry it had
    pub open spec fn others_same(kv0: Kv, kv1: Kv, ids: Set<NonFungibleLocalId>) -> bool {
        forall|id: NonFungibleLocalId| !ids.contains(id) ==> entry_of(kv1, id) == entry_of(kv0, id)
    }
    /// C43, one committed step of the Data collection, for every id:
    ///  (1) a locked entry never changes again (in particular a tombstone stays a tombstone),
    ///  (2) an id that stops being live becomes a tombstone (it does not go back to "never minted").
    pub open spec fn nf_step(kv0: Kv, kv1: Kv) -> bool {
        forall|id: NonFungibleLocalId| {
            &&& (entry_of(kv0, id).locked ==> #[trigger] entry_of(kv1, id) == entry_of(kv0, id))
            &&& (live(kv0, id) && !live(kv1, id) ==> tombstone(kv1, id))
        }
    }
    /// (typed view: lets a proof block mention the collected map before Rust's inference has fixed its type)
    pub open spec fn nfv(m: IndexMap<NonFungibleLocalId, ScryptoValue>) -> Map<NonFungibleLocalId, ScryptoValue> { m@ }
    /// the resource tracks its total supply; then field 2 holds it (established by create_object)
    pub open spec fn tracks(s: State) -> bool { s.features.contains(NonFungibleResourceManagerFeature::TrackTotalSupply) }
    pub open spec fn wf_supply(s: State) -> bool { tracks(s) ==> s.fields.contains_key(I_SUPPLY()) && s.fields[I_SUPPLY()] is Supply }
    /// the recorded total supply in attos (meaningful when `tracks`)
    pub open spec fn supply(s: State) -> int { s.fields[I_SUPPLY()]->Supply_0.v() }
    /// C03 for the non-fungible supply: it moves by `delta` attos (if tracked); no other field changes
    pub open spec fn supply_moved(s0: State, s1: State, delta: int) -> bool {
        &&& s1.fields.remove(I_SUPPLY()) =~= s0.fields.remove(I_SUPPLY())
        &&& (tracks(s0) ==> wf_supply(s1) && supply(s1) == supply(s0) + delta)
        &&& (!tracks(s0) ==> s1.fields == s0.fields)
    }
    pub open spec fn handles_kept(h0: Map<FieldHandle, (FieldIndex, bool)>, h1: Map<FieldHandle, (FieldIndex, bool)>) -> bool {
        forall|h: FieldHandle| h0.contains_key(h) ==> h1.contains_key(h) && h1[h] == h0[h]
    }
    pub open spec fn mint_enabled(s: State) -> bool { s.features.contains(NonFungibleResourceManagerFeature::Mint) }
    pub open spec fn wf_id_type(s: State) -> bool { s.fields.contains_key(I_ID_TYPE()) && s.fields[I_ID_TYPE()] is IdType }
    /// the resource's id type
    pub open spec fn id_type_of(s: State) -> NonFungibleIdType { s.fields[I_ID_TYPE()]->IdType_0 }
    /// a freshly created non-fungible bucket holding `ids`: nothing locked
    pub open spec fn is_new_bucket(o: ObjG, ids: Set<NonFungibleLocalId>) -> bool {
        &&& o.blueprint == NON_FUNGIBLE_BUCKET_BLUEPRINT@
        &&& o.fields.dom() =~= set![I_LIQUID(), I_LOCKED()]
        &&& o.fields[I_LIQUID()] == GhostVal::LiquidNf(ids)
        &&& o.fields[I_LOCKED()] == GhostVal::LockedNf(Map::<NonFungibleLocalId, usize>::empty())
    }
    pub open spec fn burn_enabled(s: State) -> bool { s.features.contains(NonFungibleResourceManagerFeature::Burn) }
    pub open spec fn is_nf_bucket(o: ObjG) -> bool {
        &&& o.fields.contains_key(I_LIQUID()) && o.fields[I_LIQUID()] is LiquidNf
        &&& o.fields.contains_key(I_LOCKED()) && o.fields[I_LOCKED()] is LockedNf
    }
    pub open spec fn bucket_ids(o: ObjG) -> Set<NonFungibleLocalId> { o.fields[I_LIQUID()]->LiquidNf_0 }
    pub open spec fn bucket_locks(o: ObjG) -> Map<NonFungibleLocalId, usize> { o.fields[I_LOCKED()]->LockedNf_0 }
    /// the declared-mutable fields of the non-fungible data: name -> index in the data tuple
    pub open spec fn mutable_fields(s: State) -> Map<String, usize> { s.fields[I_MUTABLE()]->MutableFields_0 }
    pub open spec fn wf_fields(s: State) -> bool { s.fields.contains_key(I_MUTABLE()) && s.fields[I_MUTABLE()] is MutableFields }
    /// schema invariant of the stored data (validate_non_fungible_schema at creation + payload validation on every
    /// write): the data of a live non-fungible is a tuple that has every declared-mutable field
    pub open spec fn data_wf(s: State, id: NonFungibleLocalId) -> bool {
        live(s.kv, id) ==> (entry_of(s.kv, id).value->0 matches Value::Tuple { fields }
            && forall|n: String| #[trigger] mutable_fields(s).contains_key(n) ==> mutable_fields(s)[n] < fields.len())
    }
    /// burn of bucket `node`: on success every id of the bucket was live-or-not but NOT locked, and is now a
    /// TOMBSTONE (no value, locked for good); every other id keeps its entry; the bucket is consumed
    pub open spec fn burn_post(s0: State, s1: State, node: NodeId, ok: bool) -> bool {
        &&& ok ==> {
            &&& burn_enabled(s0)
            &&& s0.objects.contains_key(node)
            &&& bucket_locks(s0.objects[node]).dom().len() == 0
            &&& forall|id: NonFungibleLocalId| #[trigger] bucket_ids(s0.objects[node]).contains(id) ==>
                    !entry_of(s0.kv, id).locked && tombstone(s1.kv, id)
            &&& others_same(s0.kv, s1.kv, bucket_ids(s0.objects[node]))
            &&& nf_step(s0.kv, s1.kv)
            &&& s1.kv_handles == s0.kv_handles
            &&& s1.objects == s0.objects.remove(node)
            // C03: the recorded supply shrinks by exactly the number of burnt ids
            &&& supply_moved(s0, s1, -(bucket_ids(s0.objects[node]).len() * one18()))
        }
        &&& (!burn_enabled(s0) ==> !ok && s1 == s0)
        &&& s1.features == s0.features
    }
    pub open spec fn nfrm_err(e: NonFungibleResourceManagerError) -> RuntimeError {
        RuntimeError::ApplicationError(ApplicationError::NonFungibleResourceManagerError(e))
    }
    pub open spec fn create_refusal(kv0: Kv, id: NonFungibleLocalId, id_type: NonFungibleIdType, check: bool, ra: ResourceAddress, e: RuntimeError) -> bool {
        ||| (id.id_type_spec() != id_type && e == nfrm_err(NonFungibleResourceManagerError::NonFungibleIdTypeDoesNotMatch(id.id_type_spec(), id_type)))
        ||| (check && live(kv0, id)
             && (e matches RuntimeError::ApplicationError(ApplicationError::NonFungibleResourceManagerError(NonFungibleResourceManagerError::NonFungibleAlreadyExists(g)))
                 && g.local_id == id && g.resource_address == ra))
    }
    /// the first `n` keys of an entry sequence
    pub open spec fn keys_upto(es: Seq<(NonFungibleLocalId, ScryptoValue)>, n: int) -> Set<NonFungibleLocalId> {
        Seq::new(n as nat, |j: int| es[j].0).to_set()
    }

    pub proof fn lemma_keys_step(es: Seq<(NonFungibleLocalId, ScryptoValue)>, n: int)
        requires 0 <= n < es.len()
        ensures keys_upto(es, n + 1) =~= keys_upto(es, n).insert(es[n].0)
    {
        let a = Seq::new((n + 1) as nat, |j: int| es[j].0);
        let b = Seq::new(n as nat, |j: int| es[j].0);
        assert forall|id: NonFungibleLocalId| a.to_set().contains(id) <==> b.to_set().insert(es[n].0).contains(id) by {
            if a.contains(id) {
                let j = choose|j: int| 0 <= j < a.len() && a[j] == id;
                if j < n { assert(b[j] == id); assert(b.contains(id)); }
            }
            if b.contains(id) {
                let j = choose|j: int| 0 <= j < b.len() && b[j] == id;
                assert(a[j] == id);
            }
            if id == es[n].0 { assert(a[n] == id); }
        }
    }
    /// with pairwise distinct keys, the n-th key is not among the first n
    pub proof fn lemma_key_fresh(es: Seq<(NonFungibleLocalId, ScryptoValue)>, ko: Seq<NonFungibleLocalId>, n: int)
        requires 0 <= n < es.len(), es.len() == ko.len(), ko.no_duplicates(),
                 forall|j: int| 0 <= j < es.len() ==> (#[trigger] es[j]).0 == ko[j],
        ensures !keys_upto(es, n).contains(es[n].0)
    {
        let b = Seq::new(n as nat, |j: int| es[j].0);
        if b.contains(es[n].0) {
            let j = choose|j: int| 0 <= j < b.len() && b[j] == es[n].0;
            assert(ko[j] == ko[n]);
        }
    }
    pub proof fn lemma_keys_all(es: Seq<(NonFungibleLocalId, ScryptoValue)>, ko: Seq<NonFungibleLocalId>)
        requires es.len() == ko.len(), forall|j: int| 0 <= j < es.len() ==> (#[trigger] es[j]).0 == ko[j],
        ensures keys_upto(es, es.len() as int) == ko.to_set()
    {
        assert(Seq::new(es.len(), |j: int| es[j].0) =~= ko);
    }

    /// one more element of a duplicate-free sequence: it is new, and the prefix set grows by exactly it
    pub proof fn lemma_take_step(ord: Seq<NonFungibleLocalId>, n: int)
        requires 0 <= n < ord.len(), ord.no_duplicates()
        ensures
            !ord.take(n).to_set().contains(ord[n]),
            ord.take(n + 1).to_set() =~= ord.take(n).to_set().insert(ord[n]),
    {
        let a = ord.take(n + 1); let b = ord.take(n);
        if b.contains(ord[n]) {
            let j = choose|j: int| 0 <= j < b.len() && b[j] == ord[n];
            assert(ord[j] == ord[n]);
        }
        assert forall|x: NonFungibleLocalId| a.to_set().contains(x) <==> b.to_set().insert(ord[n]).contains(x) by {
            if a.contains(x) {
                let j = choose|j: int| 0 <= j < a.len() && a[j] == x;
                if j < n { assert(b[j] == x); assert(b.contains(x)); }
            }
            if b.contains(x) {
                let j = choose|j: int| 0 <= j < b.len() && b[j] == x;
                assert(a[j] == x);
            }
            if x == ord[n] { assert(a[n] == x); }
        }
    }

    /*@fn radix-engine/src/blueprints/resource/non_fungible/non_fungible_resource_manager.rs :: fn create_non_fungibles
    @sig
        ensures
            ret matches Ok(ids) ==> ({
                let s0 = old(api).state(); let s1 = final(api).state();
                &&& ids@ == entries@.dom()
                &&& forall|id: NonFungibleLocalId| #[trigger] entries@.contains_key(id) ==> {
                        // every minted id has the resource's id type
                        &&& id.id_type_spec() == id_type
                        // a burnt id (tombstone) can NEVER be minted again, whatever the caller asks for
                        &&& !entry_of(s0.kv, id).locked
                        // with the existence check, the id had no entry at all before
                        &&& (check_non_existence ==> never_minted(s0.kv, id))
                        // and now it is live, holding the given data
                        &&& entry_of(s1.kv, id) == (EntryG { value: Some(entries@[id]), locked: false })
                    }
                &&& others_same(s0.kv, s1.kv, entries@.dom())
                &&& nf_step(s0.kv, s1.kv)
                &&& s1.kv_handles == s0.kv_handles
            }),
            // nothing but the Data collection (and, transiently, its handles) is touched
            final(api).state().fields == old(api).state().fields, final(api).state().handles == old(api).state().handles,
            final(api).state().features == old(api).state().features, final(api).state().objects == old(api).state().objects,
            // the blueprint's own refusals, exactly: a wrong id type, or (with the check) an id that is live
            ret matches Err(e) ==> (e.is_application_error() ==> exists|id: NonFungibleLocalId| #[trigger] entries@.contains_key(id) && create_refusal(old(api).state().kv, id, id_type, check_non_existence, resource_address, e)),
    @entry
        let ghost es = entry_order(entries);
        let ghost m0 = entries@;
        let ghost ko = entries.key_order();
        proof { assert(ko.no_duplicates() && ko.to_set() == m0.dom()); }
    @loop 1 iter it
        invariant
            it.seq() == es, m0 == entries@, es.len() == ko.len(), ko.no_duplicates(), ko.to_set() == m0.dom(),
            forall|j: int| 0 <= j < es.len() ==> (#[trigger] es[j]).0 == ko[j] && es[j].1 == m0[ko[j]],
            ids@ == keys_upto(es, it.index@ as int),
            api.state().kv_handles == old(api).state().kv_handles,
            api.state().fields == old(api).state().fields, api.state().handles == old(api).state().handles,
            api.state().features == old(api).state().features, api.state().objects == old(api).state().objects,
            others_same(old(api).state().kv, api.state().kv, keys_upto(es, it.index@ as int)),
            forall|j: int| 0 <= j < it.index@ ==> {
                &&& (#[trigger] ko[j]).id_type_spec() == id_type
                &&& !entry_of(old(api).state().kv, ko[j]).locked
                &&& (check_non_existence ==> never_minted(old(api).state().kv, ko[j]))
                &&& entry_of(api.state().kv, ko[j]) == (EntryG { value: Some(m0[ko[j]]), locked: false })
            },
    @before <<non_fungible_local_id.id_type()>> #1
        proof {
            lemma_key_fresh(es, ko, it.index@ as int);
            lemma_keys_step(es, it.index@ as int);
            assert(non_fungible_local_id == ko[it.index@ as int]);
            assert(ko.to_set().contains(ko[it.index@ as int]));
            assert(m0.contains_key(non_fungible_local_id));
        }
    @before <<Ok(ids)>> #1
        proof {
            lemma_keys_all(es, ko);
            assert forall|id: NonFungibleLocalId| #[trigger] m0.contains_key(id) implies
                id.id_type_spec() == id_type && !entry_of(old(api).state().kv, id).locked
                && (check_non_existence ==> never_minted(old(api).state().kv, id))
                && entry_of(api.state().kv, id) == (EntryG { value: Some(m0[id]), locked: false })
            by {
                assert(ko.to_set().contains(id));
                let j = choose|j: int| 0 <= j < ko.len() && ko[j] == id;
            }
        }
    @*/

    // ==========================================================================================
    // containers (same contracts as unit c03_resource_containers)
    // ==========================================================================================
    impl LiquidNonFungibleResource {
        /*@fn radix-engine-interface/src/blueprints/resource/resource.rs :: impl LiquidNonFungibleResource :: fn new
        @sig
            ensures ret.ids == ids
        @*/
        /*@fn radix-engine-interface/src/blueprints/resource/resource.rs :: impl LiquidNonFungibleResource :: fn ids
        @sig
            ensures *ret == self.ids
        @*/
        /*@fn radix-engine-interface/src/blueprints/resource/resource.rs :: impl LiquidNonFungibleResource :: fn into_ids
        @sig
            ensures ret == self.ids
        @*/
        /*@fn radix-engine-interface/src/blueprints/resource/resource.rs :: impl LiquidNonFungibleResource :: fn amount
        @sig
            ensures ret.v() == self.ids@.len() * one18()
        @*/
    }
    impl LockedNonFungibleResource {
        /*@fn radix-engine-interface/src/blueprints/resource/resource.rs :: impl LockedNonFungibleResource :: fn is_locked
        @sig
            ensures ret == (self.ids@.dom().len() > 0)
        @*/
    }
    impl Default for LockedNonFungibleResource {
        /*@fn radix-engine-interface/src/blueprints/resource/resource.rs :: impl Default for LockedNonFungibleResource :: fn default
        @sig
            ensures ret.ids@ == Map::<NonFungibleLocalId, usize>::empty()
        @*/
    }

    /*@fn radix-engine/src/blueprints/resource/bucket_common.rs :: fn drop_non_fungible_bucket
    @sig
        requires
            old(api).state().objects.contains_key(*bucket_node_id) ==> is_nf_bucket(old(api).state().objects[*bucket_node_id]),
        ensures
            ret matches Ok(b) ==> ({
                let s0 = old(api).state(); let s1 = final(api).state();
                &&& s0.objects.contains_key(*bucket_node_id)
                &&& b.liquid.ids@ == bucket_ids(s0.objects[*bucket_node_id])
                &&& bucket_locks(s0.objects[*bucket_node_id]).dom().len() == 0
                &&& s1 == (State { objects: s0.objects.remove(*bucket_node_id), ..s0 })
            }),
            final(api).state().kv == old(api).state().kv,
            final(api).state().kv_handles == old(api).state().kv_handles,
            final(api).state().fields == old(api).state().fields,
            final(api).state().handles == old(api).state().handles,
            final(api).state().features == old(api).state().features,
            ret matches Err(e) ==> (e.is_application_error() ==> e is ApplicationError && e->ApplicationError_0 is BucketError),
    @*/

    // ==========================================================================================
    // NonFungibleResourceManagerBlueprint
    // ==========================================================================================
    impl NonFungibleResourceManagerBlueprint {
        /*@fn radix-engine/src/blueprints/resource/non_fungible/non_fungible_resource_manager.rs :: impl NonFungibleResourceManagerBlueprint :: fn assert_burnable
        @sig
            ensures
                final(api).state() == old(api).state(),
                ret is Ok ==> burn_enabled(old(api).state()),
                !burn_enabled(old(api).state()) ==> ret is Err,
                ret matches Err(e) ==> (e.is_application_error() ==> e == nfrm_err(NonFungibleResourceManagerError::NotBurnable)),
        @*/

        /*@fn radix-engine/src/blueprints/resource/non_fungible/non_fungible_resource_manager.rs :: impl NonFungibleResourceManagerBlueprint :: fn update_total_supply
        @sig
            requires wf_supply(old(api).state())
            ensures
                ret is Ok ==> supply_moved(old(api).state(), final(api).state(), amount.v()),
                ret is Err ==> final(api).state().fields == old(api).state().fields,
                final(api).state().fields.remove(I_SUPPLY()) =~= old(api).state().fields.remove(I_SUPPLY()),
                // a supply that would leave the Decimal range is refused (never wraps)
                tracks(old(api).state()) && !in_dec(supply(old(api).state()) + amount.v()) ==> ret is Err,
                final(api).state().kv == old(api).state().kv, final(api).state().kv_handles == old(api).state().kv_handles,
                final(api).state().features == old(api).state().features, final(api).state().objects == old(api).state().objects,
                handles_kept(old(api).state().handles, final(api).state().handles),
                ret matches Err(e) ==> (e.is_application_error() ==> e == nfrm_err(NonFungibleResourceManagerError::UnexpectedDecimalComputationError)),
        @*/
        /*@fn radix-engine/src/blueprints/resource/non_fungible/non_fungible_resource_manager.rs :: impl NonFungibleResourceManagerBlueprint :: fn assert_mintable
        @sig
            ensures
                final(api).state() == old(api).state(),
                ret is Ok ==> mint_enabled(old(api).state()),
                !mint_enabled(old(api).state()) ==> ret is Err,
                ret matches Err(e) ==> (e.is_application_error() ==> e == nfrm_err(NonFungibleResourceManagerError::NotMintable)),
        @*/
        /*@fn radix-engine/src/blueprints/resource/non_fungible/non_fungible_resource_manager.rs :: impl NonFungibleResourceManagerBlueprint :: fn assert_is_not_ruid
        @sig
            requires wf_id_type(old(api).state())
            ensures
                ret matches Ok(t) ==> t == id_type_of(old(api).state()) && t != NonFungibleIdType::RUID
                    && final(api).state().handles =~= old(api).state().handles,
                id_type_of(old(api).state()) == NonFungibleIdType::RUID ==> ret is Err,
                final(api).state().kv == old(api).state().kv, final(api).state().kv_handles == old(api).state().kv_handles,
                final(api).state().fields == old(api).state().fields, final(api).state().features == old(api).state().features,
                final(api).state().objects == old(api).state().objects,
                ret matches Err(e) ==> (e.is_application_error() ==> e == nfrm_err(NonFungibleResourceManagerError::InvalidNonFungibleIdType)),
        @*/
        /*@fn radix-engine/src/blueprints/resource/non_fungible/non_fungible_resource_manager.rs :: impl NonFungibleResourceManagerBlueprint :: fn assert_is_ruid
        @sig
            requires wf_id_type(old(api).state())
            ensures
                ret is Ok ==> id_type_of(old(api).state()) == NonFungibleIdType::RUID && final(api).state().handles =~= old(api).state().handles,
                id_type_of(old(api).state()) != NonFungibleIdType::RUID ==> ret is Err,
                final(api).state().kv == old(api).state().kv, final(api).state().kv_handles == old(api).state().kv_handles,
                final(api).state().fields == old(api).state().fields, final(api).state().features == old(api).state().features,
                final(api).state().objects == old(api).state().objects,
        @*/
        /*@fn radix-engine/src/blueprints/resource/non_fungible/non_fungible_resource_manager.rs :: impl NonFungibleResourceManagerBlueprint :: fn create_bucket
        @sig
            ensures
                ret matches Ok(b) ==> ({
                    let s0 = old(api).state(); let s1 = final(api).state();
                    &&& !s0.objects.contains_key(b.0.0)
                    &&& s1.objects.contains_key(b.0.0) && is_new_bucket(s1.objects[b.0.0], ids@)
                    &&& s1 == (State { objects: s0.objects.insert(b.0.0, s1.objects[b.0.0]), ..s0 })
                }),
                ret is Err ==> final(api).state() == old(api).state(),
                ret matches Err(e) ==> !e.is_application_error(),
        @*/

        // ------------------------------------------------------------------------------ MINT (explicit ids) --
        /*@fn radix-engine/src/blueprints/resource/non_fungible/non_fungible_resource_manager.rs :: impl NonFungibleResourceManagerBlueprint :: fn mint_non_fungible
        @sig
            requires wf_id_type(old(api).state()), wf_supply(old(api).state())
            ensures
                ret matches Ok(b) ==> ({
                    let s0 = old(api).state(); let s1 = final(api).state();
                    &&& mint_enabled(s0)
                    &&& id_type_of(s0) != NonFungibleIdType::RUID
                    &&& forall|id: NonFungibleLocalId| #[trigger] entries@.contains_key(id) ==> {
                            // each id has the resource's id type, was NEVER minted before (no live entry, no tombstone) ..
                            &&& id.id_type_spec() == id_type_of(s0)
                            &&& never_minted(s0.kv, id)
                            // .. and is now live with the given data
                            &&& entry_of(s1.kv, id) == (EntryG { value: Some(entries@[id].0), locked: false })
                        }
                    &&& others_same(s0.kv, s1.kv, entries@.dom())
                    &&& nf_step(s0.kv, s1.kv)
                    &&& s1.kv_handles == s0.kv_handles
                    // the new bucket holds exactly the minted ids
                    &&& !s0.objects.contains_key(b.0.0)
                    &&& s1.objects.contains_key(b.0.0) && is_new_bucket(s1.objects[b.0.0], entries@.dom())
                    &&& s1.objects == s0.objects.insert(b.0.0, s1.objects[b.0.0])
                    // C03: the recorded supply grows by exactly the number of minted ids
                    &&& supply_moved(s0, s1, entries@.dom().len() * one18())
                }),
                !mint_enabled(old(api).state()) ==> ret is Err && final(api).state() == old(api).state(),
        @entry
            let ghost m0 = entries@;
            let ghost ko = entries.key_order();
            let ghost es = entry_order(entries);
            proof {
                assert(ko.no_duplicates() && ko.to_set() == m0.dom());
                assert forall|j: int| 0 <= j < ko.len() implies m0.contains_key(#[trigger] ko[j]) by { assert(ko.to_set().contains(ko[j])); }
            }
        @after <<let non_fungibles>> #1
            proof {
                assert forall|j: int| 0 <= j < ko.len() implies
                    nfv(non_fungibles).contains_key(#[trigger] ko[j]) && nfv(non_fungibles)[ko[j]] == m0[ko[j]].0
                by { let e = es[j]; assert(e.0 == ko[j] && e.1 == m0[ko[j]]); }
                assert forall|id: NonFungibleLocalId| m0.contains_key(id) implies
                    nfv(non_fungibles).contains_key(id) && nfv(non_fungibles)[id] == m0[id].0
                by {
                    assert(ko.to_set().contains(id));
                    let j = choose|j: int| 0 <= j < ko.len() && ko[j] == id;
                }
                assert(nfv(non_fungibles).dom() =~= m0.dom());
            }
        @subst <<|(k, v)| (k, v.0)>> => <<|kv: (NonFungibleLocalId, (ScryptoValue,))| -> (r: (NonFungibleLocalId, ScryptoValue)) ensures r.0 == kv.0 && r.1 == kv.1.0 { (kv.0, kv.1.0) }>> why: Verus does not support patterns in closure parameters; destructuring the pair in the parameter is the same as projecting it in the body (the ensures clause is the usual closure annotation)
        @*/

        // ------------------------------------------------------------------------------ MINT (generated ids) --
        /*@fn radix-engine/src/blueprints/resource/non_fungible/non_fungible_resource_manager.rs :: impl NonFungibleResourceManagerBlueprint :: fn mint_single_ruid_non_fungible
        @sig
            requires wf_id_type(old(api).state()), wf_supply(old(api).state())
            ensures
                ret matches Ok(bi) ==> ({
                    let s0 = old(api).state(); let s1 = final(api).state(); let id = bi.1;
                    &&& mint_enabled(s0)
                    &&& id_type_of(s0) == NonFungibleIdType::RUID && id.id_type_spec() == NonFungibleIdType::RUID
                    // a generated id that had been burnt is refused (tombstone); that it was not LIVE rests on the
                    // uniqueness of generate_ruid, which is not modelled (no existence check on this path)
                    &&& !entry_of(s0.kv, id).locked
                    &&& entry_of(s1.kv, id) == (EntryG { value: Some(value), locked: false })
                    &&& others_same(s0.kv, s1.kv, set![id])
                    &&& nf_step(s0.kv, s1.kv)
                    &&& s1.kv_handles == s0.kv_handles
                    &&& !s0.objects.contains_key(bi.0.0.0)
                    &&& s1.objects.contains_key(bi.0.0.0) && is_new_bucket(s1.objects[bi.0.0.0], set![id])
                    &&& s1.objects == s0.objects.insert(bi.0.0.0, s1.objects[bi.0.0.0])
                    &&& supply_moved(s0, s1, one18())
                }),
                !mint_enabled(old(api).state()) ==> ret is Err && final(api).state() == old(api).state(),
        @*/

        /*@fn radix-engine/src/blueprints/resource/non_fungible/non_fungible_resource_manager.rs :: impl NonFungibleResourceManagerBlueprint :: fn mint_ruid_non_fungible
        @sig
            requires wf_id_type(old(api).state()), wf_supply(old(api).state())
            ensures
                ret matches Ok(b) ==> ({
                    let s0 = old(api).state(); let s1 = final(api).state();
                    &&& mint_enabled(s0)
                    &&& id_type_of(s0) == NonFungibleIdType::RUID
                    &&& !s0.objects.contains_key(b.0.0)
                    &&& s1.objects.contains_key(b.0.0) && is_nf_bucket(s1.objects[b.0.0])
                    &&& s1.objects == s0.objects.insert(b.0.0, s1.objects[b.0.0])
                    // the minted ids = the content of the new bucket
                    &&& forall|id: NonFungibleLocalId| #[trigger] bucket_ids(s1.objects[b.0.0]).contains(id) ==> {
                            &&& id.id_type_spec() == NonFungibleIdType::RUID
                            &&& !entry_of(s0.kv, id).locked
                            &&& live(s1.kv, id) && !entry_of(s1.kv, id).locked
                        }
                    &&& others_same(s0.kv, s1.kv, bucket_ids(s1.objects[b.0.0]))
                    &&& nf_step(s0.kv, s1.kv)
                    &&& s1.kv_handles == s0.kv_handles
                }),
                !mint_enabled(old(api).state()) ==> ret is Err && final(api).state() == old(api).state(),
        @after <<let mut non_fungibles>> #1
            let ghost s_pre = api.state();
        @loop 1
            invariant
                api.state() == s_pre, mint_enabled(old(api).state()),
                forall|k: NonFungibleLocalId| #[trigger] non_fungibles@.contains_key(k) ==> k.id_type_spec() == NonFungibleIdType::RUID,
        @*/

        // ------------------------------------------------------------------------------ BURN --
        /*@fn radix-engine/src/blueprints/resource/non_fungible/non_fungible_resource_manager.rs :: impl NonFungibleResourceManagerBlueprint :: fn burn_internal
        @sig
            requires
                wf_supply(old(api).state()),
                old(api).state().objects.contains_key(bucket.0.0) ==> is_nf_bucket(old(api).state().objects[bucket.0.0]),
            ensures
                burn_post(old(api).state(), final(api).state(), bucket.0.0, ret is Ok),
        @after <<Runtime::emit_event(>> #1
            let ghost ord = other_bucket.liquid.ids.order();
            let ghost bids = other_bucket.liquid.ids@;
            proof { assert(ord.no_duplicates() && ord.to_set() == bids); }
        @loop 1 iter it
            invariant
                it.seq() == ord, ord.no_duplicates(), ord.to_set() == bids,
                burn_enabled(old(api).state()),
                old(api).state().objects.contains_key(bucket.0.0),
                bids == bucket_ids(old(api).state().objects[bucket.0.0]),
                bucket_locks(old(api).state().objects[bucket.0.0]).dom().len() == 0,
                api.state().features == old(api).state().features,
                api.state().kv_handles == old(api).state().kv_handles,
                api.state().objects == old(api).state().objects.remove(bucket.0.0),
                supply_moved(old(api).state(), api.state(), -(bids.len() * one18())),
                forall|j: int| 0 <= j < it.index@ ==> !entry_of(old(api).state().kv, #[trigger] ord[j]).locked && tombstone(api.state().kv, ord[j]),
                others_same(old(api).state().kv, api.state().kv, ord.take(it.index@ as int).to_set()),
        @before <<let handle = api.actor_open_key_value_entry>> #1
            proof {
                lemma_take_step(ord, it.index@ as int);
                assert(id == ord[it.index@ as int]);
            }
        @before <<Ok(())>> #1
            proof {
                assert(ord.take(ord.len() as int) =~= ord);
                assert forall|x: NonFungibleLocalId| #[trigger] bids.contains(x) implies
                    !entry_of(old(api).state().kv, x).locked && tombstone(api.state().kv, x)
                by {
                    assert(ord.to_set().contains(x));
                    let j = choose|j: int| 0 <= j < ord.len() && ord[j] == x;
                }
            }
        @*/
        /*@fn radix-engine/src/blueprints/resource/non_fungible/non_fungible_resource_manager.rs :: impl NonFungibleResourceManagerBlueprint :: fn burn
        @sig
            requires
                wf_supply(old(api).state()),
                old(api).state().objects.contains_key(bucket.0.0) ==> is_nf_bucket(old(api).state().objects[bucket.0.0]),
            ensures
                burn_post(old(api).state(), final(api).state(), bucket.0.0, ret is Ok),
        @*/
        // ------------------------------------------------------------------------------ DATA --
        /*@fn radix-engine/src/blueprints/resource/non_fungible/non_fungible_resource_manager.rs :: impl NonFungibleResourceManagerBlueprint :: fn drop_empty_bucket
        @sig
            requires
                old(api).state().objects.contains_key(bucket.0.0) ==> is_nf_bucket(old(api).state().objects[bucket.0.0]),
            ensures
                // only a bucket holding no id (and backing no proof) can be dropped without burning
                ret is Ok ==> ({
                    let s0 = old(api).state(); let s1 = final(api).state();
                    &&& s0.objects.contains_key(bucket.0.0)
                    &&& bucket_ids(s0.objects[bucket.0.0]).len() == 0
                    &&& bucket_locks(s0.objects[bucket.0.0]).dom().len() == 0
                    &&& s1 == (State { objects: s0.objects.remove(bucket.0.0), ..s0 })
                }),
                // a bucket that was dropped while still holding ids is reported, never silently lost
                (old(api).state().objects.contains_key(bucket.0.0) && bucket_ids(old(api).state().objects[bucket.0.0]).len() > 0) ==> ret is Err,
                // ids, supply, features, handles are never touched
                final(api).state().kv == old(api).state().kv,
                final(api).state().kv_handles == old(api).state().kv_handles,
                final(api).state().fields == old(api).state().fields,
                final(api).state().handles == old(api).state().handles,
                final(api).state().features == old(api).state().features,
                ret matches Err(e) ==> (e.is_application_error() ==>
                    (e == nfrm_err(NonFungibleResourceManagerError::DropNonEmptyBucket)
                        && old(api).state().objects.contains_key(bucket.0.0) && bucket_ids(old(api).state().objects[bucket.0.0]).len() > 0)
                    || (e is ApplicationError && e->ApplicationError_0 is BucketError)),
        @*/
        /*@fn radix-engine/src/blueprints/resource/non_fungible/non_fungible_resource_manager.rs :: impl NonFungibleResourceManagerBlueprint :: fn update_non_fungible_data
        @sig
            requires wf_fields(old(api).state()), data_wf(old(api).state(), id)
            ensures
                ret is Ok ==> ({
                    let s0 = old(api).state(); let s1 = final(api).state();
                    // only a field DECLARED MUTABLE can be updated ..
                    &&& mutable_fields(s0).contains_key(field_name)
                    // .. of a non-fungible that is live (not burnt, not never-minted) ..
                    &&& live(s0.kv, id) && !entry_of(s0.kv, id).locked
                    // .. and exactly that field of exactly that non-fungible changes
                    &&& entry_of(s1.kv, id).value matches Some(Value::Tuple { fields })
                        && fields@ == entry_of(s0.kv, id).value->0->fields@.update(mutable_fields(s0)[field_name] as int, data)
                    &&& !entry_of(s1.kv, id).locked
                    &&& others_same(s0.kv, s1.kv, set![id])
                    &&& nf_step(s0.kv, s1.kv)
                    &&& s1.fields == s0.fields && s1.features == s0.features && s1.objects == s0.objects
                }),
                // an unknown / immutable field name is refused before anything is touched
                !mutable_fields(old(api).state()).contains_key(field_name) ==> ret is Err && final(api).state().kv == old(api).state().kv,
                // a burnt or never-minted id cannot be given data
                !live(old(api).state().kv, id) ==> ret is Err && final(api).state().kv == old(api).state().kv,
                ret matches Err(e) ==> (e.is_application_error() ==> {
                    ||| (e == nfrm_err(NonFungibleResourceManagerError::UnknownMutableFieldName(field_name)) && !mutable_fields(old(api).state()).contains_key(field_name))
                    ||| (!live(old(api).state().kv, id)
                         && (e matches RuntimeError::ApplicationError(ApplicationError::NonFungibleResourceManagerError(NonFungibleResourceManagerError::NonFungibleNotFound(g)))
                             && g.local_id == id))
                }),
        @closure 1 := || -> (r: RuntimeError) ensures r == nfrm_err(NonFungibleResourceManagerError::UnknownMutableFieldName(field_name))
        @before <<let non_fungible_handle>> #1
            proof {
                assert(mutable_fields(old(api).state()).contains_key(field_name));
                assert(field_index == mutable_fields(old(api).state())[field_name]);
                assert(api.state().kv == old(api).state().kv);
            }
        @before <<match non_fungible_data_payload.as_mut()>> #1
            proof {
                assert(live(old(api).state().kv, id));
                assert(non_fungible_data_payload.content == entry_of(old(api).state().kv, id).value->0);
                assert(non_fungible_data_payload.content is Tuple);
                assert(field_index < non_fungible_data_payload.content->fields.len());
            }
        @*/

        /*@fn radix-engine/src/blueprints/resource/non_fungible/non_fungible_resource_manager.rs :: impl NonFungibleResourceManagerBlueprint :: fn non_fungible_exists
        @sig
            ensures
                final(api).state().kv == old(api).state().kv,
                ret matches Ok(b) ==> b == live(old(api).state().kv, id),
                ret matches Err(e) ==> !e.is_application_error(),
        @*/

        /*@fn radix-engine/src/blueprints/resource/non_fungible/non_fungible_resource_manager.rs :: impl NonFungibleResourceManagerBlueprint :: fn get_non_fungible
        @sig
            ensures
                final(api).state().kv == old(api).state().kv,
                ret matches Ok(v) ==> live(old(api).state().kv, id) && v == entry_of(old(api).state().kv, id).value->0,
                !live(old(api).state().kv, id) ==> ret is Err,
        @*/

        /*@fn radix-engine/src/blueprints/resource/non_fungible/non_fungible_resource_manager.rs :: impl NonFungibleResourceManagerBlueprint :: fn package_burn
        @sig
            requires
                wf_supply(old(api).state()),
                old(api).state().objects.contains_key(bucket.0.0) ==> is_nf_bucket(old(api).state().objects[bucket.0.0]),
            ensures
                burn_post(old(api).state(), final(api).state(), bucket.0.0, ret is Ok),
        @*/
    }

    // ==========================================================================================
    // C43 over histories, as a consequence of the contracts: every successful contracted writer of the Data
    // collection (create_non_fungibles, burn*, update_non_fungible_data) ensures `nf_step(before, after)`;
    // a committed history is a sequence of such steps (failed transactions are rolled back).
    // ==========================================================================================
    pub open spec fn trace_ok(tr: Seq<Kv>) -> bool {
        forall|i: int| 0 <= i < tr.len() - 1 ==> nf_step(#[trigger] tr[i], tr[i + 1])
    }
    /// once minted, an id is for ever either live or a tombstone -- it never looks "never minted" again
    pub proof fn lemma_minted_stays_known(tr: Seq<Kv>, i: int, j: int, id: NonFungibleLocalId)
        requires trace_ok(tr), 0 <= i <= j < tr.len(), live(tr[i], id) || tombstone(tr[i], id)
        ensures live(tr[j], id) || tombstone(tr[j], id)
        decreases j - i
    {
        if i < j {
            lemma_minted_stays_known(tr, i, j - 1, id);
            assert(nf_step(tr[j - 1], tr[j - 1 + 1]));
            assert(entry_of(tr[j], id) == entry_of(tr[j], id));
        }
    }
    /// An id that was live at some point can never be minted again:
    ///  * the precondition that `create_non_fungibles(.., check_non_existence = true, ..)` (explicit-id mint)
    ///    guarantees for each of its ids on success -- `never_minted` -- is false in every later state;
    ///  * once it has been burnt, the weaker guarantee that holds on BOTH mint paths (RUID included) -- the
    ///    entry is not locked -- is false as well: no successful `create_non_fungibles` can contain the id.
    pub proof fn theorem_no_remint(tr: Seq<Kv>, i: int, j: int, id: NonFungibleLocalId)
        requires trace_ok(tr), 0 <= i <= j < tr.len(), live(tr[i], id)
        ensures
            !never_minted(tr[j], id),
            !live(tr[j], id) ==> entry_of(tr[j], id).locked,
    {
        lemma_minted_stays_known(tr, i, j, id);
    }
    /// .. and a burnt id stays burnt: it is never live again, so no data update can touch it either
    pub proof fn theorem_burnt_for_ever(tr: Seq<Kv>, i: int, j: int, id: NonFungibleLocalId)
        requires trace_ok(tr), 0 <= i <= j < tr.len(), tombstone(tr[i], id)
        ensures tombstone(tr[j], id)
        decreases j - i
    {
        if i < j {
            theorem_burnt_for_ever(tr, i, j - 1, id);
            assert(nf_step(tr[j - 1], tr[j - 1 + 1]));
            assert(entry_of(tr[j], id) == entry_of(tr[j - 1], id));
        }
    }
}
} // verus!
fn main() {}
