// Unit c12_track -- property C12 "The transaction state cache reads back its own writes": the TRACK itself.
// Real code under contract (bodies extracted verbatim):
//   radix-engine/src/track/track.rs :: MappedTrack::{get_substate_from_db, get_tracked_substate, get_substate,
//     set_substate, remove_substate, ...}
//   radix-engine/src/track/state_updates.rs :: the per-substate machine the track calls into (same contracts as
//     unit c12_tracked_substate), TrackedNode::new, TrackedPartition::{new, default}
// Oracle (from the property statement): the track is the map overlay(db): a cell (node, partition, sort key) that is
// tracked answers `cur` of its per-substate machine, an untracked cell answers what the database holds.
use vstd::prelude::*;
verus! {
/*@include shims/rt.rs @*/
/*@include shims/track_maps_c12.rs @*/

pub mod env {
    use vstd::prelude::*;
    use super::unit::*;

    /// radix-engine-interface IndexedScryptoValue: opaque.  ASSUMED: `clone` is the identity on the abstract
    /// value; `len()` is a fixed function of the value and is at most isize::MAX (it is the length of the
    /// Vec<u8> held inside: std guarantees a Vec never holds more than isize::MAX bytes); `from_vec` is a
    /// partial function of the bytes (`decodable` / `decode`).
    #[verifier::external_body]
    pub struct IndexedScryptoValue { b: Vec<u8> }
    pub struct DecodeError;
    impl core::fmt::Debug for DecodeError {
        #[verifier::external]
        fn fmt(&self, f: &mut core::fmt::Formatter<'_>) -> core::fmt::Result { Ok(()) }
    }
    pub uninterp spec fn decodable(b: Seq<u8>) -> bool;
    pub uninterp spec fn decode(b: Seq<u8>) -> IndexedScryptoValue;
    impl IndexedScryptoValue {
        pub uninterp spec fn spec_len(&self) -> usize;
        #[verifier::external_body]
        pub fn len(&self) -> (r: usize) ensures r == self.spec_len(), r <= isize::MAX as usize { unimplemented!() }
        #[verifier::external_body]
        pub fn from_vec(v: Vec<u8>) -> (r: Result<IndexedScryptoValue, DecodeError>)
            ensures decodable(v@) ==> r == Ok::<IndexedScryptoValue, DecodeError>(decode(v@)), !decodable(v@) ==> r is Err
        { unimplemented!() }
    }
    impl Clone for IndexedScryptoValue {
        #[verifier::external_body]
        fn clone(&self) -> (r: Self) ensures r == *self { unimplemented!() }
    }
    /// radix-common SubstateKey / substate-store DbSortKey, DbPartitionKey: opaque keys, only cloned, moved and
    /// looked up.  ASSUMED: derived `Clone` is the identity.
    #[verifier::external_body]
    pub struct SubstateKey { x: Vec<u8> }
    impl Clone for SubstateKey {
        #[verifier::external_body]
        fn clone(&self) -> (r: Self) ensures r == *self { unimplemented!() }
    }
    #[verifier::external_body]
    pub struct DbSortKey { x: Vec<u8> }
    impl Clone for DbSortKey {
        #[verifier::external_body]
        fn clone(&self) -> (r: Self) ensures r == *self { unimplemented!() }
    }
    #[verifier::external_body]
    pub struct DbPartitionKey { x: Vec<u8> }
    #[derive(Clone, Copy)]
    pub struct PartitionNumber(pub u8);
    #[derive(Clone, Copy)]
    pub struct NodeId(pub [u8; 30]);
    pub type DbSubstateValue = Vec<u8>;

    /// radix-engine/src/kernel/call_frame.rs :: TransientSubstates: opaque set of (node, partition, substate key)
    #[verifier::external_body]
    pub struct TransientSubstates { _p: () }
    impl TransientSubstates {
        pub uninterp spec fn view(&self) -> Set<(NodeId, PartitionNumber, SubstateKey)>;
        #[verifier::external_body]
        pub fn new() -> (r: Self) ensures r@ == Set::<(NodeId, PartitionNumber, SubstateKey)>::empty() { unimplemented!() }
        #[verifier::external_body]
        pub fn is_transient(&self, node_id: &NodeId, partition_num: PartitionNumber, substate_key: &SubstateKey) -> (r: bool)
            ensures r == self@.contains((*node_id, partition_num, *substate_key))
        { unimplemented!() }
        #[verifier::external_body]
        pub fn mark_as_transient(&mut self, node_id: NodeId, partition_num: PartitionNumber, substate_key: SubstateKey)
            ensures final(self)@ == old(self)@.insert((node_id, partition_num, substate_key))
        { unimplemented!() }
    }

    /// radix-substate-store-interface :: trait DatabaseKeyMapper (the two provided methods the track uses).
    /// ASSUMED: both are functions of their arguments.  (Their injectivity is C16; it is NOT assumed here: all
    /// contracts below are stated per database sort key.)
    pub trait DatabaseKeyMapper: 'static {
        spec fn sort_key(key: SubstateKey) -> DbSortKey;
        spec fn part_key(node_id: NodeId, partition_num: PartitionNumber) -> DbPartitionKey;
        fn to_db_sort_key(key: &SubstateKey) -> (r: DbSortKey)
            ensures r == Self::sort_key(*key);
        fn to_db_partition_key(node_id: &NodeId, partition_num: PartitionNumber) -> (r: DbPartitionKey)
            ensures r == Self::part_key(*node_id, partition_num);
    }

    /// radix-substate-store-interface :: trait SubstateDatabase, point-read half.  ASSUMED: the database has a
    /// map view and a read returns the bytes bound to the key, if any.
    pub type Db = Map<(DbPartitionKey, DbSortKey), Seq<u8>>;
    pub trait SubstateDatabase {
        spec fn view(&self) -> Db;
        fn get_raw_substate_by_db_key(&self, partition_key: &DbPartitionKey, sort_key: &DbSortKey) -> (r: Option<DbSubstateValue>)
            ensures match r {
                Some(b) => self.view().contains_key((*partition_key, *sort_key)) && b@ == self.view()[(*partition_key, *sort_key)],
                None => !self.view().contains_key((*partition_key, *sort_key)),
            };
    }

    pub assume_specification<T> [core::mem::replace] (dest: &mut T, src: T) -> (r: T)
        ensures r == *old(dest), *final(dest) == src;

    /// derived `Clone` of TrackedSubstateValue (derive(Clone) carries no spec in Verus): ASSUMED identity
    impl Clone for TrackedSubstateValue {
        #[verifier::external_body]
        fn clone(&self) -> (r: Self) ensures r == *self { unimplemented!() }
    }
}

pub mod unit {
    use vstd::prelude::*;
    use core::mem;
    use core::marker::PhantomData;
    use super::rt::*;
    use super::tm12::*;
    use super::env::*;

    /*@item radix-engine/src/track/state_updates.rs :: struct RuntimeSubstate
    @derive
    @*/
    /*@item radix-engine/src/track/state_updates.rs :: enum ReadOnly
    @derive
    @*/
    /*@item radix-engine/src/track/state_updates.rs :: enum Write
    @derive
    @*/
    /*@item radix-engine/src/track/state_updates.rs :: struct TrackedSubstate
    @derive
    @*/
    /*@item radix-engine/src/track/state_updates.rs :: enum TrackedSubstateValue
    @derive
    @*/
    /*@item radix-engine/src/track/state_updates.rs :: struct TrackedPartition
    @derive
    @*/
    /*@item radix-engine/src/track/state_updates.rs :: struct TrackedNode
    @derive
    @*/
    /*@item radix-engine/src/track/interface.rs :: struct CanonicalPartition
    @derive
    @*/
    /*@item radix-engine/src/track/interface.rs :: struct CanonicalSubstateKey
    @derive
    @*/
    /*@item radix-engine/src/track/interface.rs :: enum IOAccess
    @derive
    @*/
    /*@item radix-engine/src/track/track.rs :: struct MappedTrack
    @*/

    // ==================================================================================================
    // ORACLE, per substate (as in unit c12_tracked_substate): a tracked substate is an overlay cell
    //   base : what the database is KNOWN to hold (None = never read)     cur : what a read returns now
    //   written : does the cell contribute an update at the end           fresh : created inside a new node
    // ==================================================================================================
    pub type V = IndexedScryptoValue;
    pub open spec fn cur(t: TrackedSubstateValue) -> Option<V> {
        match t {
            TrackedSubstateValue::New(s) => Some(s.value),
            TrackedSubstateValue::ReadOnly(ReadOnly::NonExistent) => None,
            TrackedSubstateValue::ReadOnly(ReadOnly::Existent(s)) => Some(s.value),
            TrackedSubstateValue::ReadExistAndWrite(_, Write::Update(s)) => Some(s.value),
            TrackedSubstateValue::ReadExistAndWrite(_, Write::Delete) => None,
            TrackedSubstateValue::ReadNonExistAndWrite(s) => Some(s.value),
            TrackedSubstateValue::WriteOnly(Write::Update(s)) => Some(s.value),
            TrackedSubstateValue::WriteOnly(Write::Delete) => None,
            TrackedSubstateValue::Garbage => None,
        }
    }
    pub open spec fn base(t: TrackedSubstateValue) -> Option<Option<V>> {
        match t {
            TrackedSubstateValue::ReadOnly(ReadOnly::NonExistent) => Some(None),
            TrackedSubstateValue::ReadOnly(ReadOnly::Existent(s)) => Some(Some(s.value)),
            TrackedSubstateValue::ReadExistAndWrite(r, _) => Some(Some(r)),
            TrackedSubstateValue::ReadNonExistAndWrite(_) => Some(None),
            _ => None,
        }
    }
    pub open spec fn written(t: TrackedSubstateValue) -> bool { !(t is ReadOnly) && !(t is Garbage) }
    pub open spec fn fresh(t: TrackedSubstateValue) -> bool { t is New }
    pub open spec fn opt_len(o: Option<V>) -> int { match o { Some(v) => v.spec_len() as int, None => 0 } }
    pub open spec fn size_spec(t: TrackedSubstateValue) -> int {
        opt_len(cur(t)) + (match base(t) { Some(b) if written(t) => opt_len(b), _ => 0 })
    }
    /// the cell a first read creates: a read-only image of what was found
    pub open spec fn loaded(o: Option<V>) -> TrackedSubstateValue {
        match o {
            Some(v) => TrackedSubstateValue::ReadOnly(ReadOnly::Existent(RuntimeSubstate { value: v })),
            None => TrackedSubstateValue::ReadOnly(ReadOnly::NonExistent),
        }
    }

    // ==================================================================================================
    // ORACLE, whole track.  Cells are addressed by (node, partition, database sort key).
    // ==================================================================================================
    pub type Nodes = Map<NodeId, TrackedNode>;
    pub open spec fn parts(a: Nodes, n: NodeId) -> Map<PartitionNumber, TrackedPartition> {
        if a.contains_key(n) { a[n].tracked_partitions@ } else { Map::empty() }
    }
    pub open spec fn subs(a: Nodes, n: NodeId, p: PartitionNumber) -> Map<DbSortKey, TrackedSubstate> {
        if parts(a, n).contains_key(p) { parts(a, n)[p].substates@ } else { Map::empty() }
    }
    pub open spec fn node_is_new(a: Nodes, n: NodeId) -> bool { a.contains_key(n) && a[n].is_new }
    pub open spec fn range_read(a: Nodes, n: NodeId, p: PartitionNumber) -> u32 {
        if parts(a, n).contains_key(p) { parts(a, n)[p].range_read } else { 0 }
    }
    /// is (n, p, k) a tracked substate / its per-substate state
    pub open spec fn has(a: Nodes, n: NodeId, p: PartitionNumber, k: DbSortKey) -> bool { subs(a, n, p).contains_key(k) }
    pub open spec fn val(a: Nodes, n: NodeId, p: PartitionNumber, k: DbSortKey) -> TrackedSubstateValue { subs(a, n, p)[k].substate_value }

    /// what the database holds at a cell (ASSUMED decodable, see db_wf)
    pub open spec fn db_get(db: Db, pk: DbPartitionKey, k: DbSortKey) -> Option<V> {
        if db.contains_key((pk, k)) { Some(decode(db[(pk, k)])) } else { None }
    }
    /// ASSUMED about the database: every stored value decodes (the real code panics otherwise: "Failed to decode substate")
    pub open spec fn db_wf(db: Db) -> bool { forall|key: (DbPartitionKey, DbSortKey)| db.contains_key(key) ==> decodable(#[trigger] db[key]) }

    /// THE OVERLAY: what a read of (n, p, substate key sk) must answer.  A tracked cell answers for itself; an
    /// untracked cell answers the database -- except for substates marked transient, which by definition
    /// ("never was and never will be persisted") are absent below the track.
    pub open spec fn below<M: DatabaseKeyMapper>(tr: Set<(NodeId, PartitionNumber, SubstateKey)>, db: Db, n: NodeId, p: PartitionNumber, sk: SubstateKey) -> Option<V> {
        if tr.contains((n, p, sk)) { None } else { db_get(db, M::part_key(n, p), M::sort_key(sk)) }
    }
    pub open spec fn overlay<M: DatabaseKeyMapper>(a: Nodes, tr: Set<(NodeId, PartitionNumber, SubstateKey)>, db: Db, n: NodeId, p: PartitionNumber, sk: SubstateKey) -> Option<V> {
        if has(a, n, p, M::sort_key(sk)) { cur(val(a, n, p, M::sort_key(sk))) } else { below::<M>(tr, db, n, p, sk) }
    }

    /// `b` is `a` with node n and partition (n, p) made to exist (a node that appears is NOT new, a partition
    /// that appears has range_read 0 and no substates) and nothing else touched
    pub open spec fn ensured(a: Nodes, b: Nodes, n: NodeId, p: PartitionNumber) -> bool {
        &&& b.dom() == a.dom().insert(n)
        &&& forall|n1: NodeId| n1 != n && a.contains_key(n1) ==> #[trigger] b[n1] == a[n1]
        &&& b[n].is_new == node_is_new(a, n)
        &&& b[n].tracked_partitions@.dom() == parts(a, n).dom().insert(p)
        &&& forall|p1: PartitionNumber| p1 != p && parts(a, n).contains_key(p1) ==> #[trigger] b[n].tracked_partitions@[p1] == parts(a, n)[p1]
        &&& b[n].tracked_partitions@[p].range_read == range_read(a, n, p)
    }
    /// `b` is `a` with exactly the cell (n, p, k) (re)bound to `sub` (node / partition created on the way if absent)
    pub open spec fn upd(a: Nodes, b: Nodes, n: NodeId, p: PartitionNumber, k: DbSortKey, sub: TrackedSubstate) -> bool {
        &&& ensured(a, b, n, p)
        &&& b[n].tracked_partitions@[p].substates@ == subs(a, n, p).insert(k, sub)
    }
    /// `b` is `a` with node / partition (n, p) made to exist, no cell touched
    pub open spec fn touched(a: Nodes, b: Nodes, n: NodeId, p: PartitionNumber) -> bool {
        &&& ensured(a, b, n, p)
        &&& b[n].tracked_partitions@[p].substates@ == subs(a, n, p)
    }

    /// cell-level reading of `upd`: exactly one cell changes, every other cell of the whole track is what it was
    pub proof fn lemma_upd_cells(a: Nodes, b: Nodes, n: NodeId, p: PartitionNumber, k: DbSortKey, sub: TrackedSubstate)
        requires upd(a, b, n, p, k, sub)
        ensures
            has(b, n, p, k), subs(b, n, p)[k] == sub,
            forall|n1: NodeId, p1: PartitionNumber, k1: DbSortKey| !(n1 == n && p1 == p && k1 == k) ==>
                (#[trigger] has(b, n1, p1, k1) == has(a, n1, p1, k1)) && (has(a, n1, p1, k1) ==> subs(b, n1, p1)[k1] == subs(a, n1, p1)[k1]),
            forall|n1: NodeId| #[trigger] node_is_new(b, n1) == node_is_new(a, n1),
            forall|n1: NodeId, p1: PartitionNumber| #[trigger] range_read(b, n1, p1) == range_read(a, n1, p1),
    {
        assert(b.contains_key(n));
        assert(b[n].tracked_partitions@.contains_key(p));
        assert forall|n1: NodeId, p1: PartitionNumber| subs(b, n1, p1) == (if n1 == n && p1 == p { subs(a, n, p).insert(k, sub) } else { subs(a, n1, p1) })
            && #[trigger] range_read(b, n1, p1) == range_read(a, n1, p1) by {
            if n1 == n {
                if p1 != p {
                    assert(b[n].tracked_partitions@.contains_key(p1) == parts(a, n).contains_key(p1));
                    if parts(a, n).contains_key(p1) { assert(b[n].tracked_partitions@[p1] == parts(a, n)[p1]); }
                }
            } else {
                assert(b.contains_key(n1) == a.contains_key(n1));
                if a.contains_key(n1) { assert(b[n1] == a[n1]); }
            }
        }
        assert forall|n1: NodeId, p1: PartitionNumber, k1: DbSortKey| !(n1 == n && p1 == p && k1 == k) implies
                (#[trigger] has(b, n1, p1, k1) == has(a, n1, p1, k1)) && (has(a, n1, p1, k1) ==> subs(b, n1, p1)[k1] == subs(a, n1, p1)[k1]) by {
            assert(range_read(b, n1, p1) == range_read(a, n1, p1));
        }
        assert forall|n1: NodeId| #[trigger] node_is_new(b, n1) == node_is_new(a, n1) by {
            if n1 != n { assert(b.contains_key(n1) == a.contains_key(n1)); if a.contains_key(n1) { assert(b[n1] == a[n1]); } }
        }
    }
    pub proof fn lemma_touched_cells(a: Nodes, b: Nodes, n: NodeId, p: PartitionNumber)
        requires touched(a, b, n, p)
        ensures
            forall|n1: NodeId, p1: PartitionNumber| #[trigger] subs(b, n1, p1) == subs(a, n1, p1),
            forall|n1: NodeId| #[trigger] node_is_new(b, n1) == node_is_new(a, n1),
            forall|n1: NodeId, p1: PartitionNumber| #[trigger] range_read(b, n1, p1) == range_read(a, n1, p1),
    {
        assert(b.contains_key(n));
        assert(b[n].tracked_partitions@.contains_key(p));
        assert forall|n1: NodeId, p1: PartitionNumber| #[trigger] subs(b, n1, p1) == subs(a, n1, p1)
            && range_read(b, n1, p1) == range_read(a, n1, p1) by {
            if n1 == n {
                if p1 != p {
                    assert(b[n].tracked_partitions@.contains_key(p1) == parts(a, n).contains_key(p1));
                    if parts(a, n).contains_key(p1) { assert(b[n].tracked_partitions@[p1] == parts(a, n)[p1]); }
                }
            } else {
                assert(b.contains_key(n1) == a.contains_key(n1));
                if a.contains_key(n1) { assert(b[n1] == a[n1]); }
            }
        }
        assert forall|n1: NodeId, p1: PartitionNumber| #[trigger] range_read(b, n1, p1) == range_read(a, n1, p1) by {
            assert(subs(b, n1, p1) == subs(a, n1, p1));
        }
        assert forall|n1: NodeId| #[trigger] node_is_new(b, n1) == node_is_new(a, n1) by {
            if n1 != n { assert(b.contains_key(n1) == a.contains_key(n1)); if a.contains_key(n1) { assert(b[n1] == a[n1]); } }
        }
    }

    // ==================================================================================================
    // the per-substate machine (verbatim; contracts as in unit c12_tracked_substate, `size` without the
    // no-overflow precondition thanks to len() <= isize::MAX)
    // ==================================================================================================
    impl RuntimeSubstate {
        /*@fn radix-engine/src/track/state_updates.rs :: impl RuntimeSubstate :: fn new
        @sig
            ensures ret.value == value
        @*/
    }
    impl Write {
        /*@fn radix-engine/src/track/state_updates.rs :: impl Write :: fn into_value
        @sig
            ensures ret == (match self { Write::Update(s) => Some(s.value), Write::Delete => None })
        @*/
    }
    impl TrackedSubstateValue {
        /*@fn radix-engine/src/track/state_updates.rs :: impl TrackedSubstateValue :: fn get
        @sig
            ensures match ret { Some(v) => cur(*self) == Some(*v), None => cur(*self) is None }
        @*/

        /*@fn radix-engine/src/track/state_updates.rs :: impl TrackedSubstateValue :: fn into_value
        @sig
            ensures ret == cur(self)
        @*/

        /*@fn radix-engine/src/track/state_updates.rs :: impl TrackedSubstateValue :: fn take
        @sig
            ensures
                ret == cur(*old(self)),
                cur(*final(self)) is None,
                base(*final(self)) == base(*old(self)),
                !fresh(*final(self)),
                written(*final(self)) == (if fresh(*old(self)) { false } else {
                    match base(*old(self)) { Some(None) => false, Some(Some(_)) => true, None => written(*old(self)) } }),
        @*/

        /*@fn radix-engine/src/track/state_updates.rs :: impl TrackedSubstateValue :: fn set
        @split-arm <<TrackedSubstateValue::New(substate)>> #1
        @split-arm <<TrackedSubstateValue::ReadExistAndWrite(_, write @ Write::Delete)>> #1
        @sig
            ensures
                cur(*final(self)) == Some(value),
                base(*final(self)) == base(*old(self)),
                written(*final(self)),
                fresh(*final(self)) == fresh(*old(self)),
        @*/

        /*@fn radix-engine/src/track/state_updates.rs :: impl TrackedSubstateValue :: fn get_runtime_substate_mut
        @split-arm <<TrackedSubstateValue::New(substate)>> #1
        @sig
            ensures match ret {
                Some(r) => cur(*old(self)) == Some(r.value)
                    && cur(*final(self)) == Some(final(r).value)
                    && written(*final(self)) == written(*old(self))
                    && fresh(*final(self)) == fresh(*old(self))
                    && (final(r).value == r.value ==> *final(self) == *old(self))
                    && base(*final(self)) == (if *old(self) is ReadOnly { Some(Some(final(r).value)) } else { base(*old(self)) }),
                None => cur(*old(self)) is None && *final(self) == *old(self),
            }
        @*/

        /*@fn radix-engine/src/track/state_updates.rs :: impl TrackedSubstateValue :: fn size
        @sig
            ensures ret == size_spec(*self)
        @*/
    }
    impl TrackedSubstate {
        /*@fn radix-engine/src/track/state_updates.rs :: impl TrackedSubstate :: fn size
        @sig
            ensures ret == size_spec(self.substate_value)
        @*/
    }
    impl TrackedPartition {
        /*@fn radix-engine/src/track/state_updates.rs :: impl TrackedPartition :: fn new
        @sig
            ensures ret.substates@ == Map::<DbSortKey, TrackedSubstate>::empty(), ret.range_read == 0
        @*/
    }
    impl Default for TrackedPartition {
        /*@fn radix-engine/src/track/state_updates.rs :: impl Default for TrackedPartition :: fn default
        @sig
            ensures ret.substates@ == Map::<DbSortKey, TrackedSubstate>::empty(), ret.range_read == 0
        @*/
    }
    impl TrackedNode {
        /*@fn radix-engine/src/track/state_updates.rs :: impl TrackedNode :: fn new
        @sig
            ensures ret.tracked_partitions@ == Map::<PartitionNumber, TrackedPartition>::empty(), ret.is_new == is_new
        @*/
    }

    // ==================================================================================================
    // the track: point operations (verbatim)
    // ==================================================================================================
    /// the fields of the track the point operations never touch
    pub open spec fn rest_same<'s, S: SubstateDatabase, M: DatabaseKeyMapper>(a: MappedTrack<'s, S, M>, b: MappedTrack<'s, S, M>) -> bool {
        &&& b.substate_db == a.substate_db
        &&& b.force_write_tracked_nodes == a.force_write_tracked_nodes
        &&& b.deleted_partitions == a.deleted_partitions
        &&& b.transient_substates == a.transient_substates
    }

    impl<'s, S: SubstateDatabase, M: DatabaseKeyMapper> MappedTrack<'s, S, M> {
        /*@fn radix-engine/src/track/track.rs :: impl<'s, S: SubstateDatabase, M: DatabaseKeyMapper> MappedTrack<'s, S, M> :: fn get_substate_from_db
        @sig
            requires
                db_wf(substate_db.view()),
                forall|a: IOAccess| (*old(on_io_access)).requires((a,)),
            ensures
                match ret {
                    // the database is consulted at exactly this key, and the answer is passed on unchanged
                    Ok(v) => v == db_get(substate_db.view(), *partition_key, *sort_key),
                    // the only source of an error is the IO-access callback
                    Err(e) => exists|a: IOAccess| (*old(on_io_access)).ensures((a,), Err::<(), E>(e)),
                }
        @closure 1 := |e: Vec<u8>| -> (r: IndexedScryptoValue) requires decodable(e@) ensures r == decode(e@)
        @*/

        /*@fn radix-engine/src/track/track.rs :: impl<'s, S: SubstateDatabase, M: DatabaseKeyMapper> MappedTrack<'s, S, M> :: fn get_tracked_substate
        @sig
            requires
                db_wf(old(self).substate_db.view()),
                // a tracked cell is served from the cache: NO IO access is made for it (so the callback may then be uncallable)
                has(old(self).tracked_nodes@, *node_id, partition_number, M::sort_key(substate_key))
                    || forall|a: IOAccess| (*old(on_io_access)).requires((a,)),
            ensures
                rest_same(*old(self), *final(self)),
                has(old(self).tracked_nodes@, *node_id, partition_number, M::sort_key(substate_key)) ==> ret is Ok,
                match ret {
                    Ok(r) => {
                        let k = M::sort_key(substate_key);
                        let a = old(self).tracked_nodes@;
                        if has(a, *node_id, partition_number, k) {
                            // cached: the reference is the cell itself
                            &&& *r == val(a, *node_id, partition_number, k)
                            &&& upd(a, final(self).tracked_nodes@, *node_id, partition_number, k,
                                    TrackedSubstate { substate_key: subs(a, *node_id, partition_number)[k].substate_key, substate_value: *final(r) })
                        } else {
                            // first access: the cell is created as a read-only image of what lies below the track
                            &&& *r == loaded(below::<M>(old(self).transient_substates@, old(self).substate_db.view(), *node_id, partition_number, substate_key))
                            &&& upd(a, final(self).tracked_nodes@, *node_id, partition_number, k,
                                    TrackedSubstate { substate_key: substate_key, substate_value: *final(r) })
                        }
                    },
                    Err(e) => {
                        let k = M::sort_key(substate_key);
                        let a = old(self).tracked_nodes@;
                        &&& !has(a, *node_id, partition_number, k)
                        // nothing but (at most) the read-only image of the cell has been added
                        &&& (touched(a, final(self).tracked_nodes@, *node_id, partition_number)
                             || upd(a, final(self).tracked_nodes@, *node_id, partition_number, k, TrackedSubstate { substate_key: substate_key,
                                    substate_value: loaded(below::<M>(old(self).transient_substates@, old(self).substate_db.view(), *node_id, partition_number, substate_key)) }))
                        &&& exists|a: IOAccess| (*old(on_io_access)).ensures((a,), Err::<(), E>(e))
                    },
                }
        @subst <<let tracked =>> => <<let r#tracked =>> x3 why: `tracked` is a reserved word of Verus in `let` position; `r#tracked` is the SAME Rust identifier written as a raw identifier, the program is unchanged
        @*/
    }
}
} // verus!
fn main() {}
