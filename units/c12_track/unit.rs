// Unit c12_track -- property C12 "The transaction state cache reads back its own writes": the TRACK itself.
// Real code under contract (bodies extracted verbatim):
//   radix-engine/src/track/track.rs
//     MappedTrack::{new, get_substate_from_db, get_tracked_substate, finalize}
//     <MappedTrack as CommitableSubstateStore>::{get_substate, set_substate, remove_substate, create_node, force_write,
//       delete_partition, mark_as_transient, get_tracked_substate_info, scan_keys (tracked half; database half cut by R9)}
//     TrackedSubstates::to_state_updates (loops + into_values().filter_map(..).collect(), closure body verbatim)
//     the tracked-entry closure of scan_sorted_substates (sliced with @expr-after)
//   radix-engine/src/track/state_updates.rs :: the per-substate machine the track calls into (same contracts as unit
//     c12_tracked_substate), TrackedNode::new, TrackedPartition::{new, new_with_substates, default}
//   radix-engine/src/kernel/call_frame.rs :: TransientSubstates::{new, mark_as_transient, is_transient}
// Oracle (from the property statement): the track is the map overlay(db): a cell (node, partition, db sort key) that is
// tracked answers `cur` of its per-substate machine, an untracked cell answers what the database holds; the state
// updates produced at the end are exactly the written cells (plus the partition resets).
// NOT here (see props.frag.json for the obstacles): list_entries_from_db, the database halves of scan_keys /
// drain_substates, the tracked half of drain_substates, scan_sorted_substates beyond its closure, get_commit_info;
// revert_non_force_write_changes is verified in unit c02_result_type.
use vstd::prelude::*;
verus! {
/*@include shims/rt.rs @*/
/*@include shims/track_maps_c12.rs @*/

pub mod env {
    use vstd::prelude::*;
    use super::unit::*;
    use super::tm12::IndexMap;

    /// radix-engine-interface IndexedScryptoValue: opaque.  ASSUMED: `clone` is the identity on the abstract
    /// value; `len()` is a fixed function of the value and is at most isize::MAX (it is the length of the
    /// Vec<u8> held inside: std guarantees a Vec never holds more than isize::MAX bytes); `from_vec` is a
    /// partial function of the bytes (`decodable` / `decode`).
    #[verifier::external_body]
    pub struct IndexedScryptoValue { b: Vec<u8> }
    pub struct DecodeError;
    #[verifier::external]
    impl core::fmt::Debug for DecodeError {
        fn fmt(&self, f: &mut core::fmt::Formatter<'_>) -> core::fmt::Result { Ok(()) }
    }
    pub uninterp spec fn decodable(b: Seq<u8>) -> bool;
    pub uninterp spec fn decode(b: Seq<u8>) -> IndexedScryptoValue;
    impl IndexedScryptoValue {
        pub uninterp spec fn spec_len(&self) -> usize;
        /// the byte string of the value (real code: `From<IndexedScryptoValue> for Vec<u8>`, reached through the blanket `Into`)
        pub uninterp spec fn bytes(&self) -> Seq<u8>;
        #[verifier::external_body]
        pub fn into(self) -> (r: Vec<u8>) ensures r@ == self.bytes() { unimplemented!() }
        #[verifier::external_body]
        pub fn len(&self) -> (r: usize) ensures r == self.spec_len(), r <= isize::MAX as usize { unimplemented!() }
        /// does the value own nodes (`owned_nodes()` non-empty)
        pub uninterp spec fn owns(&self) -> bool;
        #[verifier::external_body]
        pub fn owned_nodes(&self) -> (r: &Vec<NodeId>) ensures (r@.len() > 0) == self.owns() { unimplemented!() }
        #[verifier::external_body]
        pub fn from_vec(v: Vec<u8>) -> (r: Result<IndexedScryptoValue, DecodeError>)
            ensures decodable(v@) ==> r == Ok::<IndexedScryptoValue, DecodeError>(decode(v@)), !decodable(v@) ==> r is Err
        { unimplemented!() }
    }
    impl Clone for IndexedScryptoValue {
        #[verifier::external_body]
        fn clone(&self) -> (r: Self) ensures r == *self { unimplemented!() }
    }
    /// radix-common SubstateKey / substate-store DbSortKey, DbPartitionKey: opaque keys, only cloned, moved and
    /// looked up.  ASSUMED: derived `Clone` is the identity.
    #[verifier::external_body]
    pub struct SubstateKey { x: Vec<u8> }
    impl Clone for SubstateKey {
        #[verifier::external_body]
        fn clone(&self) -> (r: Self) ensures r == *self { unimplemented!() }
    }
    #[verifier::external_body]
    pub struct DbSortKey { x: Vec<u8> }
    impl Clone for DbSortKey {
        #[verifier::external_body]
        fn clone(&self) -> (r: Self) ensures r == *self { unimplemented!() }
    }
    #[verifier::external_body]
    pub struct DbPartitionKey { x: Vec<u8> }
    #[derive(Clone, Copy)]
    pub struct PartitionNumber(pub u8);
    #[derive(Clone, Copy)]
    pub struct NodeId(pub [u8; 30]);
    pub type DbSubstateValue = Vec<u8>;

    /// radix-substate-store-interface :: trait DatabaseKeyMapper (the two provided methods the track uses).
    /// ASSUMED: both are functions of their arguments.  (Their injectivity is C16; it is NOT assumed here: all
    /// contracts below are stated per database sort key.)
    pub trait DatabaseKeyMapper: 'static {
        spec fn sort_key(key: SubstateKey) -> DbSortKey;
        spec fn part_key(node_id: NodeId, partition_num: PartitionNumber) -> DbPartitionKey;
        fn to_db_sort_key(key: &SubstateKey) -> (r: DbSortKey)
            ensures r == Self::sort_key(*key);
        fn to_db_partition_key(node_id: &NodeId, partition_num: PartitionNumber) -> (r: DbPartitionKey)
            ensures r == Self::part_key(*node_id, partition_num);
    }

    /// radix-substate-store-interface :: trait SubstateDatabase, point-read half.  ASSUMED: the database has a
    /// map view and a read returns the bytes bound to the key, if any.
    pub type Db = Map<(DbPartitionKey, DbSortKey), Seq<u8>>;
    pub trait SubstateDatabase {
        spec fn view(&self) -> Db;
        fn get_raw_substate_by_db_key(&self, partition_key: &DbPartitionKey, sort_key: &DbSortKey) -> (r: Option<DbSubstateValue>)
            ensures match r {
                Some(b) => self.view().contains_key((*partition_key, *sort_key)) && b@ == self.view()[(*partition_key, *sort_key)],
                None => !self.view().contains_key((*partition_key, *sort_key)),
            };
    }

    /// radix-substate-store-interface :: trait SubstateKeyContent (only a type parameter of the scans' database half)
    pub trait SubstateKeyContent {}


    /// radix-common/src/state/state_updates.rs :: StateUpdates / NodeStateUpdates / PartitionStateUpdates, the builder
    /// half used by TrackedSubstates::to_state_updates.  NOT under contract here: ASSUMED as documented there.
    /// Abstract state of a partition's updates: `get(sk)` = what the update does to substate sk:
    ///   None = untouched, Some(None) = absent afterwards, Some(Some(b)) = holds b afterwards
    /// (`Delta { by_substate }`: only the listed substates are touched; `Batch(Reset { new_substate_values })`: the
    /// partition is replaced, EVERY substate is determined).
    #[verifier::external_body]
    pub struct PartitionStateUpdates { _p: () }
    impl PartitionStateUpdates {
        pub uninterp spec fn get(&self, sk: SubstateKey) -> Option<Option<DbSubstateValue>>;
        /// "Resets the partition to an empty state": `Batch(Reset { new_substate_values: {} })`
        #[verifier::external_body]
        pub fn delete(&mut self)
            ensures forall|sk: SubstateKey| #[trigger] final(self).get(sk) == Some(None::<DbSubstateValue>)
        { unimplemented!() }
        /// "Applies the given updates on top of the current updates to the partition" (Delta: `by_substate.extend`;
        /// Reset: Set inserts into / Delete removes from the new values).  The real parameter is
        /// `impl IntoIterator<Item = (SubstateKey, DatabaseUpdate)>`; the track passes an IndexMap (distinct keys).
        #[verifier::external_body]
        pub fn mut_update_substates(&mut self, updates: IndexMap<SubstateKey, DatabaseUpdate>)
            ensures forall|sk: SubstateKey| #[trigger] final(self).get(sk)
                == (if updates@.contains_key(sk) { Some(upd_val(updates@[sk])) } else { old(self).get(sk) })
        { unimplemented!() }
    }
    #[verifier::external_body]
    pub struct NodeStateUpdates { _p: () }
    impl NodeStateUpdates {
        pub uninterp spec fn view(&self) -> Map<PartitionNumber, PartitionStateUpdates>;
        /// "Starts a Partition-level update": `by_partition.entry(partition_num).or_default()`, the default being an
        /// empty Delta (touches nothing)
        #[verifier::external_body]
        pub fn of_partition(&mut self, partition_num: PartitionNumber) -> (r: &mut PartitionStateUpdates)
            ensures
                old(self)@.contains_key(partition_num) ==> *r == old(self)@[partition_num],
                !old(self)@.contains_key(partition_num) ==> (forall|sk: SubstateKey| #[trigger] r.get(sk) is None),
                final(self)@ == old(self)@.insert(partition_num, *final(r)),
        { unimplemented!() }
    }
    #[verifier::external_body]
    pub struct StateUpdates { _p: () }
    impl StateUpdates {
        pub uninterp spec fn view(&self) -> Map<NodeId, NodeStateUpdates>;
        #[verifier::external_body]
        pub fn empty() -> (r: Self) ensures r@ == Map::<NodeId, NodeStateUpdates>::empty() { unimplemented!() }
        /// "Starts a Node-level update": `by_node.entry(node_id.into()).or_insert_with(|| Delta { by_partition: {} })`.
        /// The real parameter is `impl Into<NodeId>`; the track passes a NodeId.
        #[verifier::external_body]
        pub fn of_node(&mut self, node_id: NodeId) -> (r: &mut NodeStateUpdates)
            ensures
                old(self)@.contains_key(node_id) ==> *r == old(self)@[node_id],
                !old(self)@.contains_key(node_id) ==> r@ == Map::<PartitionNumber, PartitionStateUpdates>::empty(),
                final(self)@ == old(self)@.insert(node_id, *final(r)),
        { unimplemented!() }
    }

    pub assume_specification<T> [core::mem::replace] (dest: &mut T, src: T) -> (r: T)
        ensures r == *old(dest), *final(dest) == src;

    /// derived `Clone` of TrackedSubstateValue (derive(Clone) carries no spec in Verus): ASSUMED identity
    impl Clone for TrackedSubstateValue {
        #[verifier::external_body]
        fn clone(&self) -> (r: Self) ensures r == *self { unimplemented!() }
    }
}

pub mod unit {
    use vstd::prelude::*;
    use core::mem;
    use core::marker::PhantomData;
    use super::rt::*;
    use super::tm12::*;
    use super::env::*;
    broadcast use super::tm12::group_tm12;

    /*@item radix-engine/src/track/state_updates.rs :: struct RuntimeSubstate
    @derive
    @*/
    /*@item radix-engine/src/track/state_updates.rs :: enum ReadOnly
    @derive
    @*/
    /*@item radix-engine/src/track/state_updates.rs :: enum Write
    @derive
    @*/
    /*@item radix-engine/src/track/state_updates.rs :: struct TrackedSubstate
    @derive
    @*/
    /*@item radix-engine/src/track/state_updates.rs :: enum TrackedSubstateValue
    @derive
    @*/
    /*@item radix-engine/src/track/state_updates.rs :: struct TrackedPartition
    @derive
    @*/
    /*@item radix-engine/src/track/state_updates.rs :: struct TrackedNode
    @derive
    @*/
    /*@item radix-engine/src/track/interface.rs :: struct CanonicalPartition
    @derive
    @*/
    /*@item radix-engine/src/track/interface.rs :: struct CanonicalSubstateKey
    @derive
    @*/
    /*@item radix-engine/src/track/interface.rs :: enum IOAccess
    @derive
    @*/
    /*@item radix-common/src/state/state_updates.rs :: enum DatabaseUpdate
    @derive
    @*/
    /*@item radix-engine/src/track/interface.rs :: type NodeSubstates
    @*/
    /*@item radix-engine/src/track/interface.rs :: enum TrackedSubstateInfo
    @derive
    @*/
    /*@item radix-engine/src/kernel/call_frame.rs :: struct TransientSubstates
    @*/
    /*@item radix-engine/src/track/track.rs :: struct MappedTrack
    @*/
    /*@item radix-engine/src/track/track.rs :: struct TrackedSubstates
    @*/
    /*@item radix-engine/src/track/track.rs :: enum TrackFinalizeError
    @derive
    @*/

    // ==================================================================================================
    // ORACLE, per substate (as in unit c12_tracked_substate): a tracked substate is an overlay cell
    //   base : what the database is KNOWN to hold (None = never read)     cur : what a read returns now
    //   written : does the cell contribute an update at the end           fresh : created inside a new node
    // ==================================================================================================
    pub type V = IndexedScryptoValue;
    pub open spec fn cur(t: TrackedSubstateValue) -> Option<V> {
        match t {
            TrackedSubstateValue::New(s) => Some(s.value),
            TrackedSubstateValue::ReadOnly(ReadOnly::NonExistent) => None,
            TrackedSubstateValue::ReadOnly(ReadOnly::Existent(s)) => Some(s.value),
            TrackedSubstateValue::ReadExistAndWrite(_, Write::Update(s)) => Some(s.value),
            TrackedSubstateValue::ReadExistAndWrite(_, Write::Delete) => None,
            TrackedSubstateValue::ReadNonExistAndWrite(s) => Some(s.value),
            TrackedSubstateValue::WriteOnly(Write::Update(s)) => Some(s.value),
            TrackedSubstateValue::WriteOnly(Write::Delete) => None,
            TrackedSubstateValue::Garbage => None,
        }
    }
    pub open spec fn base(t: TrackedSubstateValue) -> Option<Option<V>> {
        match t {
            TrackedSubstateValue::ReadOnly(ReadOnly::NonExistent) => Some(None),
            TrackedSubstateValue::ReadOnly(ReadOnly::Existent(s)) => Some(Some(s.value)),
            TrackedSubstateValue::ReadExistAndWrite(r, _) => Some(Some(r)),
            TrackedSubstateValue::ReadNonExistAndWrite(_) => Some(None),
            _ => None,
        }
    }
    pub open spec fn written(t: TrackedSubstateValue) -> bool { !(t is ReadOnly) && !(t is Garbage) }
    pub open spec fn fresh(t: TrackedSubstateValue) -> bool { t is New }
    pub open spec fn opt_len(o: Option<V>) -> int { match o { Some(v) => v.spec_len() as int, None => 0 } }
    pub open spec fn size_spec(t: TrackedSubstateValue) -> int {
        opt_len(cur(t)) + (match base(t) { Some(b) if written(t) => opt_len(b), _ => 0 })
    }
    /// the cell a first read creates: a read-only image of what was found
    pub open spec fn loaded(o: Option<V>) -> TrackedSubstateValue {
        match o {
            Some(v) => TrackedSubstateValue::ReadOnly(ReadOnly::Existent(RuntimeSubstate { value: v })),
            None => TrackedSubstateValue::ReadOnly(ReadOnly::NonExistent),
        }
    }

    // ==================================================================================================
    // ORACLE, whole track.  Cells are addressed by (node, partition, database sort key).
    // ==================================================================================================
    pub type Nodes = Map<NodeId, TrackedNode>;
    pub open spec fn parts(a: Nodes, n: NodeId) -> Map<PartitionNumber, TrackedPartition> {
        if a.contains_key(n) { a[n].tracked_partitions@ } else { Map::empty() }
    }
    pub open spec fn subs(a: Nodes, n: NodeId, p: PartitionNumber) -> Map<DbSortKey, TrackedSubstate> {
        if parts(a, n).contains_key(p) { parts(a, n)[p].substates@ } else { Map::empty() }
    }
    pub open spec fn node_is_new(a: Nodes, n: NodeId) -> bool { a.contains_key(n) && a[n].is_new }
    pub open spec fn range_read(a: Nodes, n: NodeId, p: PartitionNumber) -> u32 {
        if parts(a, n).contains_key(p) { parts(a, n)[p].range_read } else { 0 }
    }
    /// is (n, p, k) a tracked substate / its per-substate state
    pub open spec fn cell(a: Nodes, n: NodeId, p: PartitionNumber, k: DbSortKey) -> bool { subs(a, n, p).contains_key(k) }
    pub open spec fn val(a: Nodes, n: NodeId, p: PartitionNumber, k: DbSortKey) -> TrackedSubstateValue { subs(a, n, p)[k].substate_value }

    /// what the database holds at a cell (ASSUMED decodable, see db_wf)
    pub open spec fn db_get(db: Db, pk: DbPartitionKey, k: DbSortKey) -> Option<V> {
        if db.contains_key((pk, k)) { Some(decode(db[(pk, k)])) } else { None }
    }
    /// ASSUMED about the database: every stored value decodes (the real code panics otherwise: "Failed to decode substate")
    pub open spec fn db_wf(db: Db) -> bool { forall|key: (DbPartitionKey, DbSortKey)| db.contains_key(key) ==> decodable(#[trigger] db[key]) }

    /// is (n, p, sk) marked transient
    pub open spec fn is_tr(tr: TransientSubstates, n: NodeId, p: PartitionNumber, sk: SubstateKey) -> bool {
        tr.transient_substates@.contains_key(n) && tr.transient_substates@[n]@.contains((p, sk))
    }
    /// THE OVERLAY: what a read of (n, p, substate key sk) must answer.  A tracked cell answers for itself; an
    /// untracked cell answers the database -- except for substates marked transient, which by definition
    /// ("never was and never will be persisted") are absent below the track.
    pub open spec fn below<M: DatabaseKeyMapper>(tr: TransientSubstates, db: Db, n: NodeId, p: PartitionNumber, sk: SubstateKey) -> Option<V> {
        if is_tr(tr, n, p, sk) { None } else { db_get(db, M::part_key(n, p), M::sort_key(sk)) }
    }
    pub open spec fn overlay<M: DatabaseKeyMapper>(a: Nodes, tr: TransientSubstates, db: Db, n: NodeId, p: PartitionNumber, sk: SubstateKey) -> Option<V> {
        if cell(a, n, p, M::sort_key(sk)) { cur(val(a, n, p, M::sort_key(sk))) } else { below::<M>(tr, db, n, p, sk) }
    }

    /// `b` is `a` with node n and partition (n, p) made to exist (a node that appears is NOT new, a partition
    /// that appears has range_read 0 and no substates) and nothing else touched
    pub open spec fn ensured(a: Nodes, b: Nodes, n: NodeId, p: PartitionNumber) -> bool {
        &&& b.dom() =~= a.dom().insert(n)
        &&& forall|n1: NodeId| n1 != n && a.contains_key(n1) ==> #[trigger] b[n1] == a[n1]
        &&& b[n].is_new == node_is_new(a, n)
        &&& b[n].tracked_partitions@.dom() =~= parts(a, n).dom().insert(p)
        &&& forall|p1: PartitionNumber| p1 != p && parts(a, n).contains_key(p1) ==> #[trigger] b[n].tracked_partitions@[p1] == parts(a, n)[p1]
        &&& b[n].tracked_partitions@[p].range_read == range_read(a, n, p)
    }
    /// `b` is `a` with exactly the cell (n, p, k) (re)bound to `sub` (node / partition created on the way if absent)
    pub open spec fn upd(a: Nodes, b: Nodes, n: NodeId, p: PartitionNumber, k: DbSortKey, sub: TrackedSubstate) -> bool {
        &&& ensured(a, b, n, p)
        &&& b[n].tracked_partitions@[p].substates@ =~= subs(a, n, p).insert(k, sub)
    }
    /// `b` is `a` with node / partition (n, p) made to exist, no cell touched
    pub open spec fn touched(a: Nodes, b: Nodes, n: NodeId, p: PartitionNumber) -> bool {
        &&& ensured(a, b, n, p)
        &&& b[n].tracked_partitions@[p].substates@ =~= subs(a, n, p)
    }

    /// cell-level reading of `upd`: exactly one cell changes, every other cell of the whole track is what it was
    pub proof fn lemma_upd_cells(a: Nodes, b: Nodes, n: NodeId, p: PartitionNumber, k: DbSortKey, sub: TrackedSubstate)
        requires upd(a, b, n, p, k, sub)
        ensures
            cell(b, n, p, k), subs(b, n, p)[k] == sub,
            forall|n1: NodeId, p1: PartitionNumber, k1: DbSortKey| !(n1 == n && p1 == p && k1 == k) ==>
                (#[trigger] cell(b, n1, p1, k1) == cell(a, n1, p1, k1)) && (cell(a, n1, p1, k1) ==> subs(b, n1, p1)[k1] == subs(a, n1, p1)[k1]),
            forall|n1: NodeId| #[trigger] node_is_new(b, n1) == node_is_new(a, n1),
            forall|n1: NodeId, p1: PartitionNumber| #[trigger] range_read(b, n1, p1) == range_read(a, n1, p1),
    {
        assert(b.contains_key(n));
        assert(b[n].tracked_partitions@.contains_key(p));
        assert forall|n1: NodeId, p1: PartitionNumber| subs(b, n1, p1) == (if n1 == n && p1 == p { subs(a, n, p).insert(k, sub) } else { subs(a, n1, p1) })
            && #[trigger] range_read(b, n1, p1) == range_read(a, n1, p1) by {
            if n1 == n {
                if p1 != p {
                    assert(b[n].tracked_partitions@.contains_key(p1) == parts(a, n).contains_key(p1));
                    if parts(a, n).contains_key(p1) { assert(b[n].tracked_partitions@[p1] == parts(a, n)[p1]); }
                }
            } else {
                assert(b.contains_key(n1) == a.contains_key(n1));
                if a.contains_key(n1) { assert(b[n1] == a[n1]); }
            }
        }
        assert forall|n1: NodeId, p1: PartitionNumber, k1: DbSortKey| !(n1 == n && p1 == p && k1 == k) implies
                (#[trigger] cell(b, n1, p1, k1) == cell(a, n1, p1, k1)) && (cell(a, n1, p1, k1) ==> subs(b, n1, p1)[k1] == subs(a, n1, p1)[k1]) by {
            assert(range_read(b, n1, p1) == range_read(a, n1, p1));
        }
        assert forall|n1: NodeId| #[trigger] node_is_new(b, n1) == node_is_new(a, n1) by {
            if n1 != n { assert(b.contains_key(n1) == a.contains_key(n1)); if a.contains_key(n1) { assert(b[n1] == a[n1]); } }
        }
    }
    pub proof fn lemma_touched_cells(a: Nodes, b: Nodes, n: NodeId, p: PartitionNumber)
        requires touched(a, b, n, p)
        ensures
            forall|n1: NodeId, p1: PartitionNumber| #[trigger] subs(b, n1, p1) == subs(a, n1, p1),
            forall|n1: NodeId| #[trigger] node_is_new(b, n1) == node_is_new(a, n1),
            forall|n1: NodeId, p1: PartitionNumber| #[trigger] range_read(b, n1, p1) == range_read(a, n1, p1),
    {
        assert(b.contains_key(n));
        assert(b[n].tracked_partitions@.contains_key(p));
        assert forall|n1: NodeId, p1: PartitionNumber| #[trigger] subs(b, n1, p1) == subs(a, n1, p1)
            && range_read(b, n1, p1) == range_read(a, n1, p1) by {
            if n1 == n {
                if p1 != p {
                    assert(b[n].tracked_partitions@.contains_key(p1) == parts(a, n).contains_key(p1));
                    if parts(a, n).contains_key(p1) { assert(b[n].tracked_partitions@[p1] == parts(a, n)[p1]); }
                }
            } else {
                assert(b.contains_key(n1) == a.contains_key(n1));
                if a.contains_key(n1) { assert(b[n1] == a[n1]); }
            }
        }
        assert forall|n1: NodeId, p1: PartitionNumber| #[trigger] range_read(b, n1, p1) == range_read(a, n1, p1) by {
            assert(subs(b, n1, p1) == subs(a, n1, p1));
        }
        assert forall|n1: NodeId| #[trigger] node_is_new(b, n1) == node_is_new(a, n1) by {
            if n1 != n { assert(b.contains_key(n1) == a.contains_key(n1)); if a.contains_key(n1) { assert(b[n1] == a[n1]); } }
        }
    }

    // ==================================================================================================
    // the per-substate machine (verbatim; contracts as in unit c12_tracked_substate, `size` without the
    // no-overflow precondition thanks to len() <= isize::MAX)
    // ==================================================================================================
    impl RuntimeSubstate {
        /*@fn radix-engine/src/track/state_updates.rs :: impl RuntimeSubstate :: fn new
        @sig
            ensures ret.value == value
        @*/
    }
    impl Write {
        /*@fn radix-engine/src/track/state_updates.rs :: impl Write :: fn into_value
        @sig
            ensures ret == (match self { Write::Update(s) => Some(s.value), Write::Delete => None })
        @*/
    }
    impl TrackedSubstateValue {
        /*@fn radix-engine/src/track/state_updates.rs :: impl TrackedSubstateValue :: fn get
        @sig
            ensures match ret { Some(v) => cur(*self) == Some(*v), None => cur(*self) is None }
        @*/

        /*@fn radix-engine/src/track/state_updates.rs :: impl TrackedSubstateValue :: fn into_value
        @sig
            ensures ret == cur(self)
        @*/

        /*@fn radix-engine/src/track/state_updates.rs :: impl TrackedSubstateValue :: fn take
        @sig
            ensures
                ret == cur(*old(self)),
                cur(*final(self)) is None,
                base(*final(self)) == base(*old(self)),
                !fresh(*final(self)),
                written(*final(self)) == (if fresh(*old(self)) { false } else {
                    match base(*old(self)) { Some(None) => false, Some(Some(_)) => true, None => written(*old(self)) } }),
        @*/

        /*@fn radix-engine/src/track/state_updates.rs :: impl TrackedSubstateValue :: fn set
        @split-arm <<TrackedSubstateValue::New(substate)>> #1
        @split-arm <<TrackedSubstateValue::ReadExistAndWrite(_, write @ Write::Delete)>> #1
        @sig
            ensures
                cur(*final(self)) == Some(value),
                base(*final(self)) == base(*old(self)),
                written(*final(self)),
                fresh(*final(self)) == fresh(*old(self)),
        @*/

        /*@fn radix-engine/src/track/state_updates.rs :: impl TrackedSubstateValue :: fn get_runtime_substate_mut
        @split-arm <<TrackedSubstateValue::New(substate)>> #1
        @sig
            ensures match ret {
                Some(r) => cur(*old(self)) == Some(r.value)
                    && cur(*final(self)) == Some(final(r).value)
                    && written(*final(self)) == written(*old(self))
                    && fresh(*final(self)) == fresh(*old(self))
                    && (final(r).value == r.value ==> *final(self) == *old(self))
                    && base(*final(self)) == (if *old(self) is ReadOnly { Some(Some(final(r).value)) } else { base(*old(self)) }),
                None => cur(*old(self)) is None && *final(self) == *old(self),
            }
        @*/

        /*@fn radix-engine/src/track/state_updates.rs :: impl TrackedSubstateValue :: fn size
        @sig
            ensures ret == size_spec(*self)
        @*/
    }
    impl TrackedSubstate {
        /*@fn radix-engine/src/track/state_updates.rs :: impl TrackedSubstate :: fn size
        @sig
            ensures ret == size_spec(self.substate_value)
        @*/
    }
    impl TrackedPartition {
        /*@fn radix-engine/src/track/state_updates.rs :: impl TrackedPartition :: fn new
        @sig
            ensures ret.substates@ == Map::<DbSortKey, TrackedSubstate>::empty(), ret.range_read == 0
        @*/
    }
    impl TrackedPartition {
        /*@fn radix-engine/src/track/state_updates.rs :: impl TrackedPartition :: fn new_with_substates
        @sig
            ensures ret.substates == substates, ret.range_read == 0
        @*/
    }
    impl Default for TrackedPartition {
        /*@fn radix-engine/src/track/state_updates.rs :: impl Default for TrackedPartition :: fn default
        @sig
            ensures ret.substates@ == Map::<DbSortKey, TrackedSubstate>::empty(), ret.range_read == 0
        @*/
    }
    impl TrackedNode {
        /*@fn radix-engine/src/track/state_updates.rs :: impl TrackedNode :: fn new
        @sig
            ensures ret.tracked_partitions@ == Map::<PartitionNumber, TrackedPartition>::empty(), ret.is_new == is_new
        @*/
    }

    // radix-engine/src/kernel/call_frame.rs :: TransientSubstates (verbatim)
    impl TransientSubstates {
        /*@fn radix-engine/src/kernel/call_frame.rs :: impl TransientSubstates :: fn new
        @sig
            ensures forall|n: NodeId, p: PartitionNumber, sk: SubstateKey| !is_tr(ret, n, p, sk)
        @*/

        /*@fn radix-engine/src/kernel/call_frame.rs :: impl TransientSubstates :: fn mark_as_transient
        @sig
            ensures forall|n: NodeId, p: PartitionNumber, sk: SubstateKey| is_tr(*final(self), n, p, sk)
                <==> is_tr(*old(self), n, p, sk) || (n == node_id && p == partition_num && sk == substate_key)
        @*/

        /*@fn radix-engine/src/kernel/call_frame.rs :: impl TransientSubstates :: fn is_transient
        @sig
            ensures ret == is_tr(*self, *node_id, partition_num, *substate_key)
        @*/
    }

    // ==================================================================================================
    // the track: point operations (verbatim)
    // ==================================================================================================
    /// the fields of the track the point operations never touch
    pub open spec fn rest_same<'s, S: SubstateDatabase, M: DatabaseKeyMapper>(a: MappedTrack<'s, S, M>, b: MappedTrack<'s, S, M>) -> bool {
        &&& b.substate_db == a.substate_db
        &&& b.force_write_tracked_nodes == a.force_write_tracked_nodes
        &&& b.deleted_partitions == a.deleted_partitions
        &&& b.transient_substates == a.transient_substates
    }

    /// the cell (n, p, sort_key(sk)) as the first access through the track finds it: the cached cell, or else a
    /// read-only image of what lies below the track
    pub open spec fn first_access<'s, S: SubstateDatabase, M: DatabaseKeyMapper>(t: MappedTrack<'s, S, M>, n: NodeId, p: PartitionNumber, sk: SubstateKey) -> TrackedSubstate {
        if cell(t.tracked_nodes@, n, p, M::sort_key(sk)) { subs(t.tracked_nodes@, n, p)[M::sort_key(sk)] }
        else { TrackedSubstate { substate_key: sk, substate_value: loaded(below::<M>(t.transient_substates, t.substate_db.view(), n, p, sk)) } }
    }

    // ---- node creation --------------------------------------------------------------------------------
    /// a partition handed to create_node: substate key -> value
    pub type Src = Map<SubstateKey, V>;
    /// ASSUMED of the key mapper on the keys of one created partition (injectivity of to_db_sort_key is C16; without
    /// it the real code panics on `assert!(old_tracked.is_none())`)
    pub open spec fn inj_on<M: DatabaseKeyMapper>(src: Src) -> bool {
        forall|s1: SubstateKey, s2: SubstateKey| src.contains_key(s1) && src.contains_key(s2) && M::sort_key(s1) == M::sort_key(s2) ==> s1 == s2
    }
    pub open spec fn new_cell(sk: SubstateKey, v: V) -> TrackedSubstate {
        TrackedSubstate { substate_key: sk, substate_value: TrackedSubstateValue::New(RuntimeSubstate { value: v }) }
    }
    /// `cells` is the tracked image of the created partition `src`: one `New` cell per substate, nothing else
    pub open spec fn created_part<M: DatabaseKeyMapper>(src: Src, cells: Map<DbSortKey, TrackedSubstate>) -> bool {
        &&& forall|sk: SubstateKey| src.contains_key(sk) ==> cells.contains_key(#[trigger] M::sort_key(sk)) && cells[M::sort_key(sk)] == new_cell(sk, src[sk])
        &&& forall|k: DbSortKey| #[trigger] cells.contains_key(k) ==> exists|sk: SubstateKey| src.contains_key(sk) && #[trigger] M::sort_key(sk) == k
    }
    pub proof fn lemma_created_node<M: DatabaseKeyMapper>(s: Seq<(PartitionNumber, BTreeMap<SubstateKey, V>)>, n: int, src: Map<PartitionNumber, BTreeMap<SubstateKey, V>>, tp: Map<PartitionNumber, TrackedPartition>)
        requires
            enumerates(s, src), 0 <= n <= s.len(),
            forall|p: PartitionNumber| tp.contains_key(p) <==> seen(s, n, p),
            forall|j: int| 0 <= j < n ==> tp[(#[trigger] s[j]).0].range_read == 0 && created_part::<M>(s[j].1@, tp[s[j].0].substates@),
        ensures n == s.len() ==> created_node::<M>(src, tp)
    {
        if n != s.len() { return; }
        assert forall|p: PartitionNumber| tp.contains_key(p) <==> src.contains_key(p) by { lemma_seen_all(s, src, p); }
        assert forall|p: PartitionNumber| src.contains_key(p) implies
            (#[trigger] tp[p]).range_read == 0 && created_part::<M>(src[p]@, tp[p].substates@) by {
            assert(has_key(s, p));
            let j = choose|j: int| 0 <= j < s.len() && (#[trigger] s[j]).0 == p;
            assert(src[s[j].0] == s[j].1);
        }
    }
    /// `tp` is the tracked image of the created node `src`
    pub open spec fn created_node<M: DatabaseKeyMapper>(src: Map<PartitionNumber, BTreeMap<SubstateKey, V>>, tp: Map<PartitionNumber, TrackedPartition>) -> bool {
        &&& tp.dom() =~= src.dom()
        &&& forall|p: PartitionNumber| src.contains_key(p) ==> (#[trigger] tp[p]).range_read == 0 && created_part::<M>(src[p]@, tp[p].substates@)
    }
    /// typed views (the element types of the two local maps in create_node are only fixed by later uses)
    pub open spec fn tpv(m: IndexMap<PartitionNumber, TrackedPartition>) -> Map<PartitionNumber, TrackedPartition> { m@ }
    pub open spec fn psv(m: BTreeMap<DbSortKey, TrackedSubstate>) -> Map<DbSortKey, TrackedSubstate> { m@ }
    pub open spec fn seenk<M: DatabaseKeyMapper>(s: Seq<(SubstateKey, V)>, i: int, k: DbSortKey) -> bool {
        exists|j: int| 0 <= j < i && M::sort_key((#[trigger] s[j]).0) == k
    }
    pub proof fn lemma_seenk_step<M: DatabaseKeyMapper>(s: Seq<(SubstateKey, V)>, i: int, k: DbSortKey)
        requires 0 <= i < s.len()
        ensures seenk::<M>(s, i + 1, k) <==> (seenk::<M>(s, i, k) || M::sort_key(s[i].0) == k)
    {
        if seenk::<M>(s, i + 1, k) {
            let j = choose|j: int| 0 <= j < i + 1 && M::sort_key((#[trigger] s[j]).0) == k;
            if j < i { assert(seenk::<M>(s, i, k)); }
        }
        if seenk::<M>(s, i, k) {
            let j = choose|j: int| 0 <= j < i && M::sort_key((#[trigger] s[j]).0) == k;
            assert(0 <= j < i + 1 && M::sort_key(s[j].0) == k);
        }
        if M::sort_key(s[i].0) == k { assert(0 <= i < i + 1 && M::sort_key(s[i].0) == k); }
    }
    /// a fully consumed partition has been turned into its tracked image
    pub proof fn lemma_created_part<M: DatabaseKeyMapper>(s: Seq<(SubstateKey, V)>, n: int, src: Src, cells: Map<DbSortKey, TrackedSubstate>)
        requires
            enumerates(s, src), 0 <= n <= s.len(),
            forall|k: DbSortKey| cells.contains_key(k) <==> seenk::<M>(s, n, k),
            forall|j: int| 0 <= j < n ==> cells[M::sort_key((#[trigger] s[j]).0)] == new_cell(s[j].0, s[j].1),
        ensures n == s.len() ==> created_part::<M>(src, cells)
    {
        if n != s.len() { return; }
        assert forall|sk: SubstateKey| src.contains_key(sk) implies cells.contains_key(#[trigger] M::sort_key(sk)) && cells[M::sort_key(sk)] == new_cell(sk, src[sk]) by {
            assert(has_key(s, sk));
            let i = choose|i: int| 0 <= i < s.len() && (#[trigger] s[i]).0 == sk;
            assert(0 <= i < s.len() && M::sort_key(s[i].0) == M::sort_key(sk));
            assert(seenk::<M>(s, s.len() as int, M::sort_key(sk)));
            assert(src[s[i].0] == s[i].1);
        }
        assert forall|k: DbSortKey| #[trigger] cells.contains_key(k) implies exists|sk: SubstateKey| src.contains_key(sk) && #[trigger] M::sort_key(sk) == k by {
            assert(seenk::<M>(s, s.len() as int, k));
            let j = choose|j: int| 0 <= j < s.len() && M::sort_key((#[trigger] s[j]).0) == k;
            assert(src.contains_key(s[j].0) && M::sort_key(s[j].0) == k);
        }
    }

    // ---- finalization: transient substates are dropped ----------------------------------------------------
    pub type Tr3 = (NodeId, PartitionNumber, SubstateKey);
    /// some substate key in `done` for (n, p) maps to sort key k
    pub open spec fn done_key<M: DatabaseKeyMapper>(done: Set<Tr3>, n: NodeId, p: PartitionNumber, k: DbSortKey) -> bool {
        exists|sk: SubstateKey| done.contains((n, p, sk)) && #[trigger] M::sort_key(sk) == k
    }
    pub open spec fn tr_key<M: DatabaseKeyMapper>(tr: TransientSubstates, n: NodeId, p: PartitionNumber, k: DbSortKey) -> bool {
        exists|sk: SubstateKey| is_tr(tr, n, p, sk) && #[trigger] M::sort_key(sk) == k
    }
    /// `b` is `a` with exactly the cells named by `done` removed: same nodes, same partitions, same flags
    pub open spec fn dropped<M: DatabaseKeyMapper>(a: Nodes, b: Nodes, done: Set<Tr3>) -> bool {
        &&& b.dom() =~= a.dom()
        &&& forall|n: NodeId| a.contains_key(n) ==> (#[trigger] b[n]).is_new == a[n].is_new && b[n].tracked_partitions@.dom() =~= a[n].tracked_partitions@.dom()
        &&& forall|n: NodeId, p: PartitionNumber| #[trigger] range_read(b, n, p) == range_read(a, n, p)
        &&& forall|n: NodeId, p: PartitionNumber, k: DbSortKey| #[trigger] cell(b, n, p, k) <==> cell(a, n, p, k) && !done_key::<M>(done, n, p, k)
        &&& forall|n: NodeId, p: PartitionNumber, k: DbSortKey| #[trigger] cell(b, n, p, k) ==> subs(b, n, p)[k] == subs(a, n, p)[k]
    }
    /// none of the tracked substates named by `done` currently holds a value that owns nodes
    pub open spec fn none_owns<M: DatabaseKeyMapper>(a: Nodes, done: Set<Tr3>) -> bool {
        forall|n: NodeId, p: PartitionNumber, sk: SubstateKey| #[trigger] done.contains((n, p, sk)) && cell(a, n, p, M::sort_key(sk))
            ==> !(cur(val(a, n, p, M::sort_key(sk))) matches Some(v) && v.owns())
    }
    /// processing one transient entry (n, p, sk) that is NOT tracked (node, partition or cell absent): nothing changes
    pub proof fn lemma_drop_absent<M: DatabaseKeyMapper>(a: Nodes, b: Nodes, done: Set<Tr3>, n: NodeId, p: PartitionNumber, sk: SubstateKey)
        requires dropped::<M>(a, b, done), none_owns::<M>(a, done), !cell(b, n, p, M::sort_key(sk))
        ensures dropped::<M>(a, b, done.insert((n, p, sk))), none_owns::<M>(a, done.insert((n, p, sk)))
    {
        let done2 = done.insert((n, p, sk));
        assert forall|n1: NodeId, p1: PartitionNumber, k1: DbSortKey| #[trigger] cell(b, n1, p1, k1) <==> cell(a, n1, p1, k1) && !done_key::<M>(done2, n1, p1, k1) by {
            if done_key::<M>(done2, n1, p1, k1) && !done_key::<M>(done, n1, p1, k1) {
                let s = choose|s: SubstateKey| done2.contains((n1, p1, s)) && #[trigger] M::sort_key(s) == k1;
                if !(n1 == n && p1 == p && s == sk) { assert(done.contains((n1, p1, s))); }
            }
            if done_key::<M>(done, n1, p1, k1) {
                let s = choose|s: SubstateKey| done.contains((n1, p1, s)) && #[trigger] M::sort_key(s) == k1;
                assert(done2.contains((n1, p1, s)));
            }
            if n1 == n && p1 == p && k1 == M::sort_key(sk) {
                if cell(a, n1, p1, k1) { assert(done_key::<M>(done, n1, p1, k1)); }
            }
        }
        assert forall|n1: NodeId, p1: PartitionNumber, s1: SubstateKey| #[trigger] done2.contains((n1, p1, s1)) && cell(a, n1, p1, M::sort_key(s1))
            implies !(cur(val(a, n1, p1, M::sort_key(s1))) matches Some(v) && v.owns()) by {
            if n1 == n && p1 == p && s1 == sk {
                // the cell is tracked in `a` but no longer in `b`: an earlier entry with the same sort key removed it
                assert(done_key::<M>(done, n, p, M::sort_key(sk)));
                let s = choose|s: SubstateKey| done.contains((n, p, s)) && #[trigger] M::sort_key(s) == M::sort_key(sk);
                assert(done.contains((n, p, s)));
            } else {
                assert(done.contains((n1, p1, s1)));
            }
        }
    }
    /// processing one transient entry whose partition is tracked: exactly its cell goes (if there is one)
    pub proof fn lemma_drop_step<M: DatabaseKeyMapper>(a: Nodes, b: Nodes, b2: Nodes, done: Set<Tr3>, n: NodeId, p: PartitionNumber, sk: SubstateKey)
        requires
            dropped::<M>(a, b, done), none_owns::<M>(a, done),
            b.contains_key(n), b[n].tracked_partitions@.contains_key(p),
            cell(b, n, p, M::sort_key(sk)) ==> !(cur(val(b, n, p, M::sort_key(sk))) matches Some(v) && v.owns()),
            b2.dom() =~= b.dom(),
            forall|n1: NodeId| n1 != n && b.contains_key(n1) ==> #[trigger] b2[n1] == b[n1],
            b2[n].is_new == b[n].is_new,
            b2[n].tracked_partitions@.dom() =~= b[n].tracked_partitions@.dom(),
            forall|p1: PartitionNumber| p1 != p && b[n].tracked_partitions@.contains_key(p1) ==> #[trigger] b2[n].tracked_partitions@[p1] == b[n].tracked_partitions@[p1],
            b2[n].tracked_partitions@[p].range_read == b[n].tracked_partitions@[p].range_read,
            b2[n].tracked_partitions@[p].substates@ =~= b[n].tracked_partitions@[p].substates@.remove(M::sort_key(sk)),
        ensures dropped::<M>(a, b2, done.insert((n, p, sk))), none_owns::<M>(a, done.insert((n, p, sk)))
    {
        let done2 = done.insert((n, p, sk));
        let k = M::sort_key(sk);
        assert forall|n1: NodeId, p1: PartitionNumber| subs(b2, n1, p1) == (if n1 == n && p1 == p { subs(b, n, p).remove(k) } else { subs(b, n1, p1) })
            && #[trigger] range_read(b2, n1, p1) == range_read(b, n1, p1) by {
            if n1 == n {
                if p1 != p {
                    assert(b2[n].tracked_partitions@.contains_key(p1) == b[n].tracked_partitions@.contains_key(p1));
                    if b[n].tracked_partitions@.contains_key(p1) { assert(b2[n].tracked_partitions@[p1] == b[n].tracked_partitions@[p1]); }
                }
            } else {
                assert(b2.contains_key(n1) == b.contains_key(n1));
                if b.contains_key(n1) { assert(b2[n1] == b[n1]); }
            }
        }
        assert forall|n1: NodeId, p1: PartitionNumber| #[trigger] range_read(b2, n1, p1) == range_read(a, n1, p1) by {
            assert(range_read(b2, n1, p1) == range_read(b, n1, p1));
            assert(range_read(b, n1, p1) == range_read(a, n1, p1));
        }
        assert forall|n1: NodeId| a.contains_key(n1) implies (#[trigger] b2[n1]).is_new == a[n1].is_new && b2[n1].tracked_partitions@.dom() =~= a[n1].tracked_partitions@.dom() by {
            assert(b[n1].is_new == a[n1].is_new);
            if n1 != n { assert(b2[n1] == b[n1]); }
        }
        assert forall|n1: NodeId, p1: PartitionNumber, k1: DbSortKey| #[trigger] cell(b2, n1, p1, k1) <==> cell(a, n1, p1, k1) && !done_key::<M>(done2, n1, p1, k1) by {
            assert(range_read(b2, n1, p1) == range_read(b, n1, p1));
            assert(cell(b, n1, p1, k1) <==> cell(a, n1, p1, k1) && !done_key::<M>(done, n1, p1, k1));
            if done_key::<M>(done2, n1, p1, k1) && !done_key::<M>(done, n1, p1, k1) {
                let s = choose|s: SubstateKey| done2.contains((n1, p1, s)) && #[trigger] M::sort_key(s) == k1;
                if !(n1 == n && p1 == p && s == sk) { assert(done.contains((n1, p1, s))); }
            }
            if done_key::<M>(done, n1, p1, k1) {
                let s = choose|s: SubstateKey| done.contains((n1, p1, s)) && #[trigger] M::sort_key(s) == k1;
                assert(done2.contains((n1, p1, s)));
            }
            if n1 == n && p1 == p && k1 == k { assert(done2.contains((n, p, sk))); }
        }
        assert forall|n1: NodeId, p1: PartitionNumber, k1: DbSortKey| #[trigger] cell(b2, n1, p1, k1) implies subs(b2, n1, p1)[k1] == subs(a, n1, p1)[k1] by {
            assert(range_read(b2, n1, p1) == range_read(b, n1, p1));
            assert(cell(b, n1, p1, k1));
        }
        assert forall|n1: NodeId, p1: PartitionNumber, s1: SubstateKey| #[trigger] done2.contains((n1, p1, s1)) && cell(a, n1, p1, M::sort_key(s1))
            implies !(cur(val(a, n1, p1, M::sort_key(s1))) matches Some(v) && v.owns()) by {
            if n1 == n && p1 == p && s1 == sk {
                if cell(b, n, p, k) {
                    assert(subs(b, n, p)[k] == subs(a, n, p)[k]);
                } else {
                    assert(done_key::<M>(done, n, p, k));
                    let s = choose|s: SubstateKey| done.contains((n, p, s)) && #[trigger] M::sort_key(s) == k;
                    assert(done.contains((n, p, s)));
                }
            } else {
                assert(done.contains((n1, p1, s1)));
            }
        }
    }
    pub open spec fn seen_elem<T>(s: Seq<T>, i: int, t: T) -> bool { exists|j: int| 0 <= j < i && #[trigger] s[j] == t }
    pub proof fn lemma_seen_elem_step<T>(s: Seq<T>, i: int, t: T)
        requires 0 <= i < s.len()
        ensures seen_elem(s, i + 1, t) <==> (seen_elem(s, i, t) || s[i] == t)
    {
        if seen_elem(s, i + 1, t) {
            let j = choose|j: int| 0 <= j < i + 1 && #[trigger] s[j] == t;
            if j < i { assert(seen_elem(s, i, t)); }
        }
        if seen_elem(s, i, t) {
            let j = choose|j: int| 0 <= j < i && #[trigger] s[j] == t;
            assert(0 <= j < i + 1 && s[j] == t);
        }
        if s[i] == t { assert(0 <= i < i + 1 && s[i] == t); }
    }
    /// (n, p, sk) is a transient substate that is tracked and whose current value owns a node
    pub open spec fn owning_transient<M: DatabaseKeyMapper>(a: Nodes, tr: TransientSubstates, n: NodeId, p: PartitionNumber, sk: SubstateKey) -> bool {
        is_tr(tr, n, p, sk) && cell(a, n, p, M::sort_key(sk)) && (cur(val(a, n, p, M::sort_key(sk))) matches Some(v) && v.owns())
    }
    /// ... and when every transient entry has been processed, `done` is the transient set
    pub open spec fn finalized<M: DatabaseKeyMapper>(a: Nodes, tr: TransientSubstates, b: Nodes) -> bool {
        &&& b.dom() =~= a.dom()
        &&& forall|n: NodeId| a.contains_key(n) ==> (#[trigger] b[n]).is_new == a[n].is_new && b[n].tracked_partitions@.dom() =~= a[n].tracked_partitions@.dom()
        &&& forall|n: NodeId, p: PartitionNumber| #[trigger] range_read(b, n, p) == range_read(a, n, p)
        // exactly the tracked substates that are marked transient are gone; everything else is what it was
        &&& forall|n: NodeId, p: PartitionNumber, k: DbSortKey| #[trigger] cell(b, n, p, k) <==> cell(a, n, p, k) && !tr_key::<M>(tr, n, p, k)
        &&& forall|n: NodeId, p: PartitionNumber, k: DbSortKey| #[trigger] cell(b, n, p, k) ==> subs(b, n, p)[k] == subs(a, n, p)[k]
    }
    pub proof fn lemma_finalized<M: DatabaseKeyMapper>(a: Nodes, b: Nodes, tr: TransientSubstates, done: Set<Tr3>)
        requires dropped::<M>(a, b, done),
            forall|n: NodeId, p: PartitionNumber, sk: SubstateKey| #[trigger] done.contains((n, p, sk)) <==> is_tr(tr, n, p, sk),
        ensures finalized::<M>(a, tr, b)
    {
        assert forall|n: NodeId, p: PartitionNumber, k: DbSortKey| done_key::<M>(done, n, p, k) <==> tr_key::<M>(tr, n, p, k) by {
            if done_key::<M>(done, n, p, k) {
                let s = choose|s: SubstateKey| done.contains((n, p, s)) && #[trigger] M::sort_key(s) == k;
                assert(is_tr(tr, n, p, s));
            }
            if tr_key::<M>(tr, n, p, k) {
                let s = choose|s: SubstateKey| is_tr(tr, n, p, s) && #[trigger] M::sort_key(s) == k;
                assert(done.contains((n, p, s)));
            }
        }
        assert forall|n: NodeId, p: PartitionNumber, k: DbSortKey| #[trigger] cell(b, n, p, k) <==> cell(a, n, p, k) && !tr_key::<M>(tr, n, p, k) by {
            assert(done_key::<M>(done, n, p, k) <==> tr_key::<M>(tr, n, p, k));
        }
    }

    // ---- key scan, the half that is answered from the track -------------------------------------------------
    /// substate keys of the entries of `s` that currently hold a value, in order
    pub open spec fn present_keys(s: Seq<(DbSortKey, TrackedSubstate)>) -> Seq<SubstateKey>
        decreases s.len()
    {
        if s.len() == 0 { Seq::empty() } else {
            let r = present_keys(s.drop_last());
            if cur(s.last().1.substate_value) is Some { r.push(s.last().1.substate_key) } else { r }
        }
    }
    /// scanning a longer prefix only appends
    pub proof fn lemma_present_prefix(s: Seq<(DbSortKey, TrackedSubstate)>, j: int)
        requires 0 <= j <= s.len()
        ensures present_keys(s.take(j)).len() <= present_keys(s).len(),
                present_keys(s.take(j)) =~= present_keys(s).take(present_keys(s.take(j)).len() as int)
        decreases s.len() - j
    {
        if j == s.len() { assert(s.take(j) =~= s); }
        else {
            lemma_present_prefix(s, j + 1);
            assert(s.take(j + 1).drop_last() =~= s.take(j));
        }
    }
    /// what a key scan limited to `limit` answers from the track alone: the first `limit` present entries of the
    /// tracked partition in iteration order
    pub open spec fn scan_tracked(a: Nodes, n: NodeId, p: PartitionNumber, limit: int) -> Seq<SubstateKey> {
        let all = present_keys(if parts(a, n).contains_key(p) { parts(a, n)[p].substates.ord_seq() } else { Seq::empty() });
        if all.len() <= limit { all } else { all.take(limit) }
    }
    pub open spec fn present_count(a: Nodes, n: NodeId, p: PartitionNumber) -> int {
        present_keys(if parts(a, n).contains_key(p) { parts(a, n)[p].substates.ord_seq() } else { Seq::empty() }).len() as int
    }

    // ---- the state updates produced at the end ---------------------------------------------------------------
    /// the update a cell must contribute: nothing if not written, else Set(cur) / Delete
    pub open spec fn emitted(t: TrackedSubstateValue) -> Option<Option<V>> { if !written(t) { None } else { Some(cur(t)) } }
    pub open spec fn upd_val(u: DatabaseUpdate) -> Option<DbSubstateValue> { match u { DatabaseUpdate::Set(v) => Some(v), DatabaseUpdate::Delete => None } }
    /// the answer of the per-substate mapping of to_state_updates for the tracked substate `t`
    pub open spec fn upd_of(t: TrackedSubstate, r: Option<(SubstateKey, DatabaseUpdate)>) -> bool {
        match emitted(t.substate_value) {
            None => r is None,
            Some(None) => r matches Some((k, u)) && k == t.substate_key && u is Delete,
            Some(Some(v)) => r matches Some((k, DatabaseUpdate::Set(b))) && k == t.substate_key && b@ == v.bytes(),
        }
    }
    /// what the produced updates do to substate (n, p, sk): None = untouched, Some(None) = absent, Some(Some(b)) = holds b
    pub open spec fn su_get(su: StateUpdates, n: NodeId, p: PartitionNumber, sk: SubstateKey) -> Option<Option<DbSubstateValue>> {
        if su@.contains_key(n) && su@[n]@.contains_key(p) { su@[n]@[p].get(sk) } else { None }
    }
    /// ... before any substate update is applied: a partition to delete is reset to empty, every other is untouched
    pub open spec fn init_get(dp: Set<(NodeId, PartitionNumber)>, n: NodeId, p: PartitionNumber) -> Option<Option<DbSubstateValue>> {
        if dp.contains((n, p)) { Some(None) } else { None }
    }
    pub open spec fn same_upd(x: Option<DbSubstateValue>, c: Option<V>) -> bool {
        match (x, c) { (Some(b), Some(v)) => b@ == v.bytes(), (None, None) => true, _ => false }
    }
    /// some written cell of partition (n, p) carries the substate key sk
    pub open spec fn written_key(a: Nodes, n: NodeId, p: PartitionNumber, sk: SubstateKey) -> bool {
        exists|k: DbSortKey| cell(a, n, p, k) && written(val(a, n, p, k)) && #[trigger] subs(a, n, p)[k].substate_key == sk
    }
    /// C12 "the state changes produced at the end are exactly the overlaid differences", for partition (n, p):
    /// every written cell sets / deletes its own substate key to its current value; every other substate key of the
    /// partition is untouched -- or absent, if the partition is to be deleted
    pub open spec fn part_done(a: Nodes, dp: Set<(NodeId, PartitionNumber)>, n: NodeId, p: PartitionNumber, su: StateUpdates) -> bool {
        &&& forall|k: DbSortKey| #[trigger] cell(a, n, p, k) && written(val(a, n, p, k)) ==>
                (su_get(su, n, p, subs(a, n, p)[k].substate_key) matches Some(x) && same_upd(x, cur(val(a, n, p, k))))
        &&& forall|sk: SubstateKey| !written_key(a, n, p, sk) ==> #[trigger] su_get(su, n, p, sk) == init_get(dp, n, p)
    }
    pub open spec fn part_init(dp: Set<(NodeId, PartitionNumber)>, n: NodeId, p: PartitionNumber, su: StateUpdates) -> bool {
        forall|sk: SubstateKey| #[trigger] su_get(su, n, p, sk) == init_get(dp, n, p)
    }
    /// ASSUMED of the track handed to to_state_updates (it has no key mapper at hand): two different cells of a
    /// partition never carry the same substate key.  True of every track built through the API above: each cell's
    /// substate key maps to the cell's sort key (see keys_wf / lemma_keys_wf_distinct).
    pub open spec fn distinct_keys(a: Nodes) -> bool {
        forall|n: NodeId, p: PartitionNumber, k1: DbSortKey, k2: DbSortKey| #[trigger] cell(a, n, p, k1) && #[trigger] cell(a, n, p, k2) && k1 != k2
            ==> subs(a, n, p)[k1].substate_key != subs(a, n, p)[k2].substate_key
    }
    pub open spec fn keys_wf<M: DatabaseKeyMapper>(a: Nodes) -> bool {
        forall|n: NodeId, p: PartitionNumber, k: DbSortKey| #[trigger] cell(a, n, p, k) ==> M::sort_key(subs(a, n, p)[k].substate_key) == k
    }
    pub proof fn lemma_keys_wf_distinct<M: DatabaseKeyMapper>(a: Nodes)
        requires keys_wf::<M>(a) ensures distinct_keys(a)
    {}
    /// keys_wf is kept by every single-cell update that stores the substate key under its own sort key
    pub proof fn lemma_upd_keys_wf<M: DatabaseKeyMapper>(a: Nodes, b: Nodes, n: NodeId, p: PartitionNumber, k: DbSortKey, sub: TrackedSubstate)
        requires keys_wf::<M>(a), upd(a, b, n, p, k, sub), M::sort_key(sub.substate_key) == k
        ensures keys_wf::<M>(b)
    {
        lemma_upd_cells(a, b, n, p, k, sub);
        assert forall|n1: NodeId, p1: PartitionNumber, k1: DbSortKey| #[trigger] cell(b, n1, p1, k1) implies M::sort_key(subs(b, n1, p1)[k1].substate_key) == k1 by {
            if !(n1 == n && p1 == p && k1 == k) { assert(cell(a, n1, p1, k1)); }
        }
    }

    pub proof fn lemma_seq_to_map_push<K, V>(s: Seq<(K, V)>, b: (K, V))
        ensures seq_to_map(s.push(b)) == seq_to_map(s).insert(b.0, b.1)
    {
        assert(s.push(b).drop_last() =~= s);
        assert(s.push(b).last() == b);
    }
    /// what `into_values().filter_map(..).collect()` builds from a tracked partition whose cells carry distinct keys:
    /// one update per written cell, under the cell's substate key, holding the cell's current value; nothing else
    pub proof fn lemma_collect(sq: Seq<(DbSortKey, TrackedSubstate)>, outs: Seq<Option<(SubstateKey, DatabaseUpdate)>>, n: int)
        requires
            0 <= n <= sq.len(), outs.len() == sq.len(),
            forall|i: int| 0 <= i < sq.len() ==> upd_of(sq[i].1, #[trigger] outs[i]),
            forall|i: int, j: int| 0 <= i < j < sq.len() ==> sq[i].1.substate_key != sq[j].1.substate_key,
        ensures
            forall|i: int| 0 <= i < n && written(sq[i].1.substate_value) ==> seq_to_map(somes(outs.take(n))).contains_key((#[trigger] sq[i]).1.substate_key)
                && same_upd(upd_val(seq_to_map(somes(outs.take(n)))[sq[i].1.substate_key]), cur(sq[i].1.substate_value)),
            forall|sk: SubstateKey| #[trigger] seq_to_map(somes(outs.take(n))).contains_key(sk) ==> exists|i: int| 0 <= i < n && written(sq[i].1.substate_value) && (#[trigger] sq[i]).1.substate_key == sk,
        decreases n
    {
        if n == 0 {
            assert(outs.take(0) =~= Seq::empty());
        } else {
            lemma_collect(sq, outs, n - 1);
            let pre = outs.take(n - 1);
            let m0 = seq_to_map(somes(pre));
            assert(outs.take(n).drop_last() =~= pre);
            assert(outs.take(n).last() == outs[n - 1]);
            assert(upd_of(sq[n - 1].1, outs[n - 1]));
            let m1 = seq_to_map(somes(outs.take(n)));
            match outs[n - 1] {
                Some(b) => {
                    lemma_seq_to_map_push(somes(pre), b);
                    assert(m1 == m0.insert(b.0, b.1));
                    assert(b.0 == sq[n - 1].1.substate_key);
                    assert forall|i: int| 0 <= i < n && written(sq[i].1.substate_value) implies m1.contains_key((#[trigger] sq[i]).1.substate_key)
                        && same_upd(upd_val(m1[sq[i].1.substate_key]), cur(sq[i].1.substate_value)) by {
                        if i < n - 1 { assert(sq[i].1.substate_key != sq[n - 1].1.substate_key); }
                    }
                    assert forall|sk: SubstateKey| #[trigger] m1.contains_key(sk) implies exists|i: int| 0 <= i < n && written(sq[i].1.substate_value) && (#[trigger] sq[i]).1.substate_key == sk by {
                        if sk == b.0 { assert(written(sq[n - 1].1.substate_value) && sq[n - 1].1.substate_key == sk); }
                        else {
                            assert(m0.contains_key(sk));
                            let i = choose|i: int| 0 <= i < n - 1 && written(sq[i].1.substate_value) && (#[trigger] sq[i]).1.substate_key == sk;
                            assert(0 <= i < n && written(sq[i].1.substate_value) && sq[i].1.substate_key == sk);
                        }
                    }
                }
                None => {
                    assert(m1 == m0);
                    assert forall|sk: SubstateKey| #[trigger] m1.contains_key(sk) implies exists|i: int| 0 <= i < n && written(sq[i].1.substate_value) && (#[trigger] sq[i]).1.substate_key == sk by {
                        let i = choose|i: int| 0 <= i < n - 1 && written(sq[i].1.substate_value) && (#[trigger] sq[i]).1.substate_key == sk;
                        assert(0 <= i < n && written(sq[i].1.substate_value) && sq[i].1.substate_key == sk);
                    }
                }
            }
        }
    }
    /// `ups` is what `into_values().filter_map(<per-substate mapping>).collect()` builds from the entries `sq`
    pub open spec fn collected(sq: Seq<(DbSortKey, TrackedSubstate)>, ups: Map<SubstateKey, DatabaseUpdate>) -> bool {
        exists|outs: Seq<Option<(SubstateKey, DatabaseUpdate)>>| outs.len() == sq.len()
            && (forall|i: int| 0 <= i < sq.len() ==> upd_of(sq[i].1, #[trigger] outs[i]))
            && ups == #[trigger] seq_to_map(somes(outs))
    }
    /// one partition's updates applied on top of the initial state give exactly the partition's diff
    pub proof fn lemma_part_step(a: Nodes, dp: Set<(NodeId, PartitionNumber)>, n: NodeId, p: PartitionNumber, su: StateUpdates, su2: StateUpdates,
                                 ups: Map<SubstateKey, DatabaseUpdate>)
        requires
            distinct_keys(a), parts(a, n).contains_key(p),
            collected(parts(a, n)[p].substates.ord_seq(), ups),
            part_init(dp, n, p, su),
            forall|sk: SubstateKey| #[trigger] su_get(su2, n, p, sk) == (if ups.contains_key(sk) { Some(upd_val(ups[sk])) } else { su_get(su, n, p, sk) }),
        ensures part_done(a, dp, n, p, su2)
    {
        let sq = parts(a, n)[p].substates.ord_seq();
        let m = subs(a, n, p);
        let outs = choose|outs: Seq<Option<(SubstateKey, DatabaseUpdate)>>| outs.len() == sq.len()
            && (forall|i: int| 0 <= i < sq.len() ==> upd_of(sq[i].1, #[trigger] outs[i]))
            && ups == #[trigger] seq_to_map(somes(outs));
        assert(enumerates(sq, m));
        assert forall|i: int, j: int| 0 <= i < j < sq.len() implies sq[i].1.substate_key != sq[j].1.substate_key by {
            assert(m.contains_key(sq[i].0) && m.contains_key(sq[j].0));
            assert(cell(a, n, p, sq[i].0) && cell(a, n, p, sq[j].0));
            assert(m[sq[i].0] == sq[i].1 && m[sq[j].0] == sq[j].1);
        }
        lemma_collect(sq, outs, sq.len() as int);
        assert(outs.take(sq.len() as int) =~= outs);
        assert forall|k: DbSortKey| #[trigger] cell(a, n, p, k) && written(val(a, n, p, k)) implies
                (su_get(su2, n, p, subs(a, n, p)[k].substate_key) matches Some(x) && same_upd(x, cur(val(a, n, p, k)))) by {
            assert(has_key(sq, k));
            let i = choose|i: int| 0 <= i < sq.len() && (#[trigger] sq[i]).0 == k;
            assert(m[sq[i].0] == sq[i].1);
            assert(ups.contains_key(sq[i].1.substate_key));
        }
        assert forall|sk: SubstateKey| !written_key(a, n, p, sk) implies #[trigger] su_get(su2, n, p, sk) == init_get(dp, n, p) by {
            if ups.contains_key(sk) {
                let i = choose|i: int| 0 <= i < sq.len() && written(sq[i].1.substate_value) && (#[trigger] sq[i]).1.substate_key == sk;
                assert(m.contains_key(sq[i].0) && m[sq[i].0] == sq[i].1);
                assert(cell(a, n, p, sq[i].0) && written(val(a, n, p, sq[i].0)) && subs(a, n, p)[sq[i].0].substate_key == sk);
                assert(written_key(a, n, p, sk));
            }
            assert(su_get(su, n, p, sk) == init_get(dp, n, p));
        }
    }
    pub open spec fn nsv(s: IndexSet<NodeId>) -> Set<NodeId> { s@ }
    pub open spec fn puv(m: IndexMap<SubstateKey, DatabaseUpdate>) -> Map<SubstateKey, DatabaseUpdate> { m@ }
    /// a partition without tracked substates contributes nothing
    pub proof fn lemma_part_untracked(a: Nodes, dp: Set<(NodeId, PartitionNumber)>, n: NodeId, p: PartitionNumber, su: StateUpdates)
        requires part_init(dp, n, p, su), !parts(a, n).contains_key(p)
        ensures part_done(a, dp, n, p, su)
    {}
    /// updates to one partition do not show in any other
    pub proof fn lemma_su_frame(a: Nodes, dp: Set<(NodeId, PartitionNumber)>, su: StateUpdates, su2: StateUpdates, n: NodeId, p: PartitionNumber)
        requires forall|n1: NodeId, p1: PartitionNumber, sk: SubstateKey| !(n1 == n && p1 == p) ==> #[trigger] su_get(su2, n1, p1, sk) == su_get(su, n1, p1, sk)
        ensures
            forall|n1: NodeId, p1: PartitionNumber| !(n1 == n && p1 == p) && part_done(a, dp, n1, p1, su) ==> #[trigger] part_done(a, dp, n1, p1, su2),
            forall|n1: NodeId, p1: PartitionNumber| !(n1 == n && p1 == p) && part_init(dp, n1, p1, su) ==> #[trigger] part_init(dp, n1, p1, su2),
    {
        assert forall|n1: NodeId, p1: PartitionNumber| !(n1 == n && p1 == p) && part_done(a, dp, n1, p1, su) implies #[trigger] part_done(a, dp, n1, p1, su2) by {
            assert forall|k: DbSortKey| #[trigger] cell(a, n1, p1, k) && written(val(a, n1, p1, k)) implies
                (su_get(su2, n1, p1, subs(a, n1, p1)[k].substate_key) matches Some(x) && same_upd(x, cur(val(a, n1, p1, k)))) by {
                assert(su_get(su2, n1, p1, subs(a, n1, p1)[k].substate_key) == su_get(su, n1, p1, subs(a, n1, p1)[k].substate_key));
            }
            assert forall|sk: SubstateKey| !written_key(a, n1, p1, sk) implies #[trigger] su_get(su2, n1, p1, sk) == init_get(dp, n1, p1) by {
                assert(su_get(su2, n1, p1, sk) == su_get(su, n1, p1, sk));
            }
        }
        assert forall|n1: NodeId, p1: PartitionNumber| !(n1 == n && p1 == p) && part_init(dp, n1, p1, su) implies #[trigger] part_init(dp, n1, p1, su2) by {
            assert forall|sk: SubstateKey| #[trigger] su_get(su2, n1, p1, sk) == init_get(dp, n1, p1) by {
                assert(su_get(su2, n1, p1, sk) == su_get(su, n1, p1, sk));
            }
        }
    }

    /// classification reported to the kernel: created by this transaction (or created and removed again) / carries a
    /// write / only read
    pub open spec fn info_of(t: TrackedSubstateValue) -> TrackedSubstateInfo {
        if fresh(t) || t is Garbage { TrackedSubstateInfo::New } else if written(t) { TrackedSubstateInfo::Updated } else { TrackedSubstateInfo::Unmodified }
    }

    /// `b` is the track `t` after the removal of (n, p, sk): exactly that cell changed; it now reads as absent, keeps
    /// its substate key and what is known about the database below it, and owes a Delete exactly when the database
    /// may hold a value (see TrackedSubstateValue::take)
    pub open spec fn removed<'s, S: SubstateDatabase, M: DatabaseKeyMapper>(t: MappedTrack<'s, S, M>, b: Nodes, n: NodeId, p: PartitionNumber, sk: SubstateKey) -> bool {
        let k = M::sort_key(sk);
        let before = first_access::<S, M>(t, n, p, sk);
        let now = subs(b, n, p)[k];
        &&& upd(t.tracked_nodes@, b, n, p, k, now)
        &&& now.substate_key == before.substate_key
        &&& cur(now.substate_value) is None
        &&& base(now.substate_value) == base(before.substate_value)
        &&& !fresh(now.substate_value)
        &&& written(now.substate_value) == (if fresh(before.substate_value) { false } else {
                match base(before.substate_value) { Some(None) => false, Some(Some(_)) => true, None => written(before.substate_value) } })
    }

    impl<'s, S: SubstateDatabase, M: DatabaseKeyMapper> MappedTrack<'s, S, M> {
        /*@fn radix-engine/src/track/track.rs :: impl<'s, S: SubstateDatabase, M: DatabaseKeyMapper> MappedTrack<'s, S, M> :: fn get_substate_from_db
        @sig
            requires
                db_wf(substate_db.view()),
                forall|a: IOAccess| (*old(on_io_access)).requires((a,)),
            ensures
                *final(on_io_access) == *old(on_io_access),
                match ret {
                    // the database is consulted at exactly this key, and the answer is passed on unchanged
                    Ok(v) => v == db_get(substate_db.view(), *partition_key, *sort_key),
                    // the only source of an error is the IO-access callback
                    Err(e) => exists|a: IOAccess| (*old(on_io_access)).ensures((a,), Err::<(), E>(e)),
                }
        @closure 1 := |e: Vec<u8>| -> (r: IndexedScryptoValue) requires decodable(e@) ensures r == decode(e@)
        @*/

        /*@fn radix-engine/src/track/track.rs :: impl<'s, S: SubstateDatabase, M: DatabaseKeyMapper> MappedTrack<'s, S, M> :: fn get_tracked_substate
        @sig
            requires
                // a tracked cell is served from the cache: NO database read and NO IO access is made for it (so the
                // callback may then be uncallable)
                cell(old(self).tracked_nodes@, *node_id, partition_number, M::sort_key(substate_key))
                    || (db_wf(old(self).substate_db.view()) && forall|a: IOAccess| (*old(on_io_access)).requires((a,))),
            ensures
                *final(on_io_access) == *old(on_io_access),
                rest_same(*old(self), *final(self)),
                cell(old(self).tracked_nodes@, *node_id, partition_number, M::sort_key(substate_key)) ==> ret is Ok,
                // Ok: the reference IS the cell (n, p, k): it starts as the cached state, or on first access as a
                // read-only image of what lies below the track, and what is finally stored behind it is the cell afterwards
                ret matches Ok(r) ==> *r == first_access::<S, M>(*old(self), *node_id, partition_number, substate_key).substate_value,
                ret matches Ok(r) ==> upd(old(self).tracked_nodes@, final(self).tracked_nodes@, *node_id, partition_number, M::sort_key(substate_key),
                    TrackedSubstate { substate_key: first_access::<S, M>(*old(self), *node_id, partition_number, substate_key).substate_key, substate_value: *final(r) }),
                // Err: only on first access; nothing but (at most) the read-only image of the cell has been added;
                // the error is the callback's
                ret matches Err(e) ==> !cell(old(self).tracked_nodes@, *node_id, partition_number, M::sort_key(substate_key)),
                ret matches Err(e) ==> touched(old(self).tracked_nodes@, final(self).tracked_nodes@, *node_id, partition_number)
                    || upd(old(self).tracked_nodes@, final(self).tracked_nodes@, *node_id, partition_number, M::sort_key(substate_key),
                           first_access::<S, M>(*old(self), *node_id, partition_number, substate_key)),
                ret matches Err(e) ==> exists|a: IOAccess| (*old(on_io_access)).ensures((a,), Err::<(), E>(e)),
        @subst <<let tracked =>> => <<let r#tracked =>> x3 why: `tracked` is a reserved word of Verus in `let` position; `r#tracked` is the SAME Rust identifier written as a raw identifier, the program is unchanged
        @*/

        /*@fn radix-engine/src/track/track.rs :: impl<'s, S: SubstateDatabase, M: DatabaseKeyMapper> MappedTrack<'s, S, M> :: fn new
        @sig
            ensures
                ret.substate_db == substate_db,
                ret.tracked_nodes@ == Map::<NodeId, TrackedNode>::empty(),
                ret.force_write_tracked_nodes@ == Map::<NodeId, TrackedNode>::empty(),
                ret.deleted_partitions@ == Set::<(NodeId, PartitionNumber)>::empty(),
                forall|n: NodeId, p: PartitionNumber, sk: SubstateKey| !is_tr(ret.transient_substates, n, p, sk),
        @*/

        // ---- CommitableSubstateStore for MappedTrack (trait methods placed in the inherent impl: Verus does not
        // allow `requires` on trait-impl methods; bodies verbatim) ------------------------------------------------
        /*@fn radix-engine/src/track/track.rs :: impl<'s, S: SubstateDatabase, M: DatabaseKeyMapper> CommitableSubstateStore for MappedTrack<'s, S, M> :: fn mark_as_transient
        @sig
            ensures
                forall|n: NodeId, p: PartitionNumber, sk: SubstateKey| is_tr(final(self).transient_substates, n, p, sk)
                    <==> is_tr(old(self).transient_substates, n, p, sk) || (n == node_id && p == partition_num && sk == substate_key),
                final(self).substate_db == old(self).substate_db, final(self).tracked_nodes == old(self).tracked_nodes,
                final(self).force_write_tracked_nodes == old(self).force_write_tracked_nodes, final(self).deleted_partitions == old(self).deleted_partitions,
        @*/

        /*@fn radix-engine/src/track/track.rs :: impl<'s, S: SubstateDatabase, M: DatabaseKeyMapper> CommitableSubstateStore for MappedTrack<'s, S, M> :: fn delete_partition
        @sig
            ensures
                // only the set of partitions to delete grows; reads through the track are not affected (the deletion is
                // applied to the DATABASE when the state updates are produced, before the substate updates)
                final(self).deleted_partitions@ == old(self).deleted_partitions@.insert((*node_id, partition_num)),
                final(self).substate_db == old(self).substate_db, final(self).tracked_nodes == old(self).tracked_nodes,
                final(self).force_write_tracked_nodes == old(self).force_write_tracked_nodes, final(self).transient_substates == old(self).transient_substates,
        @*/

        /*@fn radix-engine/src/track/track.rs :: impl<'s, S: SubstateDatabase, M: DatabaseKeyMapper> CommitableSubstateStore for MappedTrack<'s, S, M> :: fn get_substate
        @sig
            requires
                cell(old(self).tracked_nodes@, *node_id, partition_num, M::sort_key(*substate_key))
                    || (db_wf(old(self).substate_db.view()) && forall|a: IOAccess| (*old(on_io_access)).requires((a,))),
            ensures
                *final(on_io_access) == *old(on_io_access),
                rest_same(*old(self), *final(self)),
                cell(old(self).tracked_nodes@, *node_id, partition_num, M::sort_key(*substate_key)) ==> ret is Ok,
                // C12: the read answers the overlay
                ret matches Ok(v) ==> (match v { Some(x) => Some(*x), None => None::<V> })
                    == overlay::<M>(old(self).tracked_nodes@, old(self).transient_substates, old(self).substate_db.view(), *node_id, partition_num, *substate_key),
                // ... and leaves the cell cached (as it was, or as a read-only image of what lies below), nothing else touched
                ret matches Ok(v) ==> upd(old(self).tracked_nodes@, final(self).tracked_nodes@, *node_id, partition_num, M::sort_key(*substate_key),
                    first_access::<S, M>(*old(self), *node_id, partition_num, *substate_key)),
                ret matches Err(e) ==> !cell(old(self).tracked_nodes@, *node_id, partition_num, M::sort_key(*substate_key)),
                ret matches Err(e) ==> touched(old(self).tracked_nodes@, final(self).tracked_nodes@, *node_id, partition_num)
                    || upd(old(self).tracked_nodes@, final(self).tracked_nodes@, *node_id, partition_num, M::sort_key(*substate_key),
                           first_access::<S, M>(*old(self), *node_id, partition_num, *substate_key)),
                ret matches Err(e) ==> exists|a: IOAccess| (*old(on_io_access)).ensures((a,), Err::<(), E>(e)),
        @subst <<let tracked =>> => <<let r#tracked =>> why: `tracked` is a reserved word of Verus in `let` position; `r#tracked` is the SAME Rust identifier written as a raw identifier, the program is unchanged
        @closure 1 := |v: &mut RuntimeSubstate| -> (r: &IndexedScryptoValue) ensures *r == old(v).value, *final(v) == *old(v)
        @*/

        /*@fn radix-engine/src/track/track.rs :: impl<'s, S: SubstateDatabase, M: DatabaseKeyMapper> CommitableSubstateStore for MappedTrack<'s, S, M> :: fn set_substate
        @sig
            requires
                forall|a: IOAccess| (*old(on_io_access)).requires((a,)),
            ensures
                *final(on_io_access) == *old(on_io_access),
                rest_same(*old(self), *final(self)),
                // C12: whatever the callback answers, exactly the cell (n, p, k) has been written (no database access:
                // an untracked cell becomes a blind write) and every other cell is what it was
                upd(old(self).tracked_nodes@, final(self).tracked_nodes@, node_id, partition_number, M::sort_key(substate_key),
                    subs(final(self).tracked_nodes@, node_id, partition_number)[M::sort_key(substate_key)]),
                ({
                    let a = old(self).tracked_nodes@;
                    let k = M::sort_key(substate_key);
                    let now = subs(final(self).tracked_nodes@, node_id, partition_number)[k];
                    &&& cur(now.substate_value) == Some(substate_value)
                    &&& written(now.substate_value)
                    &&& if cell(a, node_id, partition_number, k) {
                            &&& now.substate_key == subs(a, node_id, partition_number)[k].substate_key
                            &&& base(now.substate_value) == base(val(a, node_id, partition_number, k))
                            &&& fresh(now.substate_value) == fresh(val(a, node_id, partition_number, k))
                        } else {
                            &&& now.substate_key == substate_key
                            &&& now.substate_value == TrackedSubstateValue::WriteOnly(Write::Update(RuntimeSubstate { value: substate_value }))
                        }
                }),
                ret matches Err(e) ==> exists|a: IOAccess| (*old(on_io_access)).ensures((a,), Err::<(), E>(e)),
        @subst <<let tracked =>> => <<let r#tracked =>> x2 why: `tracked` is a reserved word of Verus in `let` position; `r#tracked` is the SAME Rust identifier written as a raw identifier, the program is unchanged
        @*/

        /*@fn radix-engine/src/track/track.rs :: impl<'s, S: SubstateDatabase, M: DatabaseKeyMapper> CommitableSubstateStore for MappedTrack<'s, S, M> :: fn remove_substate
        @sig
            requires
                db_wf(old(self).substate_db.view()),
                forall|a: IOAccess| (*old(on_io_access)).requires((a,)),
            ensures
                *final(on_io_access) == *old(on_io_access),
                rest_same(*old(self), *final(self)),
                // C12: the removal returns what a read would have returned ...
                ret matches Ok(taken) ==> taken == overlay::<M>(old(self).tracked_nodes@, old(self).transient_substates, old(self).substate_db.view(), *node_id, partition_number, *substate_key),
                // ... and afterwards the cell reads as absent; what is known about the database below is kept
                ret matches Ok(taken) ==> removed::<S, M>(*old(self), final(self).tracked_nodes@, *node_id, partition_number, *substate_key),
                ret matches Err(e) ==> removed::<S, M>(*old(self), final(self).tracked_nodes@, *node_id, partition_number, *substate_key)
                    || (!cell(old(self).tracked_nodes@, *node_id, partition_number, M::sort_key(*substate_key))
                        && (touched(old(self).tracked_nodes@, final(self).tracked_nodes@, *node_id, partition_number)
                            || upd(old(self).tracked_nodes@, final(self).tracked_nodes@, *node_id, partition_number, M::sort_key(*substate_key),
                                first_access::<S, M>(*old(self), *node_id, partition_number, *substate_key)))),
                ret matches Err(e) ==> exists|a: IOAccess| (*old(on_io_access)).ensures((a,), Err::<(), E>(e)),
        @subst <<let tracked =>> => <<let r#tracked =>> why: `tracked` is a reserved word of Verus in `let` position; `r#tracked` is the SAME Rust identifier written as a raw identifier, the program is unchanged
        @*/

        /*@fn radix-engine/src/track/track.rs :: impl<'s, S: SubstateDatabase, M: DatabaseKeyMapper> CommitableSubstateStore for MappedTrack<'s, S, M> :: fn force_write
        @sig
            requires
                // ASSUMED about the caller (kernel: force_write is issued when a lock on a substate that was read through
                // the track is closed): the substate is tracked.  Otherwise the real code panics ("Should not need to go
                // into store on close substate") -- with this precondition the `expect` is proved unreachable.
                cell(old(self).tracked_nodes@, *node_id, *partition_num, M::sort_key(*substate_key)),
            ensures
                final(self).substate_db == old(self).substate_db, final(self).deleted_partitions == old(self).deleted_partitions,
                final(self).transient_substates == old(self).transient_substates,
                // no cell of the track changes ...
                upd(old(self).tracked_nodes@, final(self).tracked_nodes@, *node_id, *partition_num, M::sort_key(*substate_key),
                    subs(old(self).tracked_nodes@, *node_id, *partition_num)[M::sort_key(*substate_key)]),
                // ... and the force-write log records the current state of exactly this cell
                upd(old(self).force_write_tracked_nodes@, final(self).force_write_tracked_nodes@, *node_id, *partition_num, M::sort_key(*substate_key),
                    TrackedSubstate { substate_key: *substate_key, substate_value: val(old(self).tracked_nodes@, *node_id, *partition_num, M::sort_key(*substate_key)) }),
        @subst <<let tracked =>> => <<let r#tracked =>> why: `tracked` is a reserved word of Verus in `let` position; `r#tracked` is the SAME Rust identifier written as a raw identifier, the program is unchanged
        @subst <<|_| -> Result<(), ()>>> => <<|_a: IOAccess| -> (r: Result<(), ()>) requires false>> why: Verus needs a typed closure parameter and a named result to attach a contract (the extractor's @closure does not recognise a closure with an explicit return type); the body `{ Err(()) }` is untouched; `requires false` is a proof annotation: the callback is proved never to be called
        @*/

        /*@fn radix-engine/src/track/track.rs :: impl<'s, S: SubstateDatabase, M: DatabaseKeyMapper> CommitableSubstateStore for MappedTrack<'s, S, M> :: fn get_tracked_substate_info
        @sig
            ensures
                *final(self) == *old(self),
                ret == (if cell(old(self).tracked_nodes@, *node_id, partition_num, M::sort_key(*substate_key)) {
                        info_of(val(old(self).tracked_nodes@, *node_id, partition_num, M::sort_key(*substate_key)))
                    } else { TrackedSubstateInfo::Unmodified }),
        @closure 1 := |n: &TrackedNode| -> (r: Option<&TrackedPartition>) ensures r == (match lookup(n.tracked_partitions@, partition_num) { Some(x) => Some(&x), None => None })
        @closure 2 := |p: &TrackedPartition| -> (r: Option<&TrackedSubstate>) ensures r == (match lookup(p.substates@, db_sort_key) { Some(x) => Some(&x), None => None })
        @closure 3 := |s: &TrackedSubstate| -> (r: TrackedSubstateInfo) ensures r == info_of(s.substate_value)
        @*/

        /*@fn radix-engine/src/track/track.rs :: impl<'s, S: SubstateDatabase, M: DatabaseKeyMapper> CommitableSubstateStore for MappedTrack<'s, S, M> :: fn create_node
        @sig
            requires
                forall|a: IOAccess| (*old(on_io_access)).requires((a,)),
                forall|p: PartitionNumber| node_substates@.contains_key(p) ==> inj_on::<M>(#[trigger] node_substates@[p]@),
            ensures
                *final(on_io_access) == *old(on_io_access),
                rest_same(*old(self), *final(self)),
                // C12 "overlaid with the transaction's own node creations": the node is (re)bound, marked new, to exactly one
                // New cell per created substate; the database is not consulted; no other node is touched
                ret is Ok ==> ({
                    let nd = final(self).tracked_nodes@[node_id];
                    &&& final(self).tracked_nodes@ == old(self).tracked_nodes@.insert(node_id, nd)
                    &&& nd.is_new
                    &&& created_node::<M>(node_substates@, nd.tracked_partitions@)
                }),
                // if the callback fails the track is as before
                ret matches Err(e) ==> final(self).tracked_nodes == old(self).tracked_nodes,
                ret matches Err(e) ==> exists|a: IOAccess| (*old(on_io_access)).ensures((a,), Err::<(), E>(e)),
        @subst <<let tracked =>> => <<let r#tracked =>> why: `tracked` is a reserved word of Verus in `let` position; `r#tracked` is the SAME Rust identifier written as a raw identifier, the program is unchanged
        @entry
            let ghost src0 = node_substates@;
        @loop 1 iter it1
            invariant
                enumerates(it1.seq(), src0),
                forall|p: PartitionNumber| src0.contains_key(p) ==> inj_on::<M>(#[trigger] src0[p]@),
                forall|p: PartitionNumber| tpv(tracked_partitions).contains_key(p) <==> seen(it1.seq(), it1.index@, p),
                forall|j: int| 0 <= j < it1.index@ ==> tpv(tracked_partitions)[(#[trigger] it1.seq()[j]).0].range_read == 0
                    && created_part::<M>(it1.seq()[j].1@, tpv(tracked_partitions)[it1.seq()[j].0].substates@),
                *self == *old(self),
                *on_io_access == *old(on_io_access),
                forall|a: IOAccess| (*on_io_access).requires((a,)),
                // exit fact (the loop's ghost iterator cannot be named after the loop)
                it1.index@ == it1.seq().len() ==> created_node::<M>(src0, tpv(tracked_partitions)),
        @before <<for (substate_key, substate_value) in partition>> #1
            let ghost part0 = partition@;
            proof { assert(src0.contains_key(it1.seq()[it1.index@].0)); assert(inj_on::<M>(part0)); }
        @loop 2 iter it2
            invariant
                enumerates(it2.seq(), part0), inj_on::<M>(part0),
                forall|k: DbSortKey| psv(partition_substates).contains_key(k) <==> seenk::<M>(it2.seq(), it2.index@, k),
                forall|j: int| 0 <= j < it2.index@ ==> psv(partition_substates)[M::sort_key((#[trigger] it2.seq()[j]).0)] == new_cell(it2.seq()[j].0, it2.seq()[j].1),
                *self == *old(self),
                *on_io_access == *old(on_io_access),
                forall|a: IOAccess| (*on_io_access).requires((a,)),
                // exit fact
                it2.index@ == it2.seq().len() ==> created_part::<M>(part0, psv(partition_substates)),
        @before <<let old_tracked =>> #1
            proof {
                if psv(partition_substates).contains_key(db_sort_key) {
                    assert(seenk::<M>(it2.seq(), it2.index@, db_sort_key));
                    let j = choose|j: int| 0 <= j < it2.index@ && M::sort_key((#[trigger] it2.seq()[j]).0) == db_sort_key;
                    assert(part0.contains_key(it2.seq()[j].0) && part0.contains_key(it2.seq()[it2.index@].0));
                    assert(it2.seq()[j].0 == it2.seq()[it2.index@].0);
                    assert(false);
                }
            }
        @after <<let old_tracked =>> #1
            proof {
                assert forall|k: DbSortKey| psv(partition_substates).contains_key(k) <==> seenk::<M>(it2.seq(), it2.index@ + 1, k) by { lemma_seenk_step::<M>(it2.seq(), it2.index@, k); }
                assert forall|j: int| 0 <= j < it2.index@ + 1 implies psv(partition_substates)[M::sort_key((#[trigger] it2.seq()[j]).0)] == new_cell(it2.seq()[j].0, it2.seq()[j].1) by {
                    if j < it2.index@ {
                        assert(part0.contains_key(it2.seq()[j].0) && part0.contains_key(it2.seq()[it2.index@].0));
                        assert(it2.seq()[j].0 != it2.seq()[it2.index@].0);
                        assert(M::sort_key(it2.seq()[j].0) != M::sort_key(it2.seq()[it2.index@].0));
                    }
                }
                lemma_created_part::<M>(it2.seq(), it2.index@ + 1, part0, psv(partition_substates));
            }
        @after <<tracked_partitions.insert(>> #1
            proof {
                assert forall|p: PartitionNumber| tpv(tracked_partitions).contains_key(p) <==> seen(it1.seq(), it1.index@ + 1, p) by { lemma_seen_step(it1.seq(), it1.index@, p); }
                assert forall|j: int| 0 <= j < it1.index@ + 1 implies tpv(tracked_partitions)[(#[trigger] it1.seq()[j]).0].range_read == 0
                    && created_part::<M>(it1.seq()[j].1@, tpv(tracked_partitions)[it1.seq()[j].0].substates@) by {
                    if j < it1.index@ { assert(it1.seq()[j].0 != it1.seq()[it1.index@].0); }
                }
                lemma_created_node::<M>(it1.seq(), it1.index@ + 1, src0, tpv(tracked_partitions));
            }
        @*/

        /*@fn radix-engine/src/track/track.rs :: impl<'s, S: SubstateDatabase, M: DatabaseKeyMapper> MappedTrack<'s, S, M> :: fn finalize
        @sig
            ensures
                // exactly the tracked substates that are marked transient are dropped (they must never reach the
                // database); everything else -- cells, node flags, partitions to delete -- is handed over unchanged
                ret matches Ok((ts, db)) ==> db == this0.substate_db && ts.deleted_partitions == this0.deleted_partitions,
                ret matches Ok((ts, db)) ==> finalized::<M>(this0.tracked_nodes@, this0.transient_substates, ts.tracked_nodes@),
                ret matches Ok((ts, db)) ==> forall|n: NodeId, p: PartitionNumber, sk: SubstateKey| is_tr(this0.transient_substates, n, p, sk) && #[trigger] cell(this0.tracked_nodes@, n, p, M::sort_key(sk))
                            ==> !(cur(val(this0.tracked_nodes@, n, p, M::sort_key(sk))) matches Some(v) && v.owns()),
                // the only failure: a transient substate whose current value owns a node
                ret matches Err(e) ==> exists|n: NodeId, p: PartitionNumber, sk: SubstateKey| owning_transient::<M>(this0.tracked_nodes@, this0.transient_substates, n, p, sk),
        @subst <<mut self>> => <<this0: Self>> why: Verus does not support a `mut self` receiver: the receiver becomes the by-value parameter `this0`, re-bound mutably as `this` by the first woven line (`let mut this = this0;`, the meaning of a `mut` binding); the method thus becomes an associated function with the same body, and its contract can name the initial value
        @subst <<self.>> => <<this.>> x5 why: same renaming of the receiver
        @entry
            let mut this = this0;
            let ghost a0 = this0.tracked_nodes@;
            let ghost tr0 = this0.transient_substates;
            let ghost db0 = this0.substate_db;
            let ghost dp0 = this0.deleted_partitions;
            let ghost mut done: Set<Tr3> = Set::empty();
        @loop 1 iter it1
            invariant
                enumerates(it1.seq(), tr0.transient_substates@),
                dropped::<M>(a0, this.tracked_nodes@, done), none_owns::<M>(a0, done),
                forall|n: NodeId, p: PartitionNumber, sk: SubstateKey| #[trigger] done.contains((n, p, sk)) ==> is_tr(tr0, n, p, sk),
                forall|n: NodeId, p: PartitionNumber, sk: SubstateKey| #[trigger] done.contains((n, p, sk)) || !(is_tr(tr0, n, p, sk) && seen(it1.seq(), it1.index@, n)),
                this.substate_db == db0, this.deleted_partitions == dp0, a0 == this0.tracked_nodes@, tr0 == this0.transient_substates,
                // exit fact
                it1.index@ == it1.seq().len() ==> (forall|n: NodeId, p: PartitionNumber, sk: SubstateKey| #[trigger] done.contains((n, p, sk)) <==> is_tr(tr0, n, p, sk)),
        @before <<for (partition, substate_key) in transient_substates>> #1
            let ghost set0 = transient_substates@;
            proof { assert(tr0.transient_substates@.contains_key(it1.seq()[it1.index@].0)); }
        @loop 2 iter it2
            invariant
                enumerates(it1.seq(), tr0.transient_substates@),
                0 <= it1.index@ < it1.seq().len(), it1.seq()[it1.index@].0 == node_id,
                enumerates_set(it2.seq(), set0),
                tr0.transient_substates@.contains_key(node_id), tr0.transient_substates@[node_id]@ == set0,
                dropped::<M>(a0, this.tracked_nodes@, done), none_owns::<M>(a0, done),
                forall|n: NodeId, p: PartitionNumber, sk: SubstateKey| #[trigger] done.contains((n, p, sk)) ==> is_tr(tr0, n, p, sk),
                forall|n: NodeId, p: PartitionNumber, sk: SubstateKey| #[trigger] done.contains((n, p, sk)) || !(is_tr(tr0, n, p, sk) && seen(it1.seq(), it1.index@, n)),
                forall|p: PartitionNumber, sk: SubstateKey| #[trigger] done.contains((node_id, p, sk)) || !seen_elem(it2.seq(), it2.index@, (p, sk)),
                this.substate_db == db0, this.deleted_partitions == dp0, a0 == this0.tracked_nodes@, tr0 == this0.transient_substates,
                // exit fact
                it2.index@ == it2.seq().len() ==> (forall|p: PartitionNumber, sk: SubstateKey| set0.contains((p, sk)) ==> #[trigger] done.contains((node_id, p, sk))),
        @closure 1 := |tracked_node: &mut TrackedNode| -> (r: Option<&mut TrackedPartition>) ensures match r { Some(x) => old(tracked_node).tracked_partitions@.contains_key(partition) && *x == old(tracked_node).tracked_partitions@[partition] && final(tracked_node).tracked_partitions@ == old(tracked_node).tracked_partitions@.insert(partition, *final(x)) && final(tracked_node).is_new == old(tracked_node).is_new, None => !old(tracked_node).tracked_partitions@.contains_key(partition) && *final(tracked_node) == *old(tracked_node) }
        @closure 2 := |s: TrackedSubstate| -> (r: Option<IndexedScryptoValue>) ensures r == cur(s.substate_value)
        @before <<if let Some(tracked_partition)>> #1
            let ghost b = this.tracked_nodes@;
            proof {
                assert(set0.contains(it2.seq()[it2.index@]));
                assert(is_tr(tr0, node_id, partition, substate_key));
            }
        @before <<return Err(>> #1
            proof {
                assert(cell(b, node_id, partition, M::sort_key(substate_key)));
                assert(cell(a0, node_id, partition, M::sort_key(substate_key)));
                assert(subs(b, node_id, partition)[M::sort_key(substate_key)] == subs(a0, node_id, partition)[M::sort_key(substate_key)]);
                assert(owning_transient::<M>(a0, tr0, node_id, partition, substate_key));
                assert(owning_transient::<M>(this0.tracked_nodes@, this0.transient_substates, node_id, partition, substate_key));
            }
        @after <<if let Some(tracked_partition)>> #1
            proof {
                let b2 = this.tracked_nodes@;
                if b.contains_key(node_id) && b[node_id].tracked_partitions@.contains_key(partition) {
                    lemma_drop_step::<M>(a0, b, b2, done, node_id, partition, substate_key);
                } else {
                    assert(b2 =~= b);
                    lemma_drop_absent::<M>(a0, b, done, node_id, partition, substate_key);
                }
                done = done.insert((node_id, partition, substate_key));
                assert forall|p: PartitionNumber, sk: SubstateKey| #[trigger] done.contains((node_id, p, sk)) || !seen_elem(it2.seq(), it2.index@ + 1, (p, sk)) by {
                    lemma_seen_elem_step(it2.seq(), it2.index@, (p, sk));
                }
                assert(it2.index@ + 1 == it2.seq().len() ==> (forall|p: PartitionNumber, sk: SubstateKey| set0.contains((p, sk)) ==> #[trigger] done.contains((node_id, p, sk)))) by {
                    if it2.index@ + 1 == it2.seq().len() {
                        assert forall|p: PartitionNumber, sk: SubstateKey| set0.contains((p, sk)) implies #[trigger] done.contains((node_id, p, sk)) by {
                            let j = choose|j: int| 0 <= j < it2.seq().len() && it2.seq()[j] == (p, sk);
                            assert(seen_elem(it2.seq(), it2.index@ + 1, (p, sk)));
                        }
                    }
                }
            }
        @after <<for (partition, substate_key) in transient_substates>> #1
            proof {
                assert forall|n: NodeId, p: PartitionNumber, sk: SubstateKey| #[trigger] done.contains((n, p, sk)) || !(is_tr(tr0, n, p, sk) && seen(it1.seq(), it1.index@ + 1, n)) by {
                    lemma_seen_step(it1.seq(), it1.index@, n);
                }
                assert(it1.index@ + 1 == it1.seq().len() ==> (forall|n: NodeId, p: PartitionNumber, sk: SubstateKey| #[trigger] done.contains((n, p, sk)) <==> is_tr(tr0, n, p, sk))) by {
                    if it1.index@ + 1 == it1.seq().len() {
                        assert forall|n: NodeId, p: PartitionNumber, sk: SubstateKey| is_tr(tr0, n, p, sk) implies #[trigger] done.contains((n, p, sk)) by {
                            lemma_seen_all(it1.seq(), tr0.transient_substates@, n);
                        }
                    }
                }
            }
        @before <<Ok((>> #1
            proof {
                lemma_finalized::<M>(a0, this.tracked_nodes@, tr0, done);
                assert forall|n: NodeId, p: PartitionNumber, sk: SubstateKey| is_tr(this0.transient_substates, n, p, sk) && #[trigger] cell(this0.tracked_nodes@, n, p, M::sort_key(sk))
                    implies !(cur(val(this0.tracked_nodes@, n, p, M::sort_key(sk))) matches Some(v) && v.owns()) by { assert(done.contains((n, p, sk))); }
            }
        @*/

        /// what @drop-tail cuts from scan_keys: the DATABASE half (list_entries_from_db = Box<dyn Iterator> over a local
        /// struct, IterationCountedIter, a `for` loop with `continue`, the range_read update).  Opaque: nothing is
        /// assumed about its result or about what it does to the track.
        #[verifier::external_body]
        fn scan_keys_db_tail<E>(&mut self, items: Vec<SubstateKey>) -> (r: Result<Vec<SubstateKey>, E>) { unimplemented!() }

        // (loop_isolation(false): the parameter `limit: u32` is shadowed by the local `limit: usize`, so no loop invariant
        // can name it; the loop body must see the pre-loop fact that the two are equal)
        #[verifier::loop_isolation(false)]
        /*@fn radix-engine/src/track/track.rs :: impl<'s, S: SubstateDatabase, M: DatabaseKeyMapper> CommitableSubstateStore for MappedTrack<'s, S, M> :: fn scan_keys
        @sig
            ensures
                // C12, limited key scan, whenever the answer comes from the track alone (the node was created by this
                // transaction, or the tracked partition already holds `limit` present entries): the first `limit`
                // present tracked entries (distinct cells, each currently holding a value), as many as the limit
                // allows; the track is not modified and no IO is made
                node_is_new(old(self).tracked_nodes@, *node_id) || present_count(old(self).tracked_nodes@, *node_id, partition_number) >= limit
                    ==> (ret matches Ok(v) && v@ == scan_tracked(old(self).tracked_nodes@, *node_id, partition_number, limit as int)
                        && *final(self) == *old(self)),
        @closure 1 := |tracked_node: &TrackedNode| -> (r: bool) ensures r == tracked_node.is_new
        @closure 2 := |n: &TrackedNode| -> (r: Option<&TrackedPartition>) ensures r == (match lookup(n.tracked_partitions@, partition_number) { Some(x) => Some(&x), None => None })
        @loop 1 iter it
            invariant
                *self == *old(self),
                parts(self.tracked_nodes@, *node_id).contains_key(partition_number),
                *tracked_partition == parts(self.tracked_nodes@, *node_id)[partition_number],
                it.seq().len() == tracked_partition.substates.ord_seq().len(),
                forall|i: int| 0 <= i < it.seq().len() ==> *(#[trigger] it.seq()[i]) == tracked_partition.substates.ord_seq()[i].1,
                items@ == present_keys(tracked_partition.substates.ord_seq().take(it.index@ as int)),
                items.len() <= limit,
                // exit fact
                it.index@ == it.seq().len() ==> items@ == present_keys(tracked_partition.substates.ord_seq()),
        @before <<items.len()>> #1
            proof {
                let sq = tracked_partition.substates.ord_seq();
                lemma_present_prefix(sq, it.index@ as int);
                assert(sq.take(it.index@ + 1).drop_last() =~= sq.take(it.index@ as int));
                assert(sq.take(it.index@ + 1).last() == sq[it.index@ as int]);
                assert(sq.take(sq.len() as int) =~= sq);
            }
        @before <<return Ok(items);>> #1
            proof {
                let all = present_keys(tracked_partition.substates.ord_seq());
                assert(items@ =~= all.take(limit as int));
                if all.len() <= limit { assert(all.take(limit as int) =~= all); }
                assert(items@ =~= scan_tracked(old(self).tracked_nodes@, *node_id, partition_number, limit as int));
            }
        @drop-tail <<if items.len() == limit || is_new>> #1 => return self.scan_keys_db_tail(items);
        @*/
    }

    impl TrackedSubstates {
        /*@fn radix-engine/src/track/track.rs :: impl TrackedSubstates :: fn to_state_updates
        @sig
            requires distinct_keys(self.tracked_nodes@)
            ensures
                // the nodes created by the transaction
                forall|n: NodeId| ret.0@.contains(n) <==> node_is_new(self.tracked_nodes@, n),
                // C12: the state changes are exactly the overlaid differences, partition by partition
                forall|n: NodeId, p: PartitionNumber| #[trigger] part_done(self.tracked_nodes@, self.deleted_partitions@, n, p, ret.1),
        @closure 1 := |r#tracked: TrackedSubstate| -> (r: Option<(SubstateKey, DatabaseUpdate)>) ensures upd_of(tracked, r)
        @entry
            let ghost a = self.tracked_nodes@;
            let ghost dp0 = self.deleted_partitions@;
        @loop 1 iter it0
            invariant
                enumerates_set(it0.seq(), dp0),
                nsv(new_nodes) == Set::<NodeId>::empty(),
                forall|n: NodeId, p: PartitionNumber, sk: SubstateKey| #[trigger] su_get(state_updates, n, p, sk)
                    == (if seen_elem(it0.seq(), it0.index@, (n, p)) { Some(None::<DbSubstateValue>) } else { None }),
                // exit fact
                it0.index@ == it0.seq().len() ==> (forall|n: NodeId, p: PartitionNumber| #[trigger] part_init(dp0, n, p, state_updates)),
        @before <<.delete()>> #1
            let ghost su0 = state_updates;
        @after <<.delete()>> #1
            proof {
                assert forall|n: NodeId, p: PartitionNumber, sk: SubstateKey| #[trigger] su_get(state_updates, n, p, sk)
                    == (if seen_elem(it0.seq(), it0.index@ + 1, (n, p)) { Some(None::<DbSubstateValue>) } else { None }) by {
                    lemma_seen_elem_step(it0.seq(), it0.index@, (n, p));
                    assert(su_get(su0, n, p, sk) == (if seen_elem(it0.seq(), it0.index@, (n, p)) { Some(None::<DbSubstateValue>) } else { None }));
                    if n == node_id && p == partition_num {
                        assert(state_updates@.contains_key(n) && state_updates@[n]@.contains_key(p));
                    } else if n == node_id {
                        assert(state_updates@[n]@.contains_key(p) == (su0@.contains_key(n) && su0@[n]@.contains_key(p)));
                    } else {
                        assert(state_updates@.contains_key(n) == su0@.contains_key(n));
                    }
                }
                assert(it0.index@ + 1 == it0.seq().len() ==> (forall|n: NodeId, p: PartitionNumber| #[trigger] part_init(dp0, n, p, state_updates))) by {
                    if it0.index@ + 1 == it0.seq().len() {
                        assert forall|n: NodeId, p: PartitionNumber| #[trigger] part_init(dp0, n, p, state_updates) by {
                            if dp0.contains((n, p)) {
                                let j = choose|j: int| 0 <= j < it0.seq().len() && it0.seq()[j] == (n, p);
                                assert(seen_elem(it0.seq(), it0.index@ + 1, (n, p)));
                            } else if seen_elem(it0.seq(), it0.index@ + 1, (n, p)) {
                                let j = choose|j: int| 0 <= j < it0.index@ + 1 && #[trigger] it0.seq()[j] == (n, p);
                                assert(dp0.contains(it0.seq()[j]));
                            }
                            assert forall|sk: SubstateKey| #[trigger] su_get(state_updates, n, p, sk) == init_get(dp0, n, p) by {}
                        }
                    }
                }
            }
        @loop 2 iter it2
            invariant
                enumerates(it2.seq(), a), distinct_keys(a),
                forall|n: NodeId| #[trigger] nsv(new_nodes).contains(n) <==> (seen(it2.seq(), it2.index@, n) && node_is_new(a, n)),
                forall|n: NodeId, p: PartitionNumber| seen(it2.seq(), it2.index@, n) ==> #[trigger] part_done(a, dp0, n, p, state_updates),
                forall|n: NodeId, p: PartitionNumber| !seen(it2.seq(), it2.index@, n) ==> #[trigger] part_init(dp0, n, p, state_updates),
                // exit fact
                it2.index@ == it2.seq().len() ==> (forall|n: NodeId| #[trigger] nsv(new_nodes).contains(n) <==> node_is_new(a, n))
                    && (forall|n: NodeId, p: PartitionNumber| #[trigger] part_done(a, dp0, n, p, state_updates)),
        @before <<tracked_node.is_new>> #1
            let ghost nn0 = nsv(new_nodes);
            proof { assert forall|n: NodeId| nn0.contains(n) <==> (seen(it2.seq(), it2.index@, n) && node_is_new(a, n)) by { assert(nsv(new_nodes).contains(n) == nn0.contains(n)); } }
        @before <<for (partition_num, tracked_partition)>> #1
            proof {
                assert(a.contains_key(it2.seq()[it2.index@].0) && a[node_id] == tracked_node);
                assert(!seen(it2.seq(), it2.index@, node_id)) by {
                    if seen(it2.seq(), it2.index@, node_id) {
                        let j = choose|j: int| 0 <= j < it2.index@ && (#[trigger] it2.seq()[j]).0 == node_id;
                        assert(it2.seq()[j].0 != it2.seq()[it2.index@].0);
                    }
                }
                assert(node_is_new(a, node_id) == tracked_node.is_new);
                assert(nsv(new_nodes) == (if tracked_node.is_new { nn0.insert(node_id) } else { nn0 }));
                assert forall|n: NodeId| #[trigger] nsv(new_nodes).contains(n) <==> ((seen(it2.seq(), it2.index@, n) || n == node_id) && node_is_new(a, n)) by {
                    assert(nn0.contains(n) <==> (seen(it2.seq(), it2.index@, n) && node_is_new(a, n)));
                }
                assert forall|p: PartitionNumber| !a[node_id].tracked_partitions@.contains_key(p) implies #[trigger] part_done(a, dp0, node_id, p, state_updates) by {
                    assert(part_init(dp0, node_id, p, state_updates));
                    lemma_part_untracked(a, dp0, node_id, p, state_updates);
                }
            }
        @loop 3 iter it3
            invariant
                enumerates(it2.seq(), a), distinct_keys(a),
                0 <= it2.index@ < it2.seq().len(), it2.seq()[it2.index@].0 == node_id, a.contains_key(node_id), !seen(it2.seq(), it2.index@, node_id),
                enumerates(it3.seq(), a[node_id].tracked_partitions@),
                forall|n: NodeId| #[trigger] nsv(new_nodes).contains(n) <==> ((seen(it2.seq(), it2.index@, n) || n == node_id) && node_is_new(a, n)),
                forall|n: NodeId, p: PartitionNumber| (seen(it2.seq(), it2.index@, n) || (n == node_id && seen(it3.seq(), it3.index@, p))) ==> #[trigger] part_done(a, dp0, n, p, state_updates),
                forall|n: NodeId, p: PartitionNumber| !(seen(it2.seq(), it2.index@, n) || (n == node_id && seen(it3.seq(), it3.index@, p))) ==> #[trigger] part_init(dp0, n, p, state_updates),
                // exit fact
                it3.index@ == it3.seq().len() ==> (forall|p: PartitionNumber| #[trigger] part_done(a, dp0, node_id, p, state_updates)),
        @before <<let partition_updates>> #1
            let ghost su0 = state_updates;
            let ghost tp0 = tracked_partition;
            proof {
                assert(a[node_id].tracked_partitions@.contains_key(it3.seq()[it3.index@].0) && a[node_id].tracked_partitions@[partition_num] == tp0);
                assert(!seen(it3.seq(), it3.index@, partition_num)) by {
                    if seen(it3.seq(), it3.index@, partition_num) {
                        let j = choose|j: int| 0 <= j < it3.index@ && (#[trigger] it3.seq()[j]).0 == partition_num;
                        assert(it3.seq()[j].0 != it3.seq()[it3.index@].0);
                    }
                }
            }
        @after <<let partition_updates>> #1
            let ghost ups = puv(partition_updates);
            proof { assert(collected(tp0.substates.ord_seq(), ups)); }
        @after <<.mut_update_substates(partition_updates)>> #1
            proof {
                assert forall|sk: SubstateKey| #[trigger] su_get(state_updates, node_id, partition_num, sk)
                    == (if ups.contains_key(sk) { Some(upd_val(ups[sk])) } else { su_get(su0, node_id, partition_num, sk) }) by {}
                assert forall|n1: NodeId, p1: PartitionNumber, sk: SubstateKey| !(n1 == node_id && p1 == partition_num) implies
                    #[trigger] su_get(state_updates, n1, p1, sk) == su_get(su0, n1, p1, sk) by {
                    if n1 == node_id {
                        assert(state_updates@[n1]@.contains_key(p1) == (su0@.contains_key(n1) && su0@[n1]@.contains_key(p1)));
                    } else {
                        assert(state_updates@.contains_key(n1) == su0@.contains_key(n1));
                    }
                }
            }
        @after <<partition_updates.is_empty()>> #1
            proof {
                assert forall|sk: SubstateKey| #[trigger] su_get(state_updates, node_id, partition_num, sk)
                    == (if ups.contains_key(sk) { Some(upd_val(ups[sk])) } else { su_get(su0, node_id, partition_num, sk) }) by {}
                assert forall|n1: NodeId, p1: PartitionNumber, sk: SubstateKey| !(n1 == node_id && p1 == partition_num) implies
                    #[trigger] su_get(state_updates, n1, p1, sk) == su_get(su0, n1, p1, sk) by {}
                assert(part_init(dp0, node_id, partition_num, su0));
                lemma_part_step(a, dp0, node_id, partition_num, su0, state_updates, ups);
                lemma_su_frame(a, dp0, su0, state_updates, node_id, partition_num);
                assert forall|n: NodeId, p: PartitionNumber| (seen(it2.seq(), it2.index@, n) || (n == node_id && seen(it3.seq(), it3.index@ + 1, p)))
                    implies #[trigger] part_done(a, dp0, n, p, state_updates) by {
                    lemma_seen_step(it3.seq(), it3.index@, p);
                    if !(n == node_id && p == partition_num) { assert(part_done(a, dp0, n, p, su0)); }
                }
                assert forall|n: NodeId, p: PartitionNumber| !(seen(it2.seq(), it2.index@, n) || (n == node_id && seen(it3.seq(), it3.index@ + 1, p)))
                    implies #[trigger] part_init(dp0, n, p, state_updates) by {
                    lemma_seen_step(it3.seq(), it3.index@, p);
                    assert(part_init(dp0, n, p, su0));
                }
                assert(it3.index@ + 1 == it3.seq().len() ==> (forall|p: PartitionNumber| #[trigger] part_done(a, dp0, node_id, p, state_updates))) by {
                    if it3.index@ + 1 == it3.seq().len() {
                        assert forall|p: PartitionNumber| #[trigger] part_done(a, dp0, node_id, p, state_updates) by {
                            lemma_seen_all(it3.seq(), a[node_id].tracked_partitions@, p);
                            if !a[node_id].tracked_partitions@.contains_key(p) {
                                assert(part_init(dp0, node_id, p, state_updates));
                                lemma_part_untracked(a, dp0, node_id, p, state_updates);
                            }
                        }
                    }
                }
            }
        @after <<for (partition_num, tracked_partition)>> #1
            proof {
                assert forall|n: NodeId| #[trigger] nsv(new_nodes).contains(n) <==> (seen(it2.seq(), it2.index@ + 1, n) && node_is_new(a, n)) by { lemma_seen_step(it2.seq(), it2.index@, n); }
                assert forall|n: NodeId, p: PartitionNumber| seen(it2.seq(), it2.index@ + 1, n) implies #[trigger] part_done(a, dp0, n, p, state_updates) by { lemma_seen_step(it2.seq(), it2.index@, n); }
                assert forall|n: NodeId, p: PartitionNumber| !seen(it2.seq(), it2.index@ + 1, n) implies #[trigger] part_init(dp0, n, p, state_updates) by { lemma_seen_step(it2.seq(), it2.index@, n); }
                assert(it2.index@ + 1 == it2.seq().len() ==> (forall|n: NodeId| #[trigger] nsv(new_nodes).contains(n) <==> node_is_new(a, n))
                    && (forall|n: NodeId, p: PartitionNumber| #[trigger] part_done(a, dp0, n, p, state_updates))) by {
                    if it2.index@ + 1 == it2.seq().len() {
                        assert forall|n: NodeId| #[trigger] nsv(new_nodes).contains(n) <==> node_is_new(a, n) by { lemma_seen_all(it2.seq(), a, n); }
                        assert forall|n: NodeId, p: PartitionNumber| #[trigger] part_done(a, dp0, n, p, state_updates) by {
                            lemma_seen_all(it2.seq(), a, n);
                            if !a.contains_key(n) {
                                assert(part_init(dp0, n, p, state_updates));
                                lemma_part_untracked(a, dp0, n, p, state_updates);
                            }
                        }
                    }
                }
            }
        @before <<(new_nodes, state_updates)>> #1
            proof { assert forall|n: NodeId| new_nodes@.contains(n) <==> node_is_new(a, n) by { assert(nsv(new_nodes).contains(n) == new_nodes@.contains(n)); } }
        @*/
    }

    /// R8 (closure lifting, done by hand because the extractor has no closure-to-fn lifting): in
    /// scan_sorted_substates the tracked entries are fed to the merge iterator OverlayingResultIterator (whose `next`
    /// is verified in unit c14_overlay_iterator) through
    ///     tracked_partition.substates.iter().map(|(db_sort_key, tracked_substate)| <BODY>)
    /// <BODY> is extracted verbatim from /repo (expr-after); the signature line is re-typed here.  Proved: the
    /// overlay change handed to the merge for a tracked cell is exactly its current value (`Some((key, value))`
    /// = upsert, `None` = the database entry with this sort key is hidden).  The rest of scan_sorted_substates is NOT
    /// verified (see props.frag.json).
    pub fn scan_sorted_substates_closure_2(db_sort_key: &DbSortKey, tracked_substate: &TrackedSubstate) -> (ret: (DbSortKey, Option<(SubstateKey, IndexedScryptoValue)>))
        ensures
            ret.0 == *db_sort_key,
            ret.1 == (match cur(tracked_substate.substate_value) { Some(v) => Some((tracked_substate.substate_key, v)), None => None }),
    /*@expr-after radix-engine/src/track/track.rs :: impl<'s, S: SubstateDatabase, M: DatabaseKeyMapper> CommitableSubstateStore for MappedTrack<'s, S, M> :: fn scan_sorted_substates :: <<.map(|(db_sort_key, tracked_substate)|>> @*/

    // ==================================================================================================
    // C12 read-your-writes, at the level of the Track API: compositions of the contracts above (hand-written
    // callers, no repo code).  `never` is a callback about which NOTHING is assumed -- not even that it may be
    // called: a call that verifies with it makes no IO access (and, by the same branch, no database read).
    // ==================================================================================================
    pub open spec fn opt_val(o: Option<&V>) -> Option<V> { match o { Some(x) => Some(*x), None => None } }
    pub proof fn lemma_cur_loaded(o: Option<V>) ensures cur(loaded(o)) == o, base(loaded(o)) == Some(o), !written(loaded(o)), !fresh(loaded(o)) {}

    /// a read after `set_substate(k, v)` returns v -- from the cache -- whatever was tracked or stored before and
    /// whatever the IO callback answered
    pub fn write_then_read<'s, S: SubstateDatabase, M: DatabaseKeyMapper, E, F: FnMut(IOAccess) -> Result<(), E>, G: FnMut(IOAccess) -> Result<(), E>>(
        t: &mut MappedTrack<'s, S, M>, n: NodeId, p: PartitionNumber, sk: SubstateKey, v: IndexedScryptoValue, io: &mut F, never: &mut G)
        requires forall|a: IOAccess| (*old(io)).requires((a,)),
    {
        let ghost v0 = v;
        let sk2 = sk.clone();
        let _ = t.set_substate(n, p, sk, v, io);
        let g = t.get_substate(&n, p, &sk2, never);
        assert(g is Ok && opt_val(g->Ok_0) == Some(v0));
    }

    /// ... and a read of ANY OTHER cell after the write answers what it would have answered before
    pub fn write_then_read_other<'s, S: SubstateDatabase, M: DatabaseKeyMapper, E, F: FnMut(IOAccess) -> Result<(), E>>(
        t: &mut MappedTrack<'s, S, M>, n: NodeId, p: PartitionNumber, sk: SubstateKey, v: IndexedScryptoValue,
        n2: NodeId, p2: PartitionNumber, sk2: SubstateKey, io: &mut F)
        requires
            forall|a: IOAccess| (*old(io)).requires((a,)),
            db_wf(old(t).substate_db.view()),
            !(n2 == n && p2 == p && M::sort_key(sk2) == M::sort_key(sk)),
    {
        let ghost a = t.tracked_nodes@;
        let ghost k = M::sort_key(sk);
        let _ = t.set_substate(n, p, sk, v, io);
        proof { lemma_upd_cells(a, t.tracked_nodes@, n, p, k, subs(t.tracked_nodes@, n, p)[k]); }
        let g = t.get_substate(&n2, p2, &sk2, io);
        assert(g matches Ok(x) ==> opt_val(x) == overlay::<M>(a, old(t).transient_substates, old(t).substate_db.view(), n2, p2, sk2));
    }

    /// a read after a (successful) removal returns nothing -- from the cache; the removal itself returned what a
    /// read would have returned
    pub fn remove_then_read<'s, S: SubstateDatabase, M: DatabaseKeyMapper, E, F: FnMut(IOAccess) -> Result<(), E>, G: FnMut(IOAccess) -> Result<(), E>>(
        t: &mut MappedTrack<'s, S, M>, n: NodeId, p: PartitionNumber, sk: SubstateKey, io: &mut F, never: &mut G)
        requires forall|a: IOAccess| (*old(io)).requires((a,)), db_wf(old(t).substate_db.view()),
    {
        let r = t.remove_substate(&n, p, &sk, io);
        if r.is_ok() {
            assert(r->Ok_0 == overlay::<M>(old(t).tracked_nodes@, old(t).transient_substates, old(t).substate_db.view(), n, p, sk));
            let g = t.get_substate(&n, p, &sk, never);
            assert(g is Ok && g->Ok_0 is None);
        }
    }

    /// the first read of an untracked cell caches it: a second read is served without IO and returns the same
    pub fn read_twice<'s, S: SubstateDatabase, M: DatabaseKeyMapper, E, F: FnMut(IOAccess) -> Result<(), E>, G: FnMut(IOAccess) -> Result<(), E>>(
        t: &mut MappedTrack<'s, S, M>, n: NodeId, p: PartitionNumber, sk: SubstateKey, io: &mut F, never: &mut G)
        requires forall|a: IOAccess| (*old(io)).requires((a,)), db_wf(old(t).substate_db.view()),
    {
        let ghost first: Option<V>;
        let r = t.get_substate(&n, p, &sk, io);
        match r {
            Ok(x) => {
                proof {
                    first = opt_val(x);
                    lemma_cur_loaded(below::<M>(old(t).transient_substates, old(t).substate_db.view(), n, p, sk));
                }
            }
            Err(_) => { return; }
        }
        let g = t.get_substate(&n, p, &sk, never);
        assert(g is Ok && opt_val(g->Ok_0) == first);
    }

    /// a removal after a write returns the written value (and a read of the other cells is unaffected, as above)
    pub fn write_then_remove<'s, S: SubstateDatabase, M: DatabaseKeyMapper, E, F: FnMut(IOAccess) -> Result<(), E>>(
        t: &mut MappedTrack<'s, S, M>, n: NodeId, p: PartitionNumber, sk: SubstateKey, v: IndexedScryptoValue, io: &mut F)
        requires forall|a: IOAccess| (*old(io)).requires((a,)), db_wf(old(t).substate_db.view()),
    {
        let ghost v0 = v;
        let sk2 = sk.clone();
        let _ = t.set_substate(n, p, sk, v, io);
        let r = t.remove_substate(&n, p, &sk2, io);
        assert(r matches Ok(x) ==> x == Some(v0));
    }

    // ==================================================================================================
    // C12 "the state changes produced at the end are exactly the overlaid differences": reading of the
    // to_state_updates contract against a database (pure spec, no repo code)
    // ==================================================================================================
    /// the database content at (n, p, sk) after the produced updates have been applied (the documented meaning of
    /// StateUpdates: untouched / deleted or reset away / set)
    pub open spec fn db_after<M: DatabaseKeyMapper>(su: StateUpdates, db: Db, n: NodeId, p: PartitionNumber, sk: SubstateKey) -> Option<Seq<u8>> {
        match su_get(su, n, p, sk) {
            None => if db.contains_key((M::part_key(n, p), M::sort_key(sk))) { Some(db[(M::part_key(n, p), M::sort_key(sk))]) } else { None },
            Some(None) => None,
            Some(Some(b)) => Some(b@),
        }
    }
    pub open spec fn opt_bytes(o: Option<V>) -> Option<Seq<u8>> { match o { Some(v) => Some(v.bytes()), None => None } }
    /// For a track whose cells are filed under their own sort key (keys_wf: kept by every operation above): after the
    /// updates are applied, a substate whose cell carries a write holds the cell's current value (or is absent if that
    /// is None); any other substate is what the database held -- or absent, if its partition was deleted.
    pub proof fn lemma_updates_are_the_overlay_diff<M: DatabaseKeyMapper>(a: Nodes, dp: Set<(NodeId, PartitionNumber)>, su: StateUpdates, db: Db,
                                                                          n: NodeId, p: PartitionNumber, sk: SubstateKey)
        requires keys_wf::<M>(a), part_done(a, dp, n, p, su)
        ensures ({
            let k = M::sort_key(sk);
            db_after::<M>(su, db, n, p, sk) == (
                if cell(a, n, p, k) && written(val(a, n, p, k)) && subs(a, n, p)[k].substate_key == sk { opt_bytes(cur(val(a, n, p, k))) }
                else if dp.contains((n, p)) { None }
                else if db.contains_key((M::part_key(n, p), k)) { Some(db[(M::part_key(n, p), k)]) } else { None })
        })
    {
        let k = M::sort_key(sk);
        if cell(a, n, p, k) && written(val(a, n, p, k)) && subs(a, n, p)[k].substate_key == sk {
        } else {
            if written_key(a, n, p, sk) {
                let k2 = choose|k2: DbSortKey| cell(a, n, p, k2) && written(val(a, n, p, k2)) && #[trigger] subs(a, n, p)[k2].substate_key == sk;
                assert(M::sort_key(subs(a, n, p)[k2].substate_key) == k2);
                assert(false);
            }
        }
    }

    /// the point operations keep every cell filed under its own sort key
    pub fn ops_keep_keys_wf<'s, S: SubstateDatabase, M: DatabaseKeyMapper, E, F: FnMut(IOAccess) -> Result<(), E>>(
        t: &mut MappedTrack<'s, S, M>, n: NodeId, p: PartitionNumber, sk: SubstateKey, v: IndexedScryptoValue, io: &mut F)
        requires forall|a: IOAccess| (*old(io)).requires((a,)), db_wf(old(t).substate_db.view()), keys_wf::<M>(old(t).tracked_nodes@),
        ensures keys_wf::<M>(final(t).tracked_nodes@),
    {
        let ghost k = M::sort_key(sk);
        let ghost a0 = t.tracked_nodes@;
        let sk2 = sk.clone();
        let _ = t.set_substate(n, p, sk, v, io);
        proof { lemma_upd_keys_wf::<M>(a0, t.tracked_nodes@, n, p, k, subs(t.tracked_nodes@, n, p)[k]); }
        let ghost a1 = t.tracked_nodes@;
        let ghost t1 = *t;
        let r = t.get_substate(&n, p, &sk2, io);
        proof {
            if r is Ok { lemma_upd_keys_wf::<M>(a1, t.tracked_nodes@, n, p, k, first_access::<S, M>(t1, n, p, sk2)); }
            else if touched(a1, t.tracked_nodes@, n, p) { lemma_touched_cells(a1, t.tracked_nodes@, n, p); }
            else { lemma_upd_keys_wf::<M>(a1, t.tracked_nodes@, n, p, k, first_access::<S, M>(t1, n, p, sk2)); }
        }
        let ghost a2 = t.tracked_nodes@;
        let ghost t2 = *t;
        let r2 = t.remove_substate(&n, p, &sk2, io);
        proof {
            if removed::<S, M>(t2, t.tracked_nodes@, n, p, sk2) { lemma_upd_keys_wf::<M>(a2, t.tracked_nodes@, n, p, k, subs(t.tracked_nodes@, n, p)[k]); }
            else if touched(a2, t.tracked_nodes@, n, p) { lemma_touched_cells(a2, t.tracked_nodes@, n, p); }
            else { lemma_upd_keys_wf::<M>(a2, t.tracked_nodes@, n, p, k, first_access::<S, M>(t2, n, p, sk2)); }
        }
    }
}
} // verus!
fn main() {}
