// Unit c08_authorization -- property C08 "Protected calls succeed exactly when the access rule is satisfied"
// Real code: radix-engine/src/system/system_modules/auth/authorization.rs
//   Authorization::{verify_proof_rule, verify_auth_rule, check_authorization_against_access_rule,
//                   check_authorization_against_role_key_internal, check_authorization_against_role_list}
// plus the helpers the self-role rule is built from (rule!/composite_requirement! macros, require,
// global_caller, the From/Into conversions, ModuleRoleKey::new, RoleKey::new, PartitionNumber::at_offset,
// KeyValueEntrySubstate::into_value, FieldSubstate::into_payload).
// Rule types extracted from radix-engine-interface/src/blueprints/resource/proof_rule.rs.
use vstd::prelude::*;

// the real macros; `#[macro_export]` (dropped by rewrite R2) is put back so that `$crate::..!` resolves
#[macro_export]
/*@item radix-engine-interface/src/macros.rs :: macro composite_requirement
@*/
#[macro_export]
/*@item radix-engine-interface/src/macros.rs :: macro rule
@*/
// `$crate::blueprints::resource::X` in the macros above
pub mod blueprints { pub mod resource { pub use crate::unit::*; } }

verus! {
/*@include shims/rt.rs @*/
/*@include shims/string_convert.rs @*/
/*@include shims/auth_env.rs @*/

// =================================================================================================
// ENVIRONMENT that depends on the extracted types: the kernel API trait with its ASSUMED contracts,
// the two auth-zone walkers (ASSUMED contracts), versioned payload wrappers, std-derived impls.
// =================================================================================================
pub mod env {
    use vstd::prelude::*;
    use vstd::std_specs::convert::*;
    use super::auth_env::*;
    use super::auth_env::Decimal;
    use super::unit::*;

    // `#[derive(Clone)]` on the recursive enum is rejected by Verus (cyclic trait dependency
    // through Vec<Self>); the derived impl is std-generated code, not under contract.
    impl Clone for CompositeRequirement {
        #[verifier::external_body]
        fn clone(&self) -> (r: Self) ensures r == *self { unimplemented!() }
    }

    pub open spec fn key_view(k: SubstateKey) -> SubKey {
        match k {
            SubstateKey::Field(f) => SubKey::Field(f),
            SubstateKey::Map(m) => SubKey::Map(m@),
            SubstateKey::Sorted(s) => SubKey::Sorted(s.0@, s.1@),
        }
    }

    /// radix_engine::kernel::kernel_api::KernelSubstateApi<L> (the four methods used), with ASSUMED
    /// contracts over the ghost `ApiState`:
    ///  open  : Ok(h) => h is a fresh handle, now open at exactly (node, partition, key); nothing else changes
    ///  read  : Ok(v) => h is open and v is the substate at its location; nothing changes
    ///  close : Ok    => h is no longer open; nothing else changes
    ///  Err(e) from any of them => e is appended to the error history, the environment is unchanged
    pub trait KernelSubstateApi<L> {
        spec fn st(&self) -> ApiState;

        fn kernel_open_substate_with_default<F: FnOnce() -> IndexedScryptoValue>(
            &mut self,
            node_id: &NodeId,
            partition_num: PartitionNumber,
            substate_key: &SubstateKey,
            flags: LockFlags,
            default: Option<F>,
            lock_data: L,
        ) -> (r: Result<SubstateHandle, RuntimeError>)
            ensures
                r matches Ok(h) ==> !old(self).st().handles.contains_key(h) && final(self).st() == (ApiState {
                    handles: old(self).st().handles.insert(h, Loc { node: *node_id, partition: partition_num.0, key: key_view(*substate_key) }),
                    ..old(self).st() }),
                r is Err ==> ok_or_fault(old(self).st(), final(self).st(), r);

        fn kernel_open_substate(
            &mut self,
            node_id: &NodeId,
            partition_num: PartitionNumber,
            substate_key: &SubstateKey,
            flags: LockFlags,
            lock_data: L,
        ) -> (r: Result<SubstateHandle, RuntimeError>)
            ensures
                r matches Ok(h) ==> !old(self).st().handles.contains_key(h) && final(self).st() == (ApiState {
                    handles: old(self).st().handles.insert(h, Loc { node: *node_id, partition: partition_num.0, key: key_view(*substate_key) }),
                    ..old(self).st() }),
                r is Err ==> ok_or_fault(old(self).st(), final(self).st(), r);

        fn kernel_close_substate(&mut self, lock_handle: SubstateHandle) -> (r: Result<(), RuntimeError>)
            ensures
                r is Ok ==> final(self).st() == (ApiState { handles: old(self).st().handles.remove(lock_handle), ..old(self).st() }),
                r is Err ==> ok_or_fault(old(self).st(), final(self).st(), r);

        fn kernel_read_substate(&mut self, lock_handle: SubstateHandle) -> (r: Result<&IndexedScryptoValue, RuntimeError>)
            ensures
                ok_or_fault(old(self).st(), final(self).st(), r),
                r matches Ok(v) ==> old(self).st().handles.contains_key(lock_handle)
                    && *v == old(self).st().env.substate(old(self).st().handles[lock_handle]);
    }

    /// ASSUMED contracts of the two callees that walk the auth zone substates (not under contract
    /// here: they go through `impl Fn` closures and kernel substate reads).  Signatures identical
    /// to the real private functions of `impl Authorization`.
    impl Authorization {
        #[verifier::external_body]
        pub fn auth_zone_stack_matches_rule<
            Y: SystemObjectApi<RuntimeError> + KernelSubstateApi<L>,
            L: Default,
        >(
            auth_zone: &NodeId,
            resource_rule: &ResourceOrNonFungible,
            api: &mut Y,
        ) -> (ret: Result<bool, RuntimeError>)
            ensures
                ok_or_fault(old(api).st(), final(api).st(), ret),
                ret matches Ok(b) ==> b == req_sat(old(api).st().env, *auth_zone, *resource_rule),
        { unimplemented!() }

        #[verifier::external_body]
        pub fn auth_zone_stack_has_amount<
            Y: SystemObjectApi<RuntimeError> + KernelSubstateApi<L>,
            L: Default,
        >(
            auth_zone: &NodeId,
            resource: &ResourceAddress,
            amount: Decimal,
            api: &mut Y,
        ) -> (ret: Result<bool, RuntimeError>)
            ensures
                ok_or_fault(old(api).st(), final(api).st(), ret),
                ret matches Ok(b) ==> b == old(api).st().env.shows_amount(*auth_zone, *resource, amount),
        { unimplemented!() }
    }

    // ---- the global-caller badge ---------------------------------------------------------------------
    /// ghost: the non-fungible id `hash(scrypto_encode(global_caller))` under GLOBAL_CALLER_RESOURCE
    pub uninterp spec fn global_caller_badge_spec(g: GlobalCaller) -> NonFungibleGlobalId;
    impl NonFungibleGlobalId {
        /// radix-common NonFungibleGlobalId::global_caller_badge (hashing + encoding: not under contract)
        #[verifier::external_body]
        pub fn global_caller_badge<T: Into<GlobalCaller>>(global_caller: T) -> (ret: Self)
            ensures exists|g: GlobalCaller| call_ensures(T::into, (global_caller,), g) && ret == global_caller_badge_spec(g)
        { unimplemented!() }
    }

    // vstd's specification of `From::from` is parameterised by FromSpecImpl; the conversions below
    // carry their own `ensures` instead
    impl<T: Into<GlobalAddress>> FromSpecImpl<T> for GlobalCaller {
        open spec fn obeys_from_spec() -> bool { false }
        open spec fn from_spec(v: T) -> Self { arbitrary() }
    }
    impl FromSpecImpl<ResourceOrNonFungible> for CompositeRequirement {
        open spec fn obeys_from_spec() -> bool { false }
        open spec fn from_spec(v: ResourceOrNonFungible) -> Self { arbitrary() }
    }
    impl FromSpecImpl<&str> for RoleKey {
        open spec fn obeys_from_spec() -> bool { false }
        open spec fn from_spec(v: &str) -> Self { arbitrary() }
    }

    // ---- role assignment substates ----------------------------------------------------------------------
    /// ghost: the SBOR bytes of a ModuleRoleKey are a function of its module and the characters of its key
    pub uninterp spec fn role_key_bytes(module: ModuleId, name: Seq<char>) -> Seq<u8>;
    /// ASSUMED: a ModuleRoleKey (an enum and a string, depth 2) always encodes
    impl ScryptoEncode for ModuleRoleKey {
        open spec fn sbor_bytes(&self) -> Result<Seq<u8>, EncodeError> { Ok(role_key_bytes(self.module, self.key.key@)) }
    }
    impl<V> ScryptoEncode for KeyValueEntrySubstate<V> {
        uninterp spec fn sbor_bytes(&self) -> Result<Seq<u8>, EncodeError>;
    }
    impl<V> Default for KeyValueEntrySubstate<V> {
        /*@fn radix-engine/src/system/system_substates.rs :: impl<V> Default for KeyValueEntrySubstate<V> :: fn default
        @*/
    }

    /// `RoleAssignmentAccessRuleEntryPayload` (generated by declare_native_blueprint_state!): a versioned
    /// wrapper around an AccessRule; `latest` is the content after upgrading to the latest version
    #[verifier::external_body]
    pub struct RoleAssignmentAccessRuleEntryPayload { _x: u8 }
    impl RoleAssignmentAccessRuleEntryPayload {
        pub uninterp spec fn latest(self) -> AccessRule;
        #[verifier::external_body]
        pub fn fully_update_and_into_latest_version(self) -> (r: AccessRule) ensures r == self.latest()
        { unimplemented!() }
    }
    /// `RoleAssignmentOwnerFieldPayload`: a versioned wrapper around an OwnerRoleSubstate
    #[verifier::external_body]
    pub struct RoleAssignmentOwnerFieldPayload { _x: u8 }
    impl RoleAssignmentOwnerFieldPayload {
        pub uninterp spec fn latest(self) -> OwnerRoleSubstate;
        #[verifier::external_body]
        pub fn fully_update_and_into_latest_version(self) -> (r: OwnerRoleSubstate) ensures r == self.latest()
        { unimplemented!() }
    }
    // derived Clone of the key (String inside): std-generated, not under contract
    impl Clone for RoleKey {
        #[verifier::external_body]
        fn clone(&self) -> (r: Self) ensures r == *self { unimplemented!() }
    }
}

pub mod unit {
    use vstd::prelude::*;
    use super::rt::*;
    use super::string_convert::*;
    use super::auth_env::*;
    use super::auth_env::Decimal;
    use super::env::*;

    // ---- rule types ------------------------------------------------------------------------------
    /*@item radix-engine-interface/src/blueprints/resource/proof_rule.rs :: enum ResourceOrNonFungible
    @derive Clone
    @*/
    /*@item radix-engine-interface/src/blueprints/resource/proof_rule.rs :: enum BasicRequirement
    @derive Clone
    @*/
    /*@item radix-engine-interface/src/blueprints/resource/proof_rule.rs :: enum CompositeRequirement
    @derive
    @*/
    /*@item radix-engine-interface/src/blueprints/resource/proof_rule.rs :: enum AccessRule
    @derive Clone
    @*/
    /*@item radix-engine/src/system/system_modules/auth/authorization.rs :: struct Authorization
    @derive
    @*/
    /*@item radix-engine/src/system/system_modules/auth/auth_module.rs :: enum AuthorizationCheckResult
    @derive
    @*/
    /*@item radix-engine/src/system/system_modules/auth/auth_module.rs :: enum AuthorityListAuthorizationResult
    @derive
    @*/
    /*@item radix-common/src/types/non_fungible_global_id.rs :: enum GlobalCaller
    @derive
    @*/
    // ---- roles -----------------------------------------------------------------------------------
    /*@item radix-engine-interface/src/blueprints/resource/role_assignment.rs :: const SELF_ROLE
    @subst <<&str>> => <<&'static str>> why: Verus turns a const into a function and cannot elide the lifetime; `&str` in a const item IS `&'static str`
    @*/
    /*@item radix-engine-interface/src/api/object_api.rs :: enum ModuleId
    @derive Clone, Copy
    @*/
    /*@item radix-engine-interface/src/blueprints/resource/role_assignment.rs :: struct RoleKey
    @derive
    @*/
    /*@item radix-engine-interface/src/blueprints/resource/role_assignment.rs :: struct ModuleRoleKey
    @derive
    @*/
    /*@item radix-engine-interface/src/blueprints/resource/role_assignment.rs :: struct RoleList
    @derive
    @*/
    /*@item radix-engine-interface/src/blueprints/resource/role_assignment.rs :: enum OwnerRoleUpdater
    @derive Clone, Copy
    @*/
    /*@item radix-engine-interface/src/blueprints/resource/role_assignment.rs :: struct OwnerRoleEntry
    @derive
    @*/
    /*@item radix-engine/src/object_modules/role_assignment/substates.rs :: struct OwnerRoleSubstate
    @derive
    @*/
    // ---- substates -------------------------------------------------------------------------------
    /*@item radix-common/src/types/node_and_substate.rs :: struct PartitionNumber
    @derive Clone, Copy
    @*/
    /*@item radix-common/src/types/node_and_substate.rs :: struct PartitionOffset
    @derive Clone, Copy
    @*/
    /*@item radix-common/src/types/node_and_substate.rs :: type FieldKey
    @*/
    /*@item radix-common/src/types/node_and_substate.rs :: type MapKey
    @*/
    /*@item radix-common/src/types/node_and_substate.rs :: type SortedKey
    @*/
    /*@item radix-common/src/types/node_and_substate.rs :: enum SubstateKey
    @derive
    @*/
    /*@item radix-engine-interface/src/types/node_layout.rs :: const ROLE_ASSIGNMENT_BASE_PARTITION
    @*/
    /*@item radix-engine-interface/src/types/node_layout.rs :: const ROLE_ASSIGNMENT_FIELDS_PARTITION_OFFSET
    @*/
    /*@item radix-engine-interface/src/types/node_layout.rs :: const ROLE_ASSIGNMENT_ROLE_DEF_PARTITION_OFFSET
    @*/
    /*@item radix-engine/src/system/system_substates.rs :: enum LockStatus
    @derive Clone, Copy
    @*/
    /*@item radix-engine/src/system/system_substates.rs :: struct FieldSubstateV1
    @derive
    @*/
    /*@item radix-engine/src/system/system_substates.rs :: enum FieldSubstate
    @derive
    @*/
    /*@item radix-engine/src/system/system_substates.rs :: struct KeyValueEntrySubstateV1
    @derive
    @*/
    /*@item radix-engine/src/system/system_substates.rs :: enum KeyValueEntrySubstate
    @derive
    @*/

    // ==========================================================================================
    // ORACLE -- written from the documented semantics of the rule constructors
    // ==========================================================================================
    /// what the auth zone stack reachable from `zone` can show for one resource / non-fungible
    pub open spec fn req_sat(env: AuthEnv, zone: NodeId, r: ResourceOrNonFungible) -> bool {
        match r {
            ResourceOrNonFungible::NonFungible(id) => env.shows_non_fungible(zone, id),
            ResourceOrNonFungible::Resource(a) => env.shows_resource(zone, a),
        }
    }
    /// number of positions i < n of the list whose requirement is met
    pub open spec fn count_upto(env: AuthEnv, zone: NodeId, rs: Seq<ResourceOrNonFungible>, n: int) -> nat
        decreases n
    {
        if n <= 0 { 0 } else {
            count_upto(env, zone, rs, n - 1) + if req_sat(env, zone, rs[n - 1]) { 1nat } else { 0nat }
        }
    }
    pub open spec fn basic_sat(env: AuthEnv, zone: NodeId, rule: BasicRequirement) -> bool {
        match rule {
            BasicRequirement::Require(r) => req_sat(env, zone, r),
            BasicRequirement::AmountOf(amount, res) => env.shows_amount(zone, res, amount),
            BasicRequirement::CountOf(c, rs) => c == 0 || count_upto(env, zone, rs@, rs@.len() as int) >= c,
            BasicRequirement::AllOf(rs) => forall|i: int| 0 <= i < rs@.len() ==> req_sat(env, zone, #[trigger] rs@[i]),
            BasicRequirement::AnyOf(rs) => exists|i: int| 0 <= i < rs@.len() && req_sat(env, zone, #[trigger] rs@[i]),
        }
    }
    pub open spec fn sat(env: AuthEnv, zone: NodeId, rule: CompositeRequirement) -> bool
        decreases rule
    {
        match rule {
            CompositeRequirement::BasicRequirement(b) => basic_sat(env, zone, b),
            CompositeRequirement::AnyOf(rules) => exists|i: int| 0 <= i < rules@.len() && sat(env, zone, #[trigger] rules@[i]),
            CompositeRequirement::AllOf(rules) => forall|i: int| 0 <= i < rules@.len() ==> sat(env, zone, #[trigger] rules@[i]),
        }
    }
    pub open spec fn access_sat(env: AuthEnv, zone: NodeId, rule: AccessRule) -> bool {
        match rule {
            AccessRule::AllowAll => true,
            AccessRule::DenyAll => false,
            AccessRule::Protected(r) => sat(env, zone, r),
        }
    }

    // ---- which rule protects a role (owner fallback, self role) --------------------------------
    /// the global-caller rule: `require(global_caller(address))`
    pub open spec fn self_rule(addr: GlobalAddress) -> AccessRule {
        AccessRule::Protected(CompositeRequirement::BasicRequirement(BasicRequirement::Require(
            ResourceOrNonFungible::NonFungible(global_caller_badge_spec(GlobalCaller::GlobalObject(addr))))))
    }
    /// role definitions live in partition 6 (= base 5 + offset 1) of the object, keyed by the encoded ModuleRoleKey
    pub open spec fn role_def_loc(addr: GlobalAddress, module: ModuleId, name: Seq<char>) -> Loc {
        Loc { node: addr.0, partition: 6, key: SubKey::Map(role_key_bytes(module, name)) }
    }
    /// the owner role is field 0 of partition 5 (= base 5 + offset 0)
    pub open spec fn owner_loc(addr: GlobalAddress) -> Loc {
        Loc { node: addr.0, partition: 5, key: SubKey::Field(0) }
    }
    pub open spec fn role_entry(env: AuthEnv, addr: GlobalAddress, module: ModuleId, name: Seq<char>)
        -> Result<KeyValueEntrySubstate<RoleAssignmentAccessRuleEntryPayload>, DecodeError> {
        env.substate(role_def_loc(addr, module, name)).typed::<KeyValueEntrySubstate<RoleAssignmentAccessRuleEntryPayload>>()
    }
    pub open spec fn owner_field(env: AuthEnv, addr: GlobalAddress)
        -> Result<FieldSubstate<RoleAssignmentOwnerFieldPayload>, DecodeError> {
        env.substate(owner_loc(addr)).typed::<FieldSubstate<RoleAssignmentOwnerFieldPayload>>()
    }
    pub open spec fn owner_rule(env: AuthEnv, addr: GlobalAddress) -> AccessRule {
        owner_field(env, addr)->Ok_0->V1_0.payload.latest().owner_role_entry.rule
    }
    /// the documented reserved role name of the object itself
    pub open spec fn self_role_name() -> Seq<char> { "_self_"@ }
    /// "_self_" => the global-caller rule of the object itself; otherwise the role's entry if one is
    /// present, else the owner rule
    pub open spec fn applicable_rule(env: AuthEnv, addr: GlobalAddress, module: ModuleId, name: Seq<char>) -> AccessRule {
        if name == self_role_name() {
            self_rule(addr)
        } else {
            match role_entry(env, addr, module, name)->Ok_0->V1_0.value {
                Some(p) => p.latest(),
                None => owner_rule(env, addr),
            }
        }
    }
    /// ASSUMPTION used as precondition: the role-assignment substates that get read are schema-valid
    /// (decode to their declared payload types) -- enforced by the system layer on every write
    pub open spec fn role_substates_well_typed(env: AuthEnv, addr: GlobalAddress, module: ModuleId, name: Seq<char>) -> bool {
        name != self_role_name() ==> (
            role_entry(env, addr, module, name) is Ok
            && (role_entry(env, addr, module, name)->Ok_0->V1_0.value is None ==> owner_field(env, addr) is Ok))
    }

    // ---- lemmas ------------------------------------------------------------------------------
    pub proof fn lemma_count_mono(env: AuthEnv, zone: NodeId, rs: Seq<ResourceOrNonFungible>, a: int, b: int)
        requires a <= b
        ensures count_upto(env, zone, rs, a) <= count_upto(env, zone, rs, b)
        decreases b - a
    {
        if a < b {
            lemma_count_mono(env, zone, rs, a, b - 1);
        }
    }
    pub proof fn lemma_any_of(env: AuthEnv, zone: NodeId, rule: CompositeRequirement, k: int)
        requires rule is AnyOf, 0 <= k < rule->AnyOf_0@.len(), sat(env, zone, rule->AnyOf_0@[k])
        ensures sat(env, zone, rule)
    {
        let rules = rule->AnyOf_0;
        assert(decreases_to!(rule => rules@[k]));
    }
    pub proof fn lemma_not_all_of(env: AuthEnv, zone: NodeId, rule: CompositeRequirement, k: int)
        requires rule is AllOf, 0 <= k < rule->AllOf_0@.len(), !sat(env, zone, rule->AllOf_0@[k])
        ensures !sat(env, zone, rule)
    {
        let rules = rule->AllOf_0;
        assert(decreases_to!(rule => rules@[k]));
    }

    // ---- conversions and constructors the self-role rule and the role key are built from ------
    impl<T> From<T> for GlobalCaller
    where
        T: Into<GlobalAddress>,
    {
        /*@fn radix-common/src/types/non_fungible_global_id.rs :: impl<T> From<T> for GlobalCaller :: fn from
        @sig
            ensures exists|a: GlobalAddress| call_ensures(T::into, (value,), a) && ret == GlobalCaller::GlobalObject(a)
        @*/
    }
    impl From<ResourceOrNonFungible> for CompositeRequirement {
        /*@fn radix-engine-interface/src/blueprints/resource/proof_rule.rs :: impl From<ResourceOrNonFungible> for CompositeRequirement :: fn from
        @sig
            ensures ret == CompositeRequirement::BasicRequirement(BasicRequirement::Require(resource_or_non_fungible))
        @*/
    }
    /*@fn radix-engine-interface/src/blueprints/resource/proof_rule.rs :: fn global_caller
    @subst <<global_caller: impl>> => <<caller: impl>> x1 why: Verus resolves the function's own name inside its contract; a parameter of the same name shadows it (E0618). Parameter renamed (declaration).
    @subst <<global_caller_badge(global_caller)>> => <<global_caller_badge(caller)>> x1 why: the single use of the renamed parameter
    @sig
        ensures exists|g: GlobalCaller| call_ensures(<_ as Into<GlobalCaller>>::into, (caller,), g)
            && ret == ResourceOrNonFungible::NonFungible(global_caller_badge_spec(g))
    @*/
    /*@fn radix-engine-interface/src/blueprints/resource/proof_rule.rs :: fn require
    @sig
        ensures call_ensures(T::into, (required,), ret)
    @*/
    impl PartitionNumber {
        /*@fn radix-common/src/types/node_and_substate.rs :: impl PartitionNumber :: fn at_offset
        @sig
            ensures self.0 + offset.0 <= 255 ==> ret == Some(PartitionNumber((self.0 + offset.0) as u8)),
                    self.0 + offset.0 > 255 ==> ret is None,
        @*/
    }
    impl From<&str> for RoleKey {
        /*@fn radix-engine-interface/src/blueprints/resource/role_assignment.rs :: impl From<&str> for RoleKey :: fn from
        @sig
            ensures ret.key@ == s@
        @*/
    }
    impl RoleKey {
        /*@fn radix-engine-interface/src/blueprints/resource/role_assignment.rs :: impl RoleKey :: fn new
        @sig
            ensures call_ensures(S::into, (key,), ret.key)
        @*/
    }
    impl ModuleRoleKey {
        /*@fn radix-engine-interface/src/blueprints/resource/role_assignment.rs :: impl ModuleRoleKey :: fn new
        @sig
            ensures ret.module == module, call_ensures(K::into, (key,), ret.key)
        @*/
    }
    impl<V> KeyValueEntrySubstate<V> {
        /*@fn radix-engine/src/system/system_substates.rs :: impl<V> KeyValueEntrySubstate<V> :: fn into_value
        @sig
            ensures ret == self->V1_0.value
        @*/
    }
    impl<V> FieldSubstate<V> {
        /*@fn radix-engine/src/system/system_substates.rs :: impl<V> FieldSubstate<V> :: fn into_payload
        @sig
            ensures ret == self->V1_0.payload
        @*/
    }

    impl Authorization {
        /*@fn radix-engine/src/system/system_modules/auth/authorization.rs :: impl Authorization :: fn verify_proof_rule
        @sig
            ensures
                ok_or_fault(old(api).st(), final(api).st(), ret),
                ret matches Ok(b) ==> b == basic_sat(old(api).st().env, *auth_zone, *requirement_rule),
        @loop 1 iter it
            invariant
                api.st() == old(api).st(),
                *requirement_rule is AllOf, requirement_rule->AllOf_0 == *resources,
                forall|i: int| 0 <= i < it.index@ ==> req_sat(old(api).st().env, *auth_zone, #[trigger] resources@[i]),
        @loop 2 iter it
            invariant
                api.st() == old(api).st(),
                *requirement_rule is AnyOf, requirement_rule->AnyOf_0 == *resources,
                forall|i: int| 0 <= i < it.index@ ==> !req_sat(old(api).st().env, *auth_zone, #[trigger] resources@[i]),
        @loop 3 iter it
            invariant
                api.st() == old(api).st(),
                *requirement_rule is CountOf, requirement_rule->CountOf_0 == *count, requirement_rule->CountOf_1 == *resources,
                left >= 1,
                left as nat + count_upto(old(api).st().env, *auth_zone, resources@, it.index@ as int) == *count as nat,
        @before <<left -=>> #1
            proof { lemma_count_mono(old(api).st().env, *auth_zone, resources@, it.index@ + 1, resources@.len() as int); }
        @*/

        /*@fn radix-engine/src/system/system_modules/auth/authorization.rs :: impl Authorization :: fn verify_auth_rule
        @sig
            ensures
                ok_or_fault(old(api).st(), final(api).st(), ret),
                ret matches Ok(res) ==> (res is Authorized <==> sat(old(api).st().env, *auth_zone, *requirement_rule)),
            decreases requirement_rule
        @loop 1 iter it
            invariant
                api.st() == old(api).st(),
                *requirement_rule is AnyOf, requirement_rule->AnyOf_0 == *rules,
                forall|i: int| 0 <= i < it.index@ ==> !sat(old(api).st().env, *auth_zone, #[trigger] rules@[i]),
        @after <<Self::verify_auth_rule(auth_zone, r, api)?>> #1
            proof { if rtn is Authorized { lemma_any_of(old(api).st().env, *auth_zone, *requirement_rule, it.index@ as int); } }
        @loop 2 iter it
            invariant
                api.st() == old(api).st(),
                *requirement_rule is AllOf, requirement_rule->AllOf_0 == *rules,
                forall|i: int| 0 <= i < it.index@ ==> sat(old(api).st().env, *auth_zone, #[trigger] rules@[i]),
        @after <<Self::verify_auth_rule(auth_zone, r, api)?>> #2
            proof { if !(rtn is Authorized) { lemma_not_all_of(old(api).st().env, *auth_zone, *requirement_rule, it.index@ as int); } }
        @*/

        /*@fn radix-engine/src/system/system_modules/auth/authorization.rs :: impl Authorization :: fn check_authorization_against_access_rule
        @sig
            ensures
                ok_or_fault(old(api).st(), final(api).st(), ret),
                ret matches Ok(res) ==> (res is Authorized <==> access_sat(old(api).st().env, *auth_zone, *rule)),
        @*/

        /*@fn radix-engine/src/system/system_modules/auth/authorization.rs :: impl Authorization :: fn check_authorization_against_role_key_internal
        @sig
            requires
                role_substates_well_typed(old(api).st().env, *role_assignment_of, key.module, key.key.key@),
            ensures
                ok_or_fault(old(api).st(), final(api).st(), ret),
                ret matches Ok(res) ==> (res is Authorized <==> access_sat(old(api).st().env, *auth_zone,
                    applicable_rule(old(api).st().env, *role_assignment_of, key.module, key.key.key@))),
        @before <<substate.into_value()>> #1
            proof { assert(api.st().handles =~= old(api).st().handles); }
        @before <<.into_payload()>> #1
            proof { assert(api.st().handles =~= old(api).st().handles); }
        @*/

        /*@fn radix-engine/src/system/system_modules/auth/authorization.rs :: impl Authorization :: fn check_authorization_against_role_list
        @sig
            requires
                forall|i: int| 0 <= i < role_list.list@.len() ==>
                    role_substates_well_typed(old(api).st().env, *role_assignment_of, module, (#[trigger] role_list.list@[i]).key@),
            ensures
                ok_or_fault(old(api).st(), final(api).st(), ret),
                ret matches Ok(res) ==> (res is Authorized <==> exists|i: int| 0 <= i < role_list.list@.len()
                    && access_sat(old(api).st().env, *auth_zone,
                        applicable_rule(old(api).st().env, *role_assignment_of, module, (#[trigger] role_list.list@[i]).key@))),
        @loop 1 iter it
            invariant
                api.st() == old(api).st(),
                forall|i: int| 0 <= i < role_list.list@.len() ==>
                    role_substates_well_typed(old(api).st().env, *role_assignment_of, module, (#[trigger] role_list.list@[i]).key@),
                forall|i: int| 0 <= i < it.index@ ==> !access_sat(old(api).st().env, *auth_zone,
                        applicable_rule(old(api).st().env, *role_assignment_of, module, (#[trigger] role_list.list@[i]).key@)),
        @*/
    }
}
} // verus!
fn main() {}
