// Unit c08_authorization -- property C08 "Protected calls succeed exactly when the access rule is satisfied"
// Real code: radix-engine/src/system/system_modules/auth/authorization.rs
//   Authorization::{verify_proof_rule, verify_auth_rule, check_authorization_against_access_rule}
// Rule types extracted from radix-engine-interface/src/blueprints/resource/proof_rule.rs.
use vstd::prelude::*;
verus! {
/*@include shims/rt.rs @*/
/*@include shims/auth_env.rs @*/

pub mod env {
    use vstd::prelude::*;
    use super::unit::*;
    // `#[derive(Clone)]` on the recursive enum is rejected by Verus (cyclic trait dependency
    // through Vec<Self>); the derived impl is std-generated code, not under contract.
    impl Clone for CompositeRequirement {
        #[verifier::external_body]
        fn clone(&self) -> (r: Self) ensures r == *self { unimplemented!() }
    }
}

pub mod unit {
    use vstd::prelude::*;
    use super::rt::*;
    use super::auth_env::*;
    use super::auth_env::Decimal;

    /*@item radix-engine-interface/src/blueprints/resource/proof_rule.rs :: enum ResourceOrNonFungible
    @derive Clone
    @*/
    /*@item radix-engine-interface/src/blueprints/resource/proof_rule.rs :: enum BasicRequirement
    @derive Clone
    @*/
    /*@item radix-engine-interface/src/blueprints/resource/proof_rule.rs :: enum CompositeRequirement
    @derive
    @*/
    /*@item radix-engine-interface/src/blueprints/resource/proof_rule.rs :: enum AccessRule
    @derive Clone
    @*/
    /*@item radix-engine/src/system/system_modules/auth/authorization.rs :: struct Authorization
    @derive
    @*/
    /*@item radix-engine/src/system/system_modules/auth/auth_module.rs :: enum AuthorizationCheckResult
    @derive
    @*/

    // ==========================================================================================
    // ORACLE -- written from the documented semantics of the rule constructors
    // ==========================================================================================
    /// what the auth zone stack reachable from `zone` can show for one resource / non-fungible
    pub open spec fn req_sat(env: AuthEnv, zone: NodeId, r: ResourceOrNonFungible) -> bool {
        match r {
            ResourceOrNonFungible::NonFungible(id) => env.shows_non_fungible(zone, id),
            ResourceOrNonFungible::Resource(a) => env.shows_resource(zone, a),
        }
    }
    /// number of positions i < n of the list whose requirement is met
    pub open spec fn count_upto(env: AuthEnv, zone: NodeId, rs: Seq<ResourceOrNonFungible>, n: int) -> nat
        decreases n
    {
        if n <= 0 { 0 } else {
            count_upto(env, zone, rs, n - 1) + if req_sat(env, zone, rs[n - 1]) { 1nat } else { 0nat }
        }
    }
    pub open spec fn basic_sat(env: AuthEnv, zone: NodeId, rule: BasicRequirement) -> bool {
        match rule {
            BasicRequirement::Require(r) => req_sat(env, zone, r),
            BasicRequirement::AmountOf(amount, res) => env.shows_amount(zone, res, amount),
            BasicRequirement::CountOf(c, rs) => c == 0 || count_upto(env, zone, rs@, rs@.len() as int) >= c,
            BasicRequirement::AllOf(rs) => forall|i: int| 0 <= i < rs@.len() ==> req_sat(env, zone, #[trigger] rs@[i]),
            BasicRequirement::AnyOf(rs) => exists|i: int| 0 <= i < rs@.len() && req_sat(env, zone, #[trigger] rs@[i]),
        }
    }
    pub open spec fn sat(env: AuthEnv, zone: NodeId, rule: CompositeRequirement) -> bool
        decreases rule
    {
        match rule {
            CompositeRequirement::BasicRequirement(b) => basic_sat(env, zone, b),
            CompositeRequirement::AnyOf(rules) => exists|i: int| 0 <= i < rules@.len() && sat(env, zone, #[trigger] rules@[i]),
            CompositeRequirement::AllOf(rules) => forall|i: int| 0 <= i < rules@.len() ==> sat(env, zone, #[trigger] rules@[i]),
        }
    }
    pub open spec fn access_sat(env: AuthEnv, zone: NodeId, rule: AccessRule) -> bool {
        match rule {
            AccessRule::AllowAll => true,
            AccessRule::DenyAll => false,
            AccessRule::Protected(r) => sat(env, zone, r),
        }
    }

    // ---- lemmas ------------------------------------------------------------------------------
    pub proof fn lemma_count_mono(env: AuthEnv, zone: NodeId, rs: Seq<ResourceOrNonFungible>, a: int, b: int)
        requires a <= b
        ensures count_upto(env, zone, rs, a) <= count_upto(env, zone, rs, b)
        decreases b - a
    {
        if a < b {
            lemma_count_mono(env, zone, rs, a, b - 1);
            if b <= 0 { } else { }
        }
    }
    pub proof fn lemma_any_of(env: AuthEnv, zone: NodeId, rule: CompositeRequirement, k: int)
        requires rule is AnyOf, 0 <= k < rule->AnyOf_0@.len(), sat(env, zone, rule->AnyOf_0@[k])
        ensures sat(env, zone, rule)
    {
        let rules = rule->AnyOf_0;
        assert(decreases_to!(rule => rules@[k]));
    }
    pub proof fn lemma_none_of(env: AuthEnv, zone: NodeId, rule: CompositeRequirement)
        requires rule is AnyOf, forall|i: int| 0 <= i < rule->AnyOf_0@.len() ==> !sat(env, zone, #[trigger] rule->AnyOf_0@[i])
        ensures !sat(env, zone, rule)
    {
    }
    pub proof fn lemma_all_of(env: AuthEnv, zone: NodeId, rule: CompositeRequirement)
        requires rule is AllOf, forall|i: int| 0 <= i < rule->AllOf_0@.len() ==> sat(env, zone, #[trigger] rule->AllOf_0@[i])
        ensures sat(env, zone, rule)
    {
    }
    pub proof fn lemma_not_all_of(env: AuthEnv, zone: NodeId, rule: CompositeRequirement, k: int)
        requires rule is AllOf, 0 <= k < rule->AllOf_0@.len(), !sat(env, zone, rule->AllOf_0@[k])
        ensures !sat(env, zone, rule)
    {
        let rules = rule->AllOf_0;
        assert(decreases_to!(rule => rules@[k]));
    }

    /// ASSUMED contracts of the two callees that walk the auth zone substates (not under contract
    /// here: they go through `impl Fn` closures and kernel substate reads).  Signatures identical
    /// to the real private functions of `impl Authorization`.
    impl Authorization {
        #[verifier::external_body]
        pub fn auth_zone_stack_matches_rule<
            Y: SystemObjectApi<RuntimeError> + KernelSubstateApi<L>,
            L: Default,
        >(
            auth_zone: &NodeId,
            resource_rule: &ResourceOrNonFungible,
            api: &mut Y,
        ) -> (ret: Result<bool, RuntimeError>)
            ensures
                ret matches Ok(b) ==> b == req_sat(old(api).env(), *auth_zone, *resource_rule),
                final(api).env() == old(api).env(),
        { unimplemented!() }

        #[verifier::external_body]
        pub fn auth_zone_stack_has_amount<
            Y: SystemObjectApi<RuntimeError> + KernelSubstateApi<L>,
            L: Default,
        >(
            auth_zone: &NodeId,
            resource: &ResourceAddress,
            amount: Decimal,
            api: &mut Y,
        ) -> (ret: Result<bool, RuntimeError>)
            ensures
                ret matches Ok(b) ==> b == old(api).env().shows_amount(*auth_zone, *resource, amount),
                final(api).env() == old(api).env(),
        { unimplemented!() }
    }

    impl Authorization {
        /*@fn radix-engine/src/system/system_modules/auth/authorization.rs :: impl Authorization :: fn verify_proof_rule
        @sig
            ensures
                ret matches Ok(b) ==> b == basic_sat(old(api).env(), *auth_zone, *requirement_rule),
                final(api).env() == old(api).env(),
        @loop 1 iter it
            invariant
                api.env() == old(api).env(),
                *requirement_rule is AllOf, requirement_rule->AllOf_0 == *resources,
                forall|i: int| 0 <= i < it.index@ ==> req_sat(old(api).env(), *auth_zone, #[trigger] resources@[i]),
        @loop 2 iter it
            invariant
                api.env() == old(api).env(),
                *requirement_rule is AnyOf, requirement_rule->AnyOf_0 == *resources,
                forall|i: int| 0 <= i < it.index@ ==> !req_sat(old(api).env(), *auth_zone, #[trigger] resources@[i]),
        @loop 3 iter it
            invariant
                api.env() == old(api).env(),
                *requirement_rule is CountOf, requirement_rule->CountOf_0 == *count, requirement_rule->CountOf_1 == *resources,
                left >= 1,
                left as nat + count_upto(old(api).env(), *auth_zone, resources@, it.index@ as int) == *count as nat,
        @before <<left -= 1>> #1
            proof { lemma_count_mono(old(api).env(), *auth_zone, resources@, it.index@ + 1, resources@.len() as int); }
        @*/

        /*@fn radix-engine/src/system/system_modules/auth/authorization.rs :: impl Authorization :: fn verify_auth_rule
        @sig
            ensures
                ret matches Ok(res) ==> (res is Authorized <==> sat(old(api).env(), *auth_zone, *requirement_rule)),
                final(api).env() == old(api).env(),
            decreases requirement_rule
        @loop 1 iter it
            invariant
                api.env() == old(api).env(),
                *requirement_rule is AnyOf, requirement_rule->AnyOf_0 == *rules,
                forall|i: int| 0 <= i < it.index@ ==> !sat(old(api).env(), *auth_zone, #[trigger] rules@[i]),
        @after <<Self::verify_auth_rule(auth_zone, r, api)?>> #1
            proof { if rtn is Authorized { lemma_any_of(old(api).env(), *auth_zone, *requirement_rule, it.index@ as int); } }
        @loop 2 iter it
            invariant
                api.env() == old(api).env(),
                *requirement_rule is AllOf, requirement_rule->AllOf_0 == *rules,
                forall|i: int| 0 <= i < it.index@ ==> sat(old(api).env(), *auth_zone, #[trigger] rules@[i]),
        @after <<Self::verify_auth_rule(auth_zone, r, api)?>> #2
            proof { if !(rtn is Authorized) { lemma_not_all_of(old(api).env(), *auth_zone, *requirement_rule, it.index@ as int); } }
        @*/

        /*@fn radix-engine/src/system/system_modules/auth/authorization.rs :: impl Authorization :: fn check_authorization_against_access_rule
        @sig
            ensures
                ret matches Ok(res) ==> (res is Authorized <==> access_sat(old(api).env(), *auth_zone, *rule)),
                final(api).env() == old(api).env(),
        @*/
    }
}
} // verus!
fn main() {}
