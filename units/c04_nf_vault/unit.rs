// Unit c04_nf_vault -- property C04, clause "every non-fungible vault's count equals the number of ids it holds"
// (and no id is in two places of the same vault).
// Real code: radix-engine/src/blueprints/resource/non_fungible/non_fungible_vault.rs :: NonFungibleVaultBlueprint ::
//     {internal_put, internal_take_non_fungibles, internal_take_by_amount, unlock_non_fungibles, lock_non_fungibles,
//      liquid_amount, locked_amount, get_amount, assert_not_frozen, assert_recallable, take, take_advanced,
//      take_non_fungibles, put, recall, recall_non_fungibles}
//   radix-engine/src/blueprints/resource/non_fungible/non_fungible_resource_manager.rs :: create_bucket
//   radix-engine/src/blueprints/resource/bucket_common.rs :: drop_non_fungible_bucket
//   radix-engine-interface/src/blueprints/resource/resource.rs :: LiquidNonFungibleResource::{new, ids, into_ids,
//     is_empty}, LockedNonFungibleResource::{amount, is_locked, default}
// run against a ghost model of the SystemApi (env::SystemApi): the fields of the acting vault
//     field 0 = Balance        (LiquidNonFungibleVault { amount })            -- the COUNTER
//     field 1 = LockedResource (LockedNonFungibleResource { ids: id -> number of live proofs })
// its open field handles, the NonFungibleIndex collection (the set of ids held liquid), the outer resource's features,
// the live bucket objects of the call frame and the event log.
// INVARIANT (from the property, not from the code):
//     inv(s) :=  amount == |index| * 10^18  &&  index and keys(locked) are disjoint  &&  every lock count >= 1
// "held ids" := index U keys(locked).
use vstd::prelude::*;
// radix-rust `indexmap!{ k => v, .. }` (radix-rust/src/rust.rs): a fresh IndexMap, the pairs inserted in order
macro_rules! indexmap {
    ($($key:expr => $value:expr),* $(,)?) => ({
        let mut temp = index_map_new();
        $( temp.insert($key, $value); )*
        temp
    });
}
verus! {
/*@include shims/rt.rs @*/
/*@include shims/decimal.rs @*/
/*@include shims/maps.rs @*/
/*@include shims/sets.rs @*/

pub mod env {
    use vstd::prelude::*;
    use super::decimal::*;
    use super::decimal::Decimal;
    use super::maps::IndexMap;
    use super::sets::*;
    use super::unit::{VaultError, NonFungibleVaultError, BucketError, DroppedNonFungibleBucket, VaultFrozenFlag, WithdrawStrategy};

    // ================================================================================ nodes ==
    /// radix-common/src/types/node_id.rs
    #[derive(Clone, Copy, PartialEq, Eq)]
    pub struct NodeId(pub [u8; 30]);
    /// radix-common/src/data/scrypto/model/own.rs
    #[derive(Clone, Copy, PartialEq, Eq)]
    pub struct Own(pub NodeId);
    impl Own {
        pub fn as_node_id(&self) -> (r: &NodeId) ensures *r == self.0 { &self.0 }
    }

    // ================================================================================ ids / errors ==
    /// radix-common NonFungibleLocalId: opaque.  `scrypto_encode` of an id is ASSUMED injective (`id_of_key` is
    /// the decoder): two ids are the same index entry iff they are equal.
    #[verifier::external_body]
    pub struct NonFungibleLocalId { _p: Vec<u8> }
    pub uninterp spec fn id_of_key(key: Seq<u8>) -> NonFungibleLocalId;
    /// `Clone` of the id returns an equal id (derived Clone on plain data)
    impl Clone for NonFungibleLocalId {
        #[verifier::external_body]
        fn clone(&self) -> (r: Self) ensures r == *self { unimplemented!() }
    }
    pub type Id = NonFungibleLocalId;
    /// sbor EncodeError: opaque
    pub struct EncodeError;
    #[verifier::external]
    impl core::fmt::Debug for EncodeError {
        fn fmt(&self, f: &mut core::fmt::Formatter<'_>) -> core::fmt::Result { f.write_str("EncodeError") }
    }
    /// radix-common scrypto_encode of an id: always succeeds (ids are bounded plain data); the bytes decode back
    #[verifier::external_body]
    pub fn scrypto_encode(value: &NonFungibleLocalId) -> (r: Result<Vec<u8>, EncodeError>)
        ensures r matches Ok(b) && id_of_key(b@) == *value
    { unimplemented!() }

    pub struct ProofError;
    /// radix-engine/src/errors.rs :: error_models::OwnedNodeId (a display wrapper around NodeId)
    pub mod error_models {
        use vstd::prelude::*;
        pub struct OwnedNodeId(pub super::NodeId);
        impl From<super::NodeId> for OwnedNodeId {
            fn from(n: super::NodeId) -> (r: OwnedNodeId) ensures r.0 == n { OwnedNodeId(n) }
        }
        impl vstd::std_specs::convert::FromSpecImpl<super::NodeId> for OwnedNodeId {
            open spec fn obeys_from_spec() -> bool { true }
            open spec fn from_spec(n: super::NodeId) -> OwnedNodeId { OwnedNodeId(n) }
        }
    }
    /// RuntimeError / ApplicationError (radix-engine/src/errors.rs) reduced to what is built here;
    /// `Environment` stands for every error that only the system API itself can raise.
    pub enum ApplicationError { VaultError(VaultError), NonFungibleVaultError(NonFungibleVaultError), BucketError(BucketError), Other }
    pub enum RuntimeError { ApplicationError(ApplicationError), Environment }
    /// ASSUMED: the system API itself fails with kernel / system / module errors only, never with a
    /// blueprint-level `RuntimeError::ApplicationError`.
    pub trait SystemApiError: Sized { spec fn is_application_error(&self) -> bool; }
    impl SystemApiError for RuntimeError {
        open spec fn is_application_error(&self) -> bool { *self is ApplicationError }
    }

    // ================================================================================ API types ==
    pub type FieldHandle = u32;
    pub type FieldIndex = u8;
    pub type CollectionIndex = u8;
    pub type ActorStateHandle = u32;
    /// radix-engine-interface/src/api/mod.rs
    pub const ACTOR_STATE_SELF: ActorStateHandle = 0u32;
    pub const ACTOR_STATE_OUTER_OBJECT: ActorStateHandle = 1u32;
    /// radix-engine-interface/src/api/field_api.rs (bitflags): MUTABLE = 0b0000_0001, read_only() = empty()
    pub struct LockFlags { pub bits: u32 }
    impl LockFlags {
        pub const MUTABLE: LockFlags = LockFlags { bits: 1 };
        pub fn read_only() -> (r: LockFlags) ensures r.bits == 0 { LockFlags { bits: 0 } }
    }
    pub open spec fn is_mutable(flags: LockFlags) -> bool { flags.bits == 1 }

    /// field numbers as generated by declare_native_blueprint_state! (declaration order:
    /// balance, locked_resource, freeze_status)
    pub enum NonFungibleVaultField { Balance, LockedResource, FreezeStatus }
    pub open spec fn I_BAL() -> FieldIndex { 0u8 }
    pub open spec fn I_LOCKED() -> FieldIndex { 1u8 }
    pub open spec fn I_FREEZE() -> FieldIndex { 2u8 }
    impl NonFungibleVaultField {
        /// `From<NonFungibleVaultField> for u8` (= discriminant)
        pub fn into(self) -> (r: u8)
            ensures r == (match self { NonFungibleVaultField::Balance => I_BAL(), NonFungibleVaultField::LockedResource => I_LOCKED(), NonFungibleVaultField::FreezeStatus => I_FREEZE() })
        { match self { NonFungibleVaultField::Balance => 0u8, NonFungibleVaultField::LockedResource => 1u8, NonFungibleVaultField::FreezeStatus => 2u8 } }
    }
    /// `collections: { non_fungibles: Index {..} }`: one collection, index 0
    pub enum NonFungibleVaultCollection { NonFungibleIndex }
    impl NonFungibleVaultCollection {
        pub fn collection_index(&self) -> (r: CollectionIndex) ensures r == 0u8 { 0u8 }
    }

    /// the non-fungible bucket: fields { liquid, locked }
    pub enum NonFungibleBucketField { Liquid, Locked }
    pub open spec fn B_LIQUID() -> FieldIndex { 0u8 }
    pub open spec fn B_LOCKED() -> FieldIndex { 1u8 }
    pub open spec fn bucket_idx(f: NonFungibleBucketField) -> FieldIndex {
        match f { NonFungibleBucketField::Liquid => B_LIQUID(), NonFungibleBucketField::Locked => B_LOCKED() }
    }
    impl From<NonFungibleBucketField> for u8 {
        fn from(f: NonFungibleBucketField) -> (r: u8) ensures r == bucket_idx(f)
        { match f { NonFungibleBucketField::Liquid => 0u8, NonFungibleBucketField::Locked => 1u8 } }
    }
    impl vstd::std_specs::convert::FromSpecImpl<NonFungibleBucketField> for u8 {
        open spec fn obeys_from_spec() -> bool { true }
        open spec fn from_spec(f: NonFungibleBucketField) -> u8 { bucket_idx(f) }
    }
    /// radix-engine-interface vault.rs `bitflags!{ struct VaultFreezeFlags: u32 { WITHDRAW = 1, DEPOSIT = 2, BURN = 4 } }`
    pub struct VaultFreezeFlags { pub bits: u32 }
    impl VaultFreezeFlags {
        pub const WITHDRAW: VaultFreezeFlags = VaultFreezeFlags { bits: 1 };
        pub const DEPOSIT: VaultFreezeFlags = VaultFreezeFlags { bits: 2 };
        pub const BURN: VaultFreezeFlags = VaultFreezeFlags { bits: 4 };
        /// bitflags `intersects`: some flag in common
        pub fn intersects(&self, other: VaultFreezeFlags) -> (r: bool) ensures r == ((self.bits & other.bits) != 0) { (self.bits & other.bits) != 0 }
    }
    /// the `features:` of the OUTER object (the non-fungible resource manager).  `feature_name()` is
    /// `stringify!(<property name>)`: five distinct strings, so the name determines the feature (`feature_of`).
    pub enum NonFungibleResourceManagerFeature { TrackTotalSupply, VaultFreeze, VaultRecall, Mint, Burn }
    pub uninterp spec fn feature_of(name: Seq<char>) -> NonFungibleResourceManagerFeature;
    impl NonFungibleResourceManagerFeature {
        #[verifier::external_body]
        pub fn feature_name(&self) -> (r: &'static str) ensures feature_of(r@) == *self { unimplemented!() }
    }
    /// events/non_fungible_vault.rs (macro generated `define_events!`): one id set each
    pub mod events {
        pub mod non_fungible_vault {
            use super::super::NonFungibleLocalId;
            use super::super::super::sets::IndexSet;
            pub struct WithdrawEvent { pub ids: IndexSet<NonFungibleLocalId> }
            pub struct DepositEvent { pub ids: IndexSet<NonFungibleLocalId> }
            pub struct RecallEvent { pub ids: IndexSet<NonFungibleLocalId> }
        }
    }
    pub enum EventG { Withdraw(Set<NonFungibleLocalId>), Deposit(Set<NonFungibleLocalId>), Recall(Set<NonFungibleLocalId>) }
    pub trait EventGhost: Sized { spec fn ghost(&self) -> EventG; }
    impl EventGhost for events::non_fungible_vault::WithdrawEvent { open spec fn ghost(&self) -> EventG { EventG::Withdraw(self.ids@) } }
    impl EventGhost for events::non_fungible_vault::DepositEvent { open spec fn ghost(&self) -> EventG { EventG::Deposit(self.ids@) } }
    impl EventGhost for events::non_fungible_vault::RecallEvent { open spec fn ghost(&self) -> EventG { EventG::Recall(self.ids@) } }

    /// `<Decimal as ForWithdrawal>::for_withdrawal` (radix-engine-interface resource/mod.rs; under contract in unit
    /// c25_rounding): `Exact` returns the amount itself, `Rounded(mode)` is `checked_round(divisibility, mode)`.
    /// Only the Exact case is specified here: whatever amount comes out is the amount that is withdrawn.
    impl Decimal {
        #[verifier::external_body]
        pub fn for_withdrawal(&self, divisibility: u8, withdraw_strategy: WithdrawStrategy) -> (r: Option<Decimal>)
            ensures withdraw_strategy is Exact ==> r == Some(*self)
        { unimplemented!() }
    }
    /// radix-engine-interface resource/mod.rs `check_non_fungible_amount` = `u32::try_from(&Decimal)` (radix-common
    /// decimal.rs to_primitive_type!): Ok(n) exactly for the whole amounts n in [0, u32::MAX].  ASSUMED.
    #[verifier::external_body]
    pub fn check_non_fungible_amount(amount: &Decimal) -> (r: Result<u32, ()>)
        ensures r matches Ok(n) ==> amount.v() == (n as int) * one18(),
                (0 <= amount.v() <= u32::MAX * one18() && amount.v() % one18() == 0) ==> r is Ok,
    { unimplemented!() }

    // ================================================================================ ghost store ==
    /// ghost value of a field (of the acting vault, or of a bucket object)
    pub enum GhostVal { Balance(Decimal), Locked(Map<NonFungibleLocalId, usize>), Frozen(VaultFrozenFlag), LiquidNf(Set<NonFungibleLocalId>), Other }
    /// which kind of value the vault's fields hold (schema of the blueprint)
    pub open spec fn kind_ok(idx: FieldIndex, g: GhostVal) -> bool {
        (idx == I_BAL() ==> g is Balance) && (idx == I_LOCKED() ==> g is Locked) && (idx == I_FREEZE() ==> g is Frozen)
    }
    /// a live (heap) object: its blueprint name and fields
    pub ghost struct ObjG { pub blueprint: Seq<char>, pub fields: Map<FieldIndex, GhostVal> }
    /// radix-engine-interface FieldValue: an encoded field payload (+ locked flag)
    #[verifier::external_body]
    pub struct FieldValue { _p: () }
    impl FieldValue {
        pub uninterp spec fn ghost(&self) -> GhostVal;
        #[verifier::external_body]
        pub fn new<S: VerifPayload>(value: S) -> (r: FieldValue) ensures r.ghost() == value.ghost() { unimplemented!() }
    }
    pub open spec fn ghost_fields(m: Map<FieldIndex, FieldValue>) -> Map<FieldIndex, GhostVal> {
        m.map_values(|v: FieldValue| v.ghost())
    }
    /// what the raw (encoded) fields returned by `drop_object` decode to
    pub uninterp spec fn raw_fields(raw: Vec<Vec<u8>>) -> Map<FieldIndex, GhostVal>;
    /// spec view of a typed field payload
    pub trait VerifPayload: Sized {
        spec fn accepts(v: GhostVal) -> bool;
        spec fn ghost(&self) -> GhostVal;
    }
    pub ghost struct State {
        /// fields of the acting vault
        pub fields: Map<FieldIndex, GhostVal>,
        /// open field handles -> (field, opened MUTABLE)
        pub handles: Map<FieldHandle, (FieldIndex, bool)>,
        /// the NonFungibleIndex collection of the acting vault: the ids it holds liquid (values are `()`)
        pub index: Set<NonFungibleLocalId>,
        /// features the OUTER object (the resource manager) was instantiated with (immutable)
        pub features: Set<NonFungibleResourceManagerFeature>,
        /// live objects owned by the current call frame (buckets)
        pub objects: Map<NodeId, ObjG>,
        /// events emitted so far
        pub events: Seq<EventG>,
    }

    /// Ghost model of the field part and the index-collection part of radix-engine-interface SystemApi
    /// (field_api.rs, actor_api.rs, actor_index_api.rs).  Any call may fail for reasons of its own (costing,
    /// limits, substate locks); a failing call changes nothing.  A RuntimeError aborts the transaction (the
    /// track discards every write), so the functions under contract promise nothing about the store after `Err`
    /// beyond what is stated.  `field_read_typed` decodes with `.unwrap()`: reading a field whose value is not
    /// of the requested type is a panic, hence a precondition.
    ///   * actor_index_insert: system.rs -> kernel_set_substate on the sorted-index partition: the entry for
    ///     the key exists afterwards (an existing entry is overwritten -- set semantics, NOT a multiset);
    ///   * actor_index_remove: kernel_remove_substate: returns Some(old value) iff the entry existed, and the
    ///     entry does not exist afterwards;
    ///   * actor_index_drain(limit): kernel_drain_substates: removes and returns min(limit, |index|) DISTINCT
    ///     entries of the index (which ones is up to the store).
    pub trait SystemApi<E: SystemApiError>: Sized {
        spec fn state(&self) -> State;

        fn actor_open_field(&mut self, object_handle: ActorStateHandle, field: FieldIndex, flags: LockFlags) -> (r: Result<FieldHandle, E>)
            requires object_handle == ACTOR_STATE_SELF
            ensures
                r matches Ok(h) ==> !old(self).state().handles.contains_key(h)
                    && final(self).state() == (State { handles: old(self).state().handles.insert(h, (field, is_mutable(flags))), ..old(self).state() }),
                r is Err ==> final(self).state() == old(self).state(),
                r matches Err(e) ==> !e.is_application_error();

        fn field_read_typed<S: VerifPayload>(&mut self, handle: FieldHandle) -> (r: Result<S, E>)
            requires
                old(self).state().handles.contains_key(handle),
                old(self).state().fields.contains_key(old(self).state().handles[handle].0),
                S::accepts(old(self).state().fields[old(self).state().handles[handle].0]),
            ensures
                final(self).state() == old(self).state(),
                r matches Ok(s) ==> s.ghost() == old(self).state().fields[old(self).state().handles[handle].0],
                r matches Err(e) ==> !e.is_application_error();

        fn field_write_typed<S: VerifPayload>(&mut self, handle: FieldHandle, substate: &S) -> (r: Result<(), E>)
            requires
                old(self).state().handles.contains_key(handle),
                old(self).state().handles[handle].1,
                kind_ok(old(self).state().handles[handle].0, substate.ghost()),
            ensures
                r is Ok ==> final(self).state() == (State { fields: old(self).state().fields.insert(old(self).state().handles[handle].0, substate.ghost()), ..old(self).state() }),
                r is Err ==> final(self).state() == old(self).state(),
                r matches Err(e) ==> !e.is_application_error();

        fn field_close(&mut self, handle: FieldHandle) -> (r: Result<(), E>)
            requires old(self).state().handles.contains_key(handle)
            ensures
                r is Ok ==> final(self).state() == (State { handles: old(self).state().handles.remove(handle), ..old(self).state() }),
                r is Err ==> final(self).state() == old(self).state(),
                r matches Err(e) ==> !e.is_application_error();

        /// (the key type of this blueprint's only index collection is NonFungibleLocalId)
        fn actor_index_insert_typed<V>(&mut self, object_handle: ActorStateHandle, collection_index: CollectionIndex, key: NonFungibleLocalId, value: V) -> (r: Result<(), E>)
            requires object_handle == ACTOR_STATE_SELF, collection_index == 0
            ensures
                r is Ok ==> final(self).state() == (State { index: old(self).state().index.insert(key), ..old(self).state() }),
                r is Err ==> final(self).state() == old(self).state(),
                r matches Err(e) ==> !e.is_application_error();

        fn actor_index_remove(&mut self, object_handle: ActorStateHandle, collection_index: CollectionIndex, key: Vec<u8>) -> (r: Result<Option<Vec<u8>>, E>)
            requires object_handle == ACTOR_STATE_SELF, collection_index == 0
            ensures
                r matches Ok(o) ==> (o is Some <==> old(self).state().index.contains(id_of_key(key@)))
                    && final(self).state() == (State { index: old(self).state().index.remove(id_of_key(key@)), ..old(self).state() }),
                r is Err ==> final(self).state() == old(self).state(),
                r matches Err(e) ==> !e.is_application_error();

        /// is the named feature one the outer object (the resource manager) was instantiated with
        fn actor_is_feature_enabled(&mut self, object_handle: ActorStateHandle, feature: &str) -> (r: Result<bool, E>)
            requires object_handle == ACTOR_STATE_OUTER_OBJECT
            ensures
                final(self).state() == old(self).state(),
                r matches Ok(b) ==> b == old(self).state().features.contains(feature_of(feature@)),
                r matches Err(e) ==> !e.is_application_error();

        /// creates a new object of an inner blueprint of this package with the given fields; its id is fresh
        fn new_simple_object(&mut self, blueprint_ident: &str, fields: IndexMap<FieldIndex, FieldValue>) -> (r: Result<NodeId, E>)
            ensures
                r matches Ok(id) ==> !old(self).state().objects.contains_key(id)
                    && final(self).state() == (State { objects: old(self).state().objects.insert(id,
                            ObjG { blueprint: blueprint_ident@, fields: ghost_fields(fields@) }), ..old(self).state() }),
                r is Err ==> final(self).state() == old(self).state(),
                r matches Err(e) ==> !e.is_application_error();

        /// drops a live object (system.rs: only an inner object of the actor's outer object, i.e. a bucket of THIS
        /// resource) and returns its encoded fields
        fn drop_object(&mut self, node_id: &NodeId) -> (r: Result<Vec<Vec<u8>>, E>)
            ensures
                r matches Ok(raw) ==> old(self).state().objects.contains_key(*node_id)
                    && raw_fields(raw) == old(self).state().objects[*node_id].fields
                    && final(self).state() == (State { objects: old(self).state().objects.remove(*node_id), ..old(self).state() }),
                r is Err ==> final(self).state() == old(self).state(),
                r matches Err(e) ==> !e.is_application_error();

        /// (K = NonFungibleLocalId, see above) removes and returns min(limit, |index|) DISTINCT entries of the index
        fn actor_index_drain_typed<V>(&mut self, object_handle: ActorStateHandle, collection_index: CollectionIndex, limit: u32) -> (r: Result<Vec<(NonFungibleLocalId, V)>, E>)
            requires object_handle == ACTOR_STATE_SELF, collection_index == 0
            ensures
                r matches Ok(v) ==> drained(old(self).state().index, entry_keys(v@), limit as int)
                    && final(self).state() == (State { index: old(self).state().index.difference(entry_keys(v@).to_set()), ..old(self).state() }),
                r is Err ==> final(self).state() == old(self).state(),
                r matches Err(e) ==> !e.is_application_error();
    }
    /// the keys of a drained entry list, in order
    pub open spec fn entry_keys<V>(v: Seq<(NonFungibleLocalId, V)>) -> Seq<NonFungibleLocalId> {
        Seq::new(v.len(), |i: int| v[i].0)
    }
    /// `ks` is a possible result of draining `limit` entries from `index`
    pub open spec fn drained(index: Set<NonFungibleLocalId>, ks: Seq<NonFungibleLocalId>, limit: int) -> bool {
        &&& ks.no_duplicates()
        &&& ks.to_set().subset_of(index)
        &&& ks.len() == (if limit <= index.len() { limit } else { index.len() as int })
    }

    // ---- `vec.into_iter().map(f).collect()`: iterator adapters are outside Verus and `Vec::into_iter` is a trait
    // method of a std type (cannot be shadowed by an inherent shim method), so the unit @subst-s `.into_iter()` on
    // the Vec to `.into_iter_shim()` (precedent: shims/vec_into_iter_map_c33.rs) and keeps `.map(closure).collect()`
    // against the inherent methods below.  ASSUMED (std docs): into_iter yields the elements in order; `map(f)`
    // applies `f` to every item in order; `collect` builds the collection from the yielded items (shims/sets.rs
    // FromItemSeq: an IndexSet holding exactly the yielded items).
    pub trait VecIntoIterShim<T> { fn into_iter_shim(self) -> VecOwnedIter<T>; }
    impl<T> VecIntoIterShim<T> for Vec<T> {
        #[verifier::external_body]
        fn into_iter_shim(self) -> (r: VecOwnedIter<T>) ensures r.seq() == self@ { unimplemented!() }
    }
    #[verifier::external_body]
    #[verifier::reject_recursive_types(T)]
    pub struct VecOwnedIter<T> { k: core::marker::PhantomData<T> }
    impl<T> VecOwnedIter<T> {
        pub uninterp spec fn seq(&self) -> Seq<T>;
        #[verifier::external_body]
        pub fn map<B, F: Fn(T) -> B>(self, f: F) -> (r: OwnedSeqIter<B>)
            requires forall|i: int| 0 <= i < self.seq().len() ==> call_requires(f, (#[trigger] self.seq()[i],))
            ensures r.seq().len() == self.seq().len(),
                    forall|i: int| #![trigger self.seq()[i]] #![trigger r.seq()[i]]
                        0 <= i < self.seq().len() ==> call_ensures(f, (self.seq()[i],), r.seq()[i])
        { unimplemented!() }
    }

    /// ASSUMED helper, the @subst image of the adapter chain in lock_non_fungibles
    ///     `ids.iter().filter(|&id| !locked.ids.contains_key(id)).cloned().collect()`
    /// (Iterator::filter / cloned / collect, std docs): the set of those members of `ids` that are not keys of the
    /// lock table.
    #[verifier::external_body]
    pub fn ids_not_locked(ids: &IndexSet<NonFungibleLocalId>, locked: &super::unit::LockedNonFungibleResource) -> (r: IndexSet<NonFungibleLocalId>)
        ensures r@ == ids@.filter(|id: NonFungibleLocalId| !locked.ids@.contains_key(id))
    { unimplemented!() }

    // ---- macro-generated versioned payload wrappers (declare_native_blueprint_state!): a payload is its
    // latest-version content
    pub struct NonFungibleVaultBalanceFieldPayload { pub content: super::unit::LiquidNonFungibleVault }
    pub struct NonFungibleVaultLockedResourceFieldPayload { pub content: super::unit::LockedNonFungibleResource }
    pub struct NonFungibleVaultNonFungibleEntryPayload { pub content: () }
    impl NonFungibleVaultBalanceFieldPayload {
        pub fn fully_update_and_into_latest_version(self) -> (r: super::unit::LiquidNonFungibleVault) ensures r == self.content { self.content }
        pub fn from_content_source(c: super::unit::LiquidNonFungibleVault) -> (r: Self) ensures r.content == c { Self { content: c } }
    }
    impl NonFungibleVaultLockedResourceFieldPayload {
        pub fn fully_update_and_into_latest_version(self) -> (r: super::unit::LockedNonFungibleResource) ensures r == self.content { self.content }
        pub fn from_content_source(c: super::unit::LockedNonFungibleResource) -> (r: Self) ensures r.content == c { Self { content: c } }
    }
    impl NonFungibleVaultNonFungibleEntryPayload {
        pub fn from_content_source(c: ()) -> (r: Self) ensures r.content == c { Self { content: c } }
    }
    pub struct NonFungibleVaultFreezeStatusFieldPayload { pub content: VaultFrozenFlag }
    impl VerifPayload for NonFungibleVaultFreezeStatusFieldPayload {
        open spec fn accepts(v: GhostVal) -> bool { v is Frozen }
        open spec fn ghost(&self) -> GhostVal { GhostVal::Frozen(self.content) }
    }
    impl NonFungibleVaultFreezeStatusFieldPayload {
        pub fn fully_update_and_into_latest_version(self) -> (r: VaultFrozenFlag) ensures r == self.content { self.content }
    }
    /// radix-native-sdk Runtime::emit_event -> api.actor_emit_event: appends to the event log, touches nothing else
    pub struct Runtime;
    impl Runtime {
        #[verifier::external_body]
        pub fn emit_event<Y: SystemApi<E>, E: SystemApiError, T: EventGhost>(api: &mut Y, event: T) -> (r: Result<(), E>)
            ensures
                r is Ok ==> final(api).state() == (State { events: old(api).state().events.push(event.ghost()), ..old(api).state() }),
                r is Err ==> final(api).state() == old(api).state(),
                r matches Err(e) ==> !e.is_application_error(),
        { unimplemented!() }
    }
    /// bucket_common.rs `impl From<Vec<Vec<u8>>> for DroppedNonFungibleBucket`: `scrypto_decode(&val[i]).unwrap()`
    /// of the Liquid and Locked fields.  It PANICS on fields of any other shape; a trait impl cannot carry a
    /// precondition, so the contract is conditional and callers under contract establish the condition
    /// (`is_nf_bucket`) from their own precondition.
    impl From<Vec<Vec<u8>>> for DroppedNonFungibleBucket {
        #[verifier::external_body]
        fn from(val: Vec<Vec<u8>>) -> (r: DroppedNonFungibleBucket)
            ensures
                (raw_fields(val).contains_key(B_LIQUID()) && raw_fields(val)[B_LIQUID()] is LiquidNf
                    && raw_fields(val).contains_key(B_LOCKED()) && raw_fields(val)[B_LOCKED()] is Locked)
                ==> (r.liquid.ids@ == raw_fields(val)[B_LIQUID()]->LiquidNf_0
                    && r.locked.ids@ == raw_fields(val)[B_LOCKED()]->Locked_0)
        { unimplemented!() }
    }
    impl VerifPayload for NonFungibleVaultBalanceFieldPayload {
        open spec fn accepts(v: GhostVal) -> bool { v is Balance }
        open spec fn ghost(&self) -> GhostVal { GhostVal::Balance(self.content.amount) }
    }
    impl VerifPayload for NonFungibleVaultLockedResourceFieldPayload {
        open spec fn accepts(v: GhostVal) -> bool { v is Locked }
        open spec fn ghost(&self) -> GhostVal { GhostVal::Locked(self.content.ids@) }
    }

    // ---- `for x in index_set` (by value): the members in iteration (insertion) order -------------------------
    #[verifier::external_body]
    #[verifier::reject_recursive_types(T)]
    pub struct IsIntoIter<T> { k: core::marker::PhantomData<T> }
    impl<T> IsIntoIter<T> {
        pub uninterp spec fn rest(&self) -> Seq<T>;
    }
    impl<T> Iterator for IsIntoIter<T> {
        type Item = T;
        #[verifier::external_body]
        fn next(&mut self) -> (r: Option<T>) { unimplemented!() }
    }
    impl<T> vstd::std_specs::iter::IteratorSpecImpl for IsIntoIter<T> {
        open spec fn obeys_prophetic_iter_laws(&self) -> bool { true }
        open spec fn remaining(&self) -> Seq<T> { self.rest() }
        open spec fn will_return_none(&self) -> bool { true }
        open spec fn peek(&self, index: int) -> Option<T> { if 0 <= index < self.rest().len() { Some(self.rest()[index]) } else { None } }
        open spec fn decrease(&self) -> Option<nat> { Some(self.rest().len()) }
    }
    impl<T> IntoIterator for IndexSet<T> {
        type Item = T;
        type IntoIter = IsIntoIter<T>;
        #[verifier::external_body]
        fn into_iter(self) -> (r: IsIntoIter<T>) ensures r.rest() == self.order() { unimplemented!() }
    }
}

pub mod unit {
    use vstd::prelude::*;
    use super::rt::*;
    use super::decimal::*;
    use super::decimal::Decimal;
    use super::maps::*;
    use super::sets::*;
    use super::env::*;
    use core::ops::AddAssign;
    broadcast use {group_decimal, group_sets};

    /*@item radix-engine-interface/src/blueprints/resource/resource.rs :: enum ResourceError
    @derive
    @*/
    /*@item radix-engine/src/blueprints/resource/vault_common.rs :: enum VaultError
    @derive
    @*/
    /*@item radix-engine/src/blueprints/resource/non_fungible/non_fungible_vault.rs :: enum NonFungibleVaultError
    @derive
    @*/
    /*@item radix-engine-interface/src/blueprints/resource/resource.rs :: struct LiquidNonFungibleResource
    @derive
    @*/
    /*@item radix-engine-interface/src/blueprints/resource/resource.rs :: struct LockedNonFungibleResource
    @derive
    @*/
    /*@item radix-engine-interface/src/blueprints/resource/resource.rs :: struct LiquidNonFungibleVault
    @derive
    @*/
    /*@item radix-engine-interface/src/blueprints/resource/resource.rs :: struct VaultFrozenFlag
    @derive
    @*/
    /*@item radix-engine/src/blueprints/resource/bucket_common.rs :: enum BucketError
    @derive
    @*/
    /*@item radix-engine/src/blueprints/resource/bucket_common.rs :: struct DroppedNonFungibleBucket
    @derive
    @*/
    /*@item radix-engine-interface/src/blueprints/resource/bucket.rs :: struct Bucket
    @derive
    @*/
    /*@item radix-common/src/math/rounding_mode.rs :: enum RoundingMode
    @derive
    @*/
    /*@item radix-engine-interface/src/blueprints/resource/mod.rs :: enum WithdrawStrategy
    @derive
    @*/
    // (Verus needs the explicit 'static; the value is re-read from /repo on every run)
    pub const NON_FUNGIBLE_BUCKET_BLUEPRINT: &'static str = /*@expr-after radix-engine-interface/src/blueprints/resource/non_fungible/non_fungible_bucket.rs :: const NON_FUNGIBLE_BUCKET_BLUEPRINT :: <<&str =>> @*/;
    impl VerifPayload for LiquidNonFungibleResource {
        open spec fn accepts(v: GhostVal) -> bool { v is LiquidNf }
        open spec fn ghost(&self) -> GhostVal { GhostVal::LiquidNf(self.ids@) }
    }
    impl VerifPayload for LockedNonFungibleResource {
        open spec fn accepts(v: GhostVal) -> bool { v is Locked }
        open spec fn ghost(&self) -> GhostVal { GhostVal::Locked(self.ids@) }
    }

    // ==========================================================================================
    // ORACLE (from the property statement)
    // ==========================================================================================
    /// the two accounting fields exist and hold the right kind of value (established by create_object)
    pub open spec fn wf(s: State) -> bool {
        s.fields.contains_key(I_BAL()) && s.fields[I_BAL()] is Balance && s.fields.contains_key(I_LOCKED()) && s.fields[I_LOCKED()] is Locked
    }
    /// the vault's COUNTER, in attos
    pub open spec fn amount(s: State) -> int { s.fields[I_BAL()]->Balance_0.v() }
    /// the lock table: id -> number of live proofs
    pub open spec fn locks(s: State) -> Map<Id, usize> { s.fields[I_LOCKED()]->Locked_0 }
    /// the ids the vault holds: liquid (index collection) or behind proofs (lock table)
    pub open spec fn held(s: State) -> Set<Id> { s.index.union(locks(s).dom()) }
    /// C04 for one non-fungible vault: the counter equals the number of liquid ids (as a Decimal: n * 10^18),
    /// no id is both liquid and locked, and the lock table has no dead entry
    pub open spec fn inv(s: State) -> bool {
        &&& wf(s)
        &&& amount(s) == s.index.len() * one18()
        &&& s.index.disjoint(locks(s).dom())
        &&& forall|id: Id| #[trigger] locks(s).contains_key(id) ==> locks(s)[id] >= 1
    }
    /// every field other than the two accounting fields is untouched
    pub open spec fn fields_frame(s0: State, s1: State) -> bool {
        s1.fields.remove(I_BAL()).remove(I_LOCKED()) =~= s0.fields.remove(I_BAL()).remove(I_LOCKED())
    }
    /// handles that were open stay open (with the same field / mode)
    pub open spec fn handles_kept(h0: Map<FieldHandle, (FieldIndex, bool)>, h1: Map<FieldHandle, (FieldIndex, bool)>) -> bool {
        forall|h: FieldHandle| #[trigger] h0.contains_key(h) ==> h1.contains_key(h) && h1[h] == h0[h]
    }
    /// deposit of the ids `ids`: they join the index, the counter grows by their number, the lock table is untouched
    pub open spec fn put_core(s0: State, s1: State, ids: Set<Id>) -> bool {
        &&& wf(s1)
        &&& s1.index =~= s0.index.union(ids)
        &&& amount(s1) == amount(s0) + ids.len() * one18()
        &&& locks(s1) == locks(s0)
        &&& fields_frame(s0, s1)
    }
    /// features, live objects and the event log are untouched
    pub open spec fn rest_same(s0: State, s1: State) -> bool {
        s1.features == s0.features && s1.objects == s0.objects && s1.events == s0.events
    }
    /// .. by an internal_* helper: additionally no handle stays open, no object / event / feature is touched
    pub open spec fn put_post(s0: State, s1: State, ids: Set<Id>) -> bool {
        put_core(s0, s1, ids) && s1.handles =~= s0.handles && rest_same(s0, s1)
    }
    /// withdrawal of the ids `ids`: they were all liquid, they leave the index, the counter shrinks by their number
    pub open spec fn take_core(s0: State, s1: State, ids: Set<Id>) -> bool {
        &&& wf(s1)
        &&& ids.subset_of(s0.index)
        &&& s1.index =~= s0.index.difference(ids)
        &&& amount(s1) == amount(s0) - ids.len() * one18()
        &&& locks(s1) == locks(s0)
        &&& fields_frame(s0, s1)
    }
    pub open spec fn take_post(s0: State, s1: State, ids: Set<Id>) -> bool {
        take_core(s0, s1, ids) && s1.handles =~= s0.handles && rest_same(s0, s1)
    }
    /// the lock table after one more proof of each id in `ids`
    pub open spec fn inc_locks(l0: Map<Id, usize>, ids: Set<Id>) -> Map<Id, usize> {
        Map::new(l0.dom().union(ids),
                 |id: Id| if ids.contains(id) { ((if l0.contains_key(id) { l0[id] as int } else { 0int }) + 1) as usize } else { l0[id] })
    }
    /// the ids of `ids` that no proof locks yet
    pub open spec fn fresh_locks(l0: Map<Id, usize>, ids: Set<Id>) -> Set<Id> {
        ids.filter(|id: Id| !l0.contains_key(id))
    }
    /// lock of `ids` (one more proof): every id is held by the vault; the ids not yet locked leave the liquid index
    /// (the counter shrinks by their number), every id of `ids` has one more lock
    pub open spec fn lock_post(s0: State, s1: State, ids: Set<Id>) -> bool {
        &&& wf(s1)
        &&& ids.subset_of(held(s0))
        &&& fresh_locks(locks(s0), ids).subset_of(s0.index)
        &&& s1.index =~= s0.index.difference(fresh_locks(locks(s0), ids))
        &&& amount(s1) == amount(s0) - fresh_locks(locks(s0), ids).len() * one18()
        &&& locks(s1) =~= inc_locks(locks(s0), ids)
        &&& fields_frame(s0, s1)
        &&& handles_kept(s0.handles, s1.handles)
        &&& rest_same(s0, s1)
    }
    pub open spec fn nfv_err(e: NonFungibleVaultError) -> RuntimeError {
        RuntimeError::ApplicationError(ApplicationError::NonFungibleVaultError(e))
    }
    pub open spec fn vault_err(e: VaultError) -> RuntimeError {
        RuntimeError::ApplicationError(ApplicationError::VaultError(e))
    }
    /// the lock table after one proof of each id in `ids` has been dropped
    pub open spec fn dec_locks(l0: Map<Id, usize>, ids: Set<Id>) -> Map<Id, usize> {
        Map::new(l0.dom().filter(|id: Id| !ids.contains(id) || l0[id] > 1),
                 |id: Id| if ids.contains(id) { (l0[id] - 1) as usize } else { l0[id] })
    }
    /// the ids of `ids` whose LAST proof has been dropped
    pub open spec fn freed(l0: Map<Id, usize>, ids: Set<Id>) -> Set<Id> {
        ids.filter(|id: Id| l0.contains_key(id) && l0[id] <= 1)
    }
    /// unlock of `ids`: each id's count decreases by one; exactly the ids whose count was 1 leave the lock table
    /// and become liquid (an id still locked by another proof does NOT); the counter grows by their number
    pub open spec fn unlock_post(s0: State, s1: State, ids: Set<Id>) -> bool {
        &&& wf(s1)
        &&& locks(s1) =~= dec_locks(locks(s0), ids)
        &&& s1.index =~= s0.index.union(freed(locks(s0), ids))
        &&& amount(s1) == amount(s0) + freed(locks(s0), ids).len() * one18()
        &&& fields_frame(s0, s1)
        &&& handles_kept(s0.handles, s1.handles)
        &&& rest_same(s0, s1)
    }

    // ---- the public entry points: freeze status, buckets, events ---------------------------------
    pub open spec fn freezable(s: State) -> bool { s.features.contains(NonFungibleResourceManagerFeature::VaultFreeze) }
    pub open spec fn recallable(s: State) -> bool { s.features.contains(NonFungibleResourceManagerFeature::VaultRecall) }
    /// a vault of a freezable resource has its FreezeStatus field (condition of the field in the blueprint definition)
    pub open spec fn wf_vault(s: State) -> bool {
        wf(s) && (freezable(s) ==> s.fields.contains_key(I_FREEZE()) && s.fields[I_FREEZE()] is Frozen)
    }
    /// the vault is frozen for (some of) the given operations
    pub open spec fn frozen_for(s: State, flags: VaultFreezeFlags) -> bool {
        freezable(s) && (s.fields[I_FREEZE()]->Frozen_0.frozen.bits & flags.bits) != 0
    }
    pub open spec fn is_nf_bucket(o: ObjG) -> bool {
        &&& o.fields.contains_key(B_LIQUID()) && o.fields[B_LIQUID()] is LiquidNf
        &&& o.fields.contains_key(B_LOCKED()) && o.fields[B_LOCKED()] is Locked
    }
    pub open spec fn bucket_ids(o: ObjG) -> Set<Id> { o.fields[B_LIQUID()]->LiquidNf_0 }
    pub open spec fn bucket_locks(o: ObjG) -> Map<Id, usize> { o.fields[B_LOCKED()]->Locked_0 }
    /// a freshly created non-fungible bucket holding `ids`: nothing locked
    pub open spec fn is_new_bucket(o: ObjG, ids: Set<Id>) -> bool {
        &&& o.blueprint == NON_FUNGIBLE_BUCKET_BLUEPRINT@
        &&& o.fields.dom() =~= set![B_LIQUID(), B_LOCKED()]
        &&& o.fields[B_LIQUID()] == GhostVal::LiquidNf(ids)
        &&& o.fields[B_LOCKED()] == GhostVal::Locked(Map::<Id, usize>::empty())
    }
    /// a withdrawal through a public entry point: the ids leave the vault (take_core), a FRESH bucket holding
    /// exactly those ids appears, and exactly one event `ev` naming exactly those ids is emitted
    pub open spec fn withdrawn(s0: State, s1: State, b: NodeId, ids: Set<Id>, ev: EventG) -> bool {
        &&& take_core(s0, s1, ids)
        &&& !s0.objects.contains_key(b) && s1.objects.contains_key(b) && is_new_bucket(s1.objects[b], ids)
        &&& s1.objects == s0.objects.insert(b, s1.objects[b])
        &&& s1.events == s0.events.push(ev)
        &&& s1.features == s0.features
        &&& handles_kept(s0.handles, s1.handles)
    }
    /// a deposit through `put`: the bucket existed, backed no proof, is consumed; its ids join the vault
    /// (put_core); exactly one DepositEvent naming exactly those ids is emitted
    pub open spec fn deposited(s0: State, s1: State, b: NodeId) -> bool {
        &&& s0.objects.contains_key(b)
        &&& bucket_locks(s0.objects[b]).dom().len() == 0
        &&& put_core(s0, s1, bucket_ids(s0.objects[b]))
        &&& s1.objects == s0.objects.remove(b)
        &&& s1.events == s0.events.push(EventG::Deposit(bucket_ids(s0.objects[b])))
        &&& s1.features == s0.features
        &&& handles_kept(s0.handles, s1.handles)
    }

    // ---- lemmas ------------------------------------------------------------------------------------
    /// one more element of a duplicate-free sequence: it is new, and the prefix set grows by exactly it
    pub proof fn lemma_take_step(ord: Seq<Id>, n: int)
        requires 0 <= n < ord.len(), ord.no_duplicates()
        ensures
            !ord.take(n).to_set().contains(ord[n]),
            ord.take(n + 1).to_set() =~= ord.take(n).to_set().insert(ord[n]),
            ord.to_set().contains(ord[n]),
            ord.take(n).to_set().subset_of(ord.to_set()),
    {
        let a = ord.take(n + 1); let b = ord.take(n);
        if b.contains(ord[n]) {
            let j = choose|j: int| 0 <= j < b.len() && b[j] == ord[n];
            assert(ord[j] == ord[n]);
        }
        assert forall|x: Id| a.to_set().contains(x) <==> b.to_set().insert(ord[n]).contains(x) by {
            if a.contains(x) {
                let j = choose|j: int| 0 <= j < a.len() && a[j] == x;
                if j < n { assert(b[j] == x); assert(b.contains(x)); }
            }
            if b.contains(x) {
                let j = choose|j: int| 0 <= j < b.len() && b[j] == x;
                assert(a[j] == x);
            }
            if x == ord[n] { assert(a[n] == x); }
        }
        assert(ord.contains(ord[n]));
        assert forall|x: Id| b.to_set().contains(x) implies ord.to_set().contains(x) by {
            let j = choose|j: int| 0 <= j < b.len() && b[j] == x;
            assert(ord[j] == x);
            assert(ord.contains(x));
        }
    }
    /// the size of a duplicate-free prefix
    pub proof fn lemma_take_len(ord: Seq<Id>, n: int)
        requires 0 <= n <= ord.len(), ord.no_duplicates()
        ensures ord.take(n).to_set().len() == n
        decreases n
    {
        if n == 0 {
            assert(ord.take(0).to_set() =~= Set::<Id>::empty());
        } else {
            lemma_take_len(ord, n - 1);
            lemma_take_step(ord, n - 1);
            assert(ord.take(n - 1).to_set().finite());
        }
    }
    pub proof fn lemma_handles_trans(h0: Map<FieldHandle, (FieldIndex, bool)>, hm: Map<FieldHandle, (FieldIndex, bool)>, h1: Map<FieldHandle, (FieldIndex, bool)>)
        requires handles_kept(h0, hm), handles_kept(hm, h1)
        ensures handles_kept(h0, h1)
    {
        assert forall|h: FieldHandle| h0.contains_key(h) implies h1.contains_key(h) && h1[h] == h0[h] by {
            assert(hm.contains_key(h) && hm[h] == h0[h]);
        }
    }
    /// deposit keeps the invariant when the deposited ids are new to the vault
    pub proof fn lemma_put_inv(s0: State, s1: State, ids: Set<Id>)
        requires inv(s0), ids.disjoint(held(s0)), put_core(s0, s1, ids)
        ensures inv(s1), held(s1) =~= held(s0).union(ids)
    {
        vstd::set_lib::lemma_set_disjoint_lens(s0.index, ids);
        assert((s0.index.len() + ids.len()) * one18() == s0.index.len() * one18() + ids.len() * one18()) by (nonlinear_arith);
        assert(s0.index + ids =~= s0.index.union(ids));
    }
    /// withdrawal keeps the invariant; the vault holds exactly the withdrawn ids less
    pub proof fn lemma_take_inv(s0: State, s1: State, ids: Set<Id>)
        requires inv(s0), take_core(s0, s1, ids)
        ensures inv(s1), held(s1) =~= held(s0).difference(ids), ids.len() <= s0.index.len()
    {
        let rest = s0.index.difference(ids);
        assert(rest.disjoint(ids));
        vstd::set_lib::lemma_set_disjoint_lens(rest, ids);
        assert(rest + ids =~= s0.index);
        assert((rest.len() + ids.len()) * one18() == rest.len() * one18() + ids.len() * one18()) by (nonlinear_arith);
        assert forall|id: Id| held(s1).contains(id) <==> held(s0).difference(ids).contains(id) by {
            if ids.contains(id) { assert(s0.index.contains(id)); assert(!locks(s0).dom().contains(id)); }
        }
    }
    /// under the invariant the vault's total is the number of ids it holds
    pub proof fn lemma_held_len(s: State)
        requires inv(s)
        ensures amount(s) + locks(s).dom().len() * one18() == held(s).len() * one18()
    {
        vstd::set_lib::lemma_set_disjoint_lens(s.index, locks(s).dom());
        assert(s.index + locks(s).dom() =~= held(s));
        assert((s.index.len() + locks(s).dom().len()) * one18() == s.index.len() * one18() + locks(s).dom().len() * one18()) by (nonlinear_arith);
    }
    /// a duplicate-free sequence that lies in a set
    pub proof fn lemma_all_in(ord: Seq<Id>, s: Set<Id>)
        requires forall|i: int| 0 <= i < ord.len() ==> s.contains(#[trigger] ord[i])
        ensures ord.to_set().subset_of(s)
    {
        assert forall|x: Id| ord.to_set().contains(x) implies s.contains(x) by {
            let j = choose|j: int| 0 <= j < ord.len() && ord[j] == x;
        }
    }
    pub proof fn lemma_count_gt(a: int, b: int)
        requires a * one18() > b * one18()
        ensures a > b
    {
        assert(a > b) by (nonlinear_arith) requires a * 1_000_000_000_000_000_000 > b * 1_000_000_000_000_000_000;
    }
    /// amount >= n * 10^18 and amount == len * 10^18 give len >= n
    pub proof fn lemma_count_ge(len: int, n: int)
        requires len * one18() >= n * one18()
        ensures len >= n
    {
        assert(len >= n) by (nonlinear_arith) requires len * 1_000_000_000_000_000_000 >= n * 1_000_000_000_000_000_000;
    }
    /// dropping one proof of every id in `ids` (all of them locked) keeps the invariant and the held ids
    pub proof fn lemma_unlock_inv(s0: State, s1: State, ids: Set<Id>)
        requires inv(s0), ids.subset_of(locks(s0).dom()), unlock_post(s0, s1, ids)
        ensures inv(s1), held(s1) =~= held(s0)
    {
        let l0 = locks(s0);
        let fr = freed(l0, ids);
        assert(fr.disjoint(s0.index)) by {
            assert forall|id: Id| fr.contains(id) implies !s0.index.contains(id) by { assert(l0.dom().contains(id)); }
        }
        vstd::set_lib::lemma_set_disjoint_lens(s0.index, fr);
        assert(s0.index + fr =~= s0.index.union(fr));
        assert((s0.index.len() + fr.len()) * one18() == s0.index.len() * one18() + fr.len() * one18()) by (nonlinear_arith);
        assert forall|id: Id| #[trigger] locks(s1).contains_key(id) implies locks(s1)[id] >= 1 by {
            assert(l0.contains_key(id));
        }
        assert forall|id: Id| held(s1).contains(id) <==> held(s0).contains(id) by {
            if l0.contains_key(id) {
                if ids.contains(id) && l0[id] <= 1 { assert(fr.contains(id)); }
                else { assert(locks(s1).dom().contains(id)); }
            }
        }
    }

    /// one more proof on every id of `ids` keeps the invariant and the held ids
    pub proof fn lemma_lock_inv(s0: State, s1: State, ids: Set<Id>)
        requires inv(s0), lock_post(s0, s1, ids), forall|id: Id| #[trigger] ids.contains(id) && locks(s0).contains_key(id) ==> locks(s0)[id] < usize::MAX
        ensures inv(s1), held(s1) =~= held(s0)
    {
        let l0 = locks(s0);
        let d = fresh_locks(l0, ids);
        let rest = s0.index.difference(d);
        assert(rest.disjoint(d));
        vstd::set_lib::lemma_set_disjoint_lens(rest, d);
        assert(rest + d =~= s0.index);
        assert((rest.len() + d.len()) * one18() == rest.len() * one18() + d.len() * one18()) by (nonlinear_arith);
        assert forall|id: Id| #[trigger] locks(s1).contains_key(id) implies locks(s1)[id] >= 1 by {
            if !ids.contains(id) { assert(l0.contains_key(id)); }
        }
        assert forall|id: Id| !(s1.index.contains(id) && locks(s1).dom().contains(id)) by {
            if s1.index.contains(id) && locks(s1).dom().contains(id) {
                assert(s0.index.contains(id) && !d.contains(id));
                if ids.contains(id) { assert(l0.contains_key(id)); assert(l0.dom().contains(id)); }
                else { assert(l0.dom().contains(id)); }
            }
        }
        assert forall|id: Id| held(s1).contains(id) <==> held(s0).contains(id) by {
            if s0.index.contains(id) && !s1.index.contains(id) { assert(d.contains(id)); assert(locks(s1).dom().contains(id)); }
            if locks(s1).dom().contains(id) && !l0.dom().contains(id) { assert(ids.contains(id)); }
            if l0.dom().contains(id) { assert(locks(s1).dom().contains(id)); }
        }
    }

    // ==========================================================================================
    // C04 (vault clause) over histories, as a consequence of the contracts: every successful contracted writer
    // of the vault's accounting state ensures its `*_post(before, after, ids)`; a committed history of ONE vault is
    // a sequence of such steps (a failed call aborts the transaction: its writes are rolled back).
    // ==========================================================================================
    pub ghost enum Op {
        /// internal_put / put (`put_post`, `deposited` imply put_core): deposit of ids that the vault does not hold
        Put(Set<Id>),
        /// internal_take_non_fungibles / internal_take_by_amount / take / take_advanced / take_non_fungibles /
        /// recall / recall_non_fungibles (`take_post`, `withdrawn` imply take_core)
        Take(Set<Id>),
        /// lock_non_fungibles (create_proof_of_non_fungibles)
        Lock(Set<Id>),
        /// unlock_non_fungibles (a proof is dropped)
        Unlock(Set<Id>),
    }
    /// the callers' obligations (the `requires` of the contracts, beyond inv)
    pub open spec fn op_pre(op: Op, s: State) -> bool {
        match op {
            Op::Put(ids) => ids.disjoint(held(s)),
            Op::Take(ids) => true,
            Op::Lock(ids) => forall|id: Id| #[trigger] ids.contains(id) && locks(s).contains_key(id) ==> locks(s)[id] < usize::MAX,
            Op::Unlock(ids) => ids.subset_of(locks(s).dom()),
        }
    }
    /// what the contracts promise on Ok
    pub open spec fn op_post(op: Op, s0: State, s1: State) -> bool {
        match op {
            Op::Put(ids) => put_core(s0, s1, ids),
            Op::Take(ids) => take_core(s0, s1, ids),
            Op::Lock(ids) => lock_post(s0, s1, ids),
            Op::Unlock(ids) => unlock_post(s0, s1, ids),
        }
    }
    /// the ids the vault holds after the step, as a function of the ids it held before
    pub open spec fn op_held(op: Op, h: Set<Id>) -> Set<Id> {
        match op {
            Op::Put(ids) => h.union(ids),
            Op::Take(ids) => h.difference(ids),
            Op::Lock(ids) => h,
            Op::Unlock(ids) => h,
        }
    }
    pub proof fn lemma_step(op: Op, s0: State, s1: State)
        requires inv(s0), op_pre(op, s0), op_post(op, s0, s1)
        ensures inv(s1), held(s1) =~= op_held(op, held(s0))
    {
        match op {
            Op::Put(ids) => { lemma_put_inv(s0, s1, ids); }
            Op::Take(ids) => { lemma_take_inv(s0, s1, ids); }
            Op::Lock(ids) => { lemma_lock_inv(s0, s1, ids); }
            Op::Unlock(ids) => { lemma_unlock_inv(s0, s1, ids); }
        }
    }
    /// a history of one vault: tr[i] --ops[i]--> tr[i+1]
    pub open spec fn history(tr: Seq<State>, ops: Seq<Op>) -> bool {
        &&& tr.len() == ops.len() + 1
        &&& forall|i: int| 0 <= i < ops.len() ==> op_pre(#[trigger] ops[i], tr[i]) && op_post(ops[i], tr[i], tr[i + 1])
    }
    /// after ANY finite sequence of the contracted operations the vault's counter equals the number of liquid ids,
    /// no id is both liquid and locked, and the lock table has no dead entry
    pub proof fn lemma_history(tr: Seq<State>, ops: Seq<Op>, j: int)
        requires history(tr, ops), inv(tr[0]), 0 <= j < tr.len()
        ensures inv(tr[j])
        decreases j
    {
        if j > 0 {
            lemma_history(tr, ops, j - 1);
            let op = ops[j - 1];
            assert(op_pre(op, tr[j - 1]) && op_post(op, tr[j - 1], tr[j - 1 + 1]));
            lemma_step(op, tr[j - 1], tr[j]);
        }
    }
    /// an id that is never deposited cannot appear in the vault, and an id that is never withdrawn stays
    pub proof fn lemma_history_held(tr: Seq<State>, ops: Seq<Op>, j: int, id: Id)
        requires history(tr, ops), inv(tr[0]), 0 <= j < tr.len()
        ensures
            (forall|i: int| 0 <= i < j ==> !(#[trigger] ops[i] matches Op::Put(ids) && ids.contains(id))) && !held(tr[0]).contains(id) ==> !held(tr[j]).contains(id),
            (forall|i: int| 0 <= i < j ==> !(#[trigger] ops[i] matches Op::Take(ids) && ids.contains(id))) && held(tr[0]).contains(id) ==> held(tr[j]).contains(id),
        decreases j
    {
        if j > 0 {
            lemma_history_held(tr, ops, j - 1, id);
            lemma_history(tr, ops, j - 1);
            let op = ops[j - 1];
            assert(op_pre(op, tr[j - 1]) && op_post(op, tr[j - 1], tr[j - 1 + 1]));
            lemma_step(op, tr[j - 1], tr[j]);
        }
    }

    /// the hypotheses of the history lemma have a concrete model: an empty vault, a deposit of `a` and `b`, a proof
    /// on both, a second proof on `a`, then one proof of each dropped: `b` becomes liquid again, `a` stays locked
    pub proof fn lemma_history_witness(a: Id, b: Id)
        requires a != b
        ensures exists|tr: Seq<State>, ops: Seq<Op>| history(tr, ops) && inv(tr[0]) && ops.len() == 4
            && tr[4].index == set![b] && locks(tr[4]) == Map::<Id, usize>::empty().insert(a, 1usize) && amount(tr[4]) == one18()
    {
        let e = Map::<Id, usize>::empty();
        let mk = |n: int, idx: Set<Id>, l: Map<Id, usize>| State {
            fields: Map::<FieldIndex, GhostVal>::empty().insert(I_BAL(), GhostVal::Balance(Decimal::of(n * one18()))).insert(I_LOCKED(), GhostVal::Locked(l)),
            handles: Map::empty(), index: idx, features: Set::empty(), objects: Map::empty(), events: Seq::empty(),
        };
        let s0 = mk(0, Set::empty(), e);
        let s1 = mk(2, set![a, b], e);
        let s2 = mk(0, Set::empty(), e.insert(a, 1usize).insert(b, 1usize));
        let s3 = mk(0, Set::empty(), e.insert(a, 2usize).insert(b, 1usize));
        let s4 = mk(1, set![b], e.insert(a, 1usize));
        let ab = set![a, b];
        let tr = seq![s0, s1, s2, s3, s4];
        let ops = seq![Op::Put(ab), Op::Lock(ab), Op::Lock(set![a]), Op::Unlock(ab)];
        assert(in_dec(0) && in_dec(one18()) && in_dec(2 * one18()));
        assert(ab.len() == 2) by { assert(set![a].insert(b) =~= ab); }
        assert(set![b].len() == 1 && set![a].len() == 1);
        assert(Set::<Id>::empty().len() == 0);
        assert(inv(s0));
        // Put {a, b}
        assert(s0.index.union(ab) =~= s1.index);
        assert(fields_frame(s0, s1));
        assert(put_core(s0, s1, ab));
        // Lock {a, b}
        assert(fresh_locks(e, ab) =~= ab);
        assert(s1.index.difference(ab) =~= s2.index);
        assert(locks(s2) =~= inc_locks(e, ab));
        assert(fields_frame(s1, s2));
        assert(lock_post(s1, s2, ab));
        // Lock {a} once more
        assert(fresh_locks(locks(s2), set![a]) =~= Set::<Id>::empty());
        assert(s2.index.difference(Set::<Id>::empty()) =~= s3.index);
        assert(locks(s3) =~= inc_locks(locks(s2), set![a]));
        assert(fields_frame(s2, s3));
        assert(lock_post(s2, s3, set![a]));
        // Unlock {a, b}: b is freed, a stays locked
        assert(freed(locks(s3), ab) =~= set![b]);
        assert(s3.index.union(set![b]) =~= s4.index);
        assert(locks(s4) =~= dec_locks(locks(s3), ab));
        assert(fields_frame(s3, s4));
        assert(unlock_post(s3, s4, ab));
        assert(history(tr, ops));
        assert(tr[4] == s4 && tr[0] == s0);
    }

    // ---- typed payloads ------------------------------------------------------------------------
    impl LiquidNonFungibleResource {
        /*@fn radix-engine-interface/src/blueprints/resource/resource.rs :: impl LiquidNonFungibleResource :: fn new
        @sig
            ensures ret.ids == ids
        @*/
        /*@fn radix-engine-interface/src/blueprints/resource/resource.rs :: impl LiquidNonFungibleResource :: fn is_empty
        @sig
            ensures ret == (self.ids@.len() == 0)
        @*/
    }
    impl LiquidNonFungibleResource {
        /*@fn radix-engine-interface/src/blueprints/resource/resource.rs :: impl LiquidNonFungibleResource :: fn ids
        @sig
            ensures *ret == self.ids
        @*/
        /*@fn radix-engine-interface/src/blueprints/resource/resource.rs :: impl LiquidNonFungibleResource :: fn into_ids
        @sig
            ensures ret == self.ids
        @*/
    }
    impl Default for LockedNonFungibleResource {
        /*@fn radix-engine-interface/src/blueprints/resource/resource.rs :: impl Default for LockedNonFungibleResource :: fn default
        @sig
            ensures ret.ids@ == Map::<NonFungibleLocalId, usize>::empty()
        @*/
    }
    impl LockedNonFungibleResource {
        /*@fn radix-engine-interface/src/blueprints/resource/resource.rs :: impl LockedNonFungibleResource :: fn is_locked
        @sig
            ensures ret == (self.ids@.dom().len() > 0)
        @*/
    }
    /*@fn radix-engine/src/blueprints/resource/bucket_common.rs :: fn drop_non_fungible_bucket
    @sig
        requires
            old(api).state().objects.contains_key(*bucket_node_id) ==> is_nf_bucket(old(api).state().objects[*bucket_node_id]),
        ensures
            ret matches Ok(b) ==> ({
                let s0 = old(api).state(); let s1 = final(api).state();
                &&& s0.objects.contains_key(*bucket_node_id)
                &&& b.liquid.ids@ == bucket_ids(s0.objects[*bucket_node_id])
                &&& bucket_locks(s0.objects[*bucket_node_id]).dom().len() == 0
                &&& s1 == (State { objects: s0.objects.remove(*bucket_node_id), ..s0 })
            }),
            ret is Err ==> final(api).state().objects == old(api).state().objects || final(api).state().objects == old(api).state().objects.remove(*bucket_node_id),
            final(api).state().index == old(api).state().index,
            final(api).state().fields == old(api).state().fields,
            final(api).state().handles == old(api).state().handles,
            final(api).state().features == old(api).state().features,
            final(api).state().events == old(api).state().events,
    @*/
    pub struct NonFungibleResourceManagerBlueprint;
    impl NonFungibleResourceManagerBlueprint {
        /*@fn radix-engine/src/blueprints/resource/non_fungible/non_fungible_resource_manager.rs :: impl NonFungibleResourceManagerBlueprint :: fn create_bucket
        @sig
            ensures
                ret matches Ok(b) ==> ({
                    let s0 = old(api).state(); let s1 = final(api).state();
                    &&& !s0.objects.contains_key(b.0.0)
                    &&& s1.objects.contains_key(b.0.0) && is_new_bucket(s1.objects[b.0.0], ids@)
                    &&& s1 == (State { objects: s0.objects.insert(b.0.0, s1.objects[b.0.0]), ..s0 })
                }),
                ret is Err ==> final(api).state() == old(api).state(),
                ret matches Err(e) ==> !e.is_application_error(),
        @*/
    }
    impl LockedNonFungibleResource {
        /*@fn radix-engine-interface/src/blueprints/resource/resource.rs :: impl LockedNonFungibleResource :: fn amount
        @sig
            ensures ret.v() == self.ids@.dom().len() * one18()
        @*/
    }

    // ==========================================================================================
    // NonFungibleVaultBlueprint
    // ==========================================================================================
    pub struct NonFungibleVaultBlueprint;

    impl NonFungibleVaultBlueprint {
        /*@fn radix-engine/src/blueprints/resource/non_fungible/non_fungible_vault.rs :: impl NonFungibleVaultBlueprint :: fn internal_put
        @sig
            requires
                inv(old(api).state()),
                // no id is in two places: what is deposited is not already held by this vault
                resource.ids@.disjoint(held(old(api).state())),
            ensures
                ret is Ok ==> put_post(old(api).state(), final(api).state(), resource.ids@),
                ret is Ok ==> inv(final(api).state()) && held(final(api).state()) =~= held(old(api).state()).union(resource.ids@),
                // an empty deposit changes nothing at all
                resource.ids@.len() == 0 ==> ret is Ok && final(api).state() == old(api).state(),
                handles_kept(old(api).state().handles, final(api).state().handles),
                // the only refusal of the blueprint itself: the counter would leave the Decimal range
                ret matches Err(e) ==> (e.is_application_error() ==> e == RuntimeError::ApplicationError(ApplicationError::VaultError(VaultError::DecimalOverflow))
                    && !in_dec(amount(old(api).state()) + resource.ids@.len() * one18())),
        @entry
            let ghost ids0 = resource.ids@;
            let ghost ord = resource.ids.order();
            proof { assert(ord.no_duplicates() && ord.to_set() == ids0); }
        @loop 1 iter it
            invariant
                it.seq() == ord, ord.no_duplicates(), ord.to_set() == ids0,
                api.state().index =~= old(api).state().index.union(ord.take(it.index@ as int).to_set()),
                api.state().fields == old(api).state().fields, rest_same(old(api).state(), api.state()),
                !old(api).state().handles.contains_key(handle),
                api.state().handles == old(api).state().handles.insert(handle, (I_BAL(), true)),
                vault.amount.v() == amount(old(api).state()) + ids0.len() * one18(),
        @before <<api.actor_index_insert_typed(>> #1
            proof {
                lemma_take_step(ord, it.index@ as int);
                assert(id == ord[it.index@ as int]);
            }
        @before <<Ok(())>> #2
            proof {
                assert(ord.take(ord.len() as int) =~= ord);
                assert(api.state().handles =~= old(api).state().handles);
                assert(put_post(old(api).state(), api.state(), ids0));
                lemma_put_inv(old(api).state(), api.state(), ids0);
            }
        @*/

        /*@fn radix-engine/src/blueprints/resource/non_fungible/non_fungible_vault.rs :: impl NonFungibleVaultBlueprint :: fn unlock_non_fungibles
        @sig
            requires
                inv(old(api).state()),
                // the `expect`: only ids that are locked can be unlocked
                ids@.subset_of(locks(old(api).state()).dom()),
            ensures
                ret is Ok ==> unlock_post(old(api).state(), final(api).state(), ids@),
                // consequences: the invariant is kept and the vault holds the same ids as before
                ret is Ok ==> inv(final(api).state()) && held(final(api).state()) =~= held(old(api).state()),
                handles_kept(old(api).state().handles, final(api).state().handles),
        @entry
            let ghost ids0 = ids@;
            let ghost ord = ids.order();
            let ghost l0 = locks(api.state());
            proof { assert(ord.no_duplicates() && ord.to_set() == ids0); }
        @loop 1 iter it
            invariant
                it.seq() == ord, ord.no_duplicates(), ord.to_set() == ids0,
                ids0.subset_of(l0.dom()),
                locked.ids@ =~= dec_locks(l0, ord.take(it.index@ as int).to_set()),
                liquid_non_fungibles@ =~= freed(l0, ord.take(it.index@ as int).to_set()),
                forall|id: Id| #[trigger] l0.contains_key(id) ==> l0[id] >= 1,
        @before <<let cnt>> #1
            proof {
                lemma_take_step(ord, it.index@ as int);
                assert(id == ord[it.index@ as int]);
                assert(l0.dom().contains(id));
                assert(locked.ids@.contains_key(id) && locked.ids@[id] == l0[id]);
            }
        @before <<Self::internal_put(>> #1
            proof {
                assert(ord.take(ord.len() as int) =~= ord);
                let s0 = old(api).state();
                let sm = api.state();
                let fr = freed(l0, ids0);
                assert(locks(sm) =~= dec_locks(l0, ids0));
                assert(sm.index == s0.index && amount(sm) == amount(s0));
                assert(fields_frame(s0, sm));
                assert(fr.disjoint(held(sm))) by {
                    assert forall|x: Id| fr.contains(x) implies !held(sm).contains(x) by { assert(l0.dom().contains(x)); }
                }
                assert(inv(sm)) by {
                    assert forall|x: Id| #[trigger] locks(sm).contains_key(x) implies locks(sm)[x] >= 1 by { assert(l0.contains_key(x)); }
                    assert forall|x: Id| !(sm.index.contains(x) && locks(sm).dom().contains(x)) by {
                        if locks(sm).dom().contains(x) { assert(l0.dom().contains(x)); }
                    }
                }
                assert(handles_kept(s0.handles, sm.handles));
                assert forall|h1: Map<FieldHandle, (FieldIndex, bool)>| #[trigger] handles_kept(sm.handles, h1) implies handles_kept(s0.handles, h1) by {
                    lemma_handles_trans(s0.handles, sm.handles, h1);
                }
                assert forall|s1: State| #[trigger] put_post(sm, s1, fr) implies unlock_post(s0, s1, ids0) && inv(s1) && held(s1) =~= held(s0) by {
                    assert(s1.fields.remove(I_BAL()).remove(I_LOCKED()) =~= s0.fields.remove(I_BAL()).remove(I_LOCKED()));
                    assert(unlock_post(s0, s1, ids0));
                    lemma_unlock_inv(s0, s1, ids0);
                }
            }
        @*/

        /*@fn radix-engine/src/blueprints/resource/non_fungible/non_fungible_vault.rs :: impl NonFungibleVaultBlueprint :: fn internal_take_non_fungibles
        @sig
            requires wf(old(api).state())
            ensures
                // exactly the requested ids leave the index and are handed out; the counter follows
                ret matches Ok(r) ==> take_post(old(api).state(), final(api).state(), ids@) && r.ids == *ids,
                ret is Ok ==> (inv(old(api).state()) ==> inv(final(api).state()) && held(final(api).state()) =~= held(old(api).state()).difference(ids@)),
                // an id that is not liquid in this vault (not held at all, or locked behind a proof) cannot be taken.
                // (The store after Err is irrelevant: a RuntimeError aborts the transaction and the track discards
                // every write -- in particular the ids removed before the missing one was met.)
                !ids@.subset_of(old(api).state().index) ==> ret is Err,
                ret matches Err(e) ==> (e.is_application_error() ==> {
                    ||| (e == vault_err(VaultError::DecimalOverflow) && !in_dec(amount(old(api).state()) - ids@.len() * one18()))
                    ||| (exists|id: Id| #[trigger] ids@.contains(id) && !old(api).state().index.contains(id) && e == nfv_err(NonFungibleVaultError::MissingId(id)))
                }),
                // the lock table and every other field are never touched, whatever the outcome
                locks(final(api).state()) == locks(old(api).state()), fields_frame(old(api).state(), final(api).state()),
                handles_kept(old(api).state().handles, final(api).state().handles),
        @entry
            let ghost ord = ids.order();
            proof { assert(ord.no_duplicates() && ord.to_set() == ids@); }
        @loop 1 iter it
            invariant
                ord == ids.order(), ord.no_duplicates(), ord.to_set() == ids@,
                0 <= it.index@ <= ord.len(),
                forall|i: int| 0 <= i < it.index@ ==> old(api).state().index.contains(#[trigger] ord[i]),
                api.state().index =~= old(api).state().index.difference(ord.take(it.index@ as int).to_set()),
                api.state().fields == old(api).state().fields, rest_same(old(api).state(), api.state()),
                !old(api).state().handles.contains_key(handle),
                api.state().handles == old(api).state().handles.insert(handle, (I_BAL(), true)),
                substate_ref.amount.v() == amount(old(api).state()) - ids@.len() * one18(),
        @before <<let removed>> #1
            proof {
                lemma_take_step(ord, it.index@ as int);
                assert(*id == ord[it.index@ as int]);
            }
        @before <<api.field_write_typed(>> #1
            proof {
                assert(ord.take(ord.len() as int) =~= ord);
                lemma_all_in(ord, old(api).state().index);
            }
        @before <<Ok(LiquidNonFungibleResource::new(>> #1
            proof {
                assert(api.state().handles =~= old(api).state().handles);
                assert(take_post(old(api).state(), api.state(), ids@));
                if inv(old(api).state()) { lemma_take_inv(old(api).state(), api.state(), ids@); }
            }
        @*/

        /*@fn radix-engine/src/blueprints/resource/non_fungible/non_fungible_vault.rs :: impl NonFungibleVaultBlueprint :: fn internal_take_by_amount
        @sig
            requires inv(old(api).state())
            ensures
                // exactly n ids leave the index and are handed out; the counter shrinks by n
                ret matches Ok(r) ==> take_post(old(api).state(), final(api).state(), r.ids@) && r.ids@.len() == n,
                ret is Ok ==> inv(final(api).state()),
                ret matches Ok(r) ==> held(final(api).state()) =~= held(old(api).state()).difference(r.ids@),
                // more than the vault holds liquid cannot be taken (locked ids are not available)
                old(api).state().index.len() < n ==> ret is Err && final(api).state().index == old(api).state().index && final(api).state().fields == old(api).state().fields,
                ret matches Err(e) ==> (e.is_application_error() ==>
                    e == nfv_err(NonFungibleVaultError::NotEnoughAmount) && old(api).state().index.len() < n),
                locks(final(api).state()) == locks(old(api).state()), fields_frame(old(api).state(), final(api).state()),
                handles_kept(old(api).state().handles, final(api).state().handles),
        @subst <<ids.into_iter()>> => <<ids.into_iter_shim()>> why: `Vec::into_iter` is a trait method of a std type and cannot be shadowed by an inherent shim method; `into_iter_shim` is the same call with the assumed contract "yields the elements in order" (env::VecIntoIterShim)
        @subst <<|(key, _value)| key>> => <<|kv: (NonFungibleLocalId, NonFungibleVaultNonFungibleEntryPayload)| -> (r: NonFungibleLocalId) ensures r == kv.0 { kv.0 }>> why: Verus does not support patterns in closure parameters; destructuring the pair in the parameter is the same as projecting it in the body (the ensures clause is the usual closure annotation)
        @before <<balance.amount = balance>> #1
            proof {
                assert(old(api).state().index.len() * one18() >= (n as int) * one18());
                lemma_count_ge(old(api).state().index.len() as int, n as int);
            }
        @after <<let ids>> #1
            proof {
                let ks = entry_keys(ids@);
                ks.unique_seq_to_set();
                // whatever sequence the adapter chain yields, if it is the keys of `ids` it builds the set of those keys
                assert forall|sq: Seq<Id>| sq.len() == ids@.len() && (forall|i: int| 0 <= i < sq.len() ==> #[trigger] sq[i] == ids@[i].0)
                    implies #[trigger] sq.to_set() == ks.to_set() by { assert(sq =~= ks); }
            }
        @before <<Ok(taken)>> #1
            proof {
                assert(api.state().handles =~= old(api).state().handles);
                assert(take_post(old(api).state(), api.state(), taken.ids@));
                lemma_take_inv(old(api).state(), api.state(), taken.ids@);
            }
        @*/

        /*@fn radix-engine/src/blueprints/resource/non_fungible/non_fungible_vault.rs :: impl NonFungibleVaultBlueprint :: fn lock_non_fungibles
        @sig
            requires
                inv(old(api).state()),
                // machine range: the proof counter of an id does not overflow
                forall|id: Id| #[trigger] ids@.contains(id) && locks(old(api).state()).contains_key(id) ==> locks(old(api).state())[id] < usize::MAX,
            ensures
                ret is Ok ==> lock_post(old(api).state(), final(api).state(), ids@),
                ret is Ok ==> inv(final(api).state()) && held(final(api).state()) =~= held(old(api).state()),
                // an id the vault does not hold cannot be locked (no proof of something that is not there)
                !ids@.subset_of(held(old(api).state())) ==> ret is Err,
                // .. and that is the ONLY refusal of the blueprint itself (besides a counter leaving the Decimal range):
                // in particular an id that is already locked by another proof can be locked again
                ret matches Err(e) ==> (e.is_application_error() ==> {
                    ||| (e == vault_err(VaultError::DecimalOverflow) && !in_dec(amount(old(api).state()) - fresh_locks(locks(old(api).state()), ids@).len() * one18()))
                    ||| (exists|id: Id| #[trigger] ids@.contains(id) && !held(old(api).state()).contains(id) && e == nfv_err(NonFungibleVaultError::MissingId(id)))
                }),
                handles_kept(old(api).state().handles, final(api).state().handles),
        @subst <<ids .iter() .filter(|&id| !locked.ids.contains_key(id)) .cloned() .collect()>> => <<ids_not_locked(ids, &locked)>> why: iterator adapters (filter / cloned / collect) and the `|&id|` closure pattern are outside the Verus subset; the replacement is an ASSUMED helper (env::ids_not_locked) whose contract is the meaning of the chain: the set of members of `ids` that are not keys of `locked.ids`
        @entry
            let ghost ord = ids.order();
            let ghost s0 = api.state();
            let ghost l0 = locks(api.state());
            proof { assert(ord.no_duplicates() && ord.to_set() == ids@); }
        @after <<let delta>> #1
            proof {
                assert(delta@ =~= fresh_locks(l0, ids@));
                assert(handles_kept(s0.handles, api.state().handles));
                assert forall|h1: Map<FieldHandle, (FieldIndex, bool)>| #[trigger] handles_kept(api.state().handles, h1) implies handles_kept(s0.handles, h1) by {
                    lemma_handles_trans(s0.handles, api.state().handles, h1);
                }
                assert(!delta@.subset_of(api.state().index) ==> !ids@.subset_of(held(s0))) by {
                    if !delta@.subset_of(api.state().index) {
                        let x = choose|x: Id| delta@.contains(x) && !api.state().index.contains(x);
                        assert(ids@.contains(x) && !held(s0).contains(x));
                    }
                }
            }
        @after <<Self::internal_take_non_fungibles(>> #1
            let ghost sm = api.state();
            proof {
                assert(ids@.subset_of(held(s0))) by {
                    assert forall|x: Id| ids@.contains(x) implies held(s0).contains(x) by {
                        if !l0.contains_key(x) { assert(delta@.contains(x)); }
                    }
                }
            }
        @loop 1 iter it
            invariant
                ord == ids.order(), ord.no_duplicates(), ord.to_set() == ids@,
                0 <= it.index@ <= ord.len(),
                forall|id: Id| #[trigger] ids@.contains(id) && l0.contains_key(id) ==> l0[id] < usize::MAX,
                locked.ids@ =~= inc_locks(l0, ord.take(it.index@ as int).to_set()),
                it.index@ == ord.len() ==> locked.ids@ =~= inc_locks(l0, ids@),
        @before <<locked.ids.entry(>> #1
            proof {
                lemma_take_step(ord, it.index@ as int);
                assert(*id == ord[it.index@ as int]);
                assert(ids@.contains(*id));
                assert(ord.take(ord.len() as int) =~= ord);
            }
        @before <<Ok(())>> #1
            proof {
                assert(fields_frame(s0, sm));
                assert(fields_frame(s0, api.state()));
                assert(lock_post(s0, api.state(), ids@));
                lemma_lock_inv(s0, api.state(), ids@);
            }
        @*/

        /*@fn radix-engine/src/blueprints/resource/non_fungible/non_fungible_vault.rs :: impl NonFungibleVaultBlueprint :: fn get_amount
        @sig
            requires wf(old(api).state())
            ensures
                final(api).state().fields == old(api).state().fields, final(api).state().index == old(api).state().index,
                handles_kept(old(api).state().handles, final(api).state().handles),
                ret matches Ok(a) ==> a.v() == amount(old(api).state()) + locks(old(api).state()).dom().len() * one18(),
                // C04, the clause itself: the amount the vault reports IS the number of ids it holds (liquid or locked)
                ret matches Ok(a) ==> (inv(old(api).state()) ==> a.v() == held(old(api).state()).len() * one18()),
        @entry
            proof { if inv(api.state()) { lemma_held_len(api.state()); } }
        @*/

        /*@fn radix-engine/src/blueprints/resource/non_fungible/non_fungible_vault.rs :: impl NonFungibleVaultBlueprint :: fn assert_not_frozen
        @sig
            requires wf_vault(old(api).state())
            ensures
                ret is Ok ==> !frozen_for(old(api).state(), flags) && final(api).state().handles =~= old(api).state().handles,
                frozen_for(old(api).state(), flags) ==> ret is Err,
                // the blueprint itself refuses ONLY a vault that really is frozen for the operation
                ret matches Err(e) ==> (e.is_application_error() ==> frozen_for(old(api).state(), flags)
                    && e == vault_err(VaultError::VaultIsFrozen)),
                final(api).state().fields == old(api).state().fields, final(api).state().index == old(api).state().index,
                rest_same(old(api).state(), final(api).state()),
                handles_kept(old(api).state().handles, final(api).state().handles),
        @*/

        /*@fn radix-engine/src/blueprints/resource/non_fungible/non_fungible_vault.rs :: impl NonFungibleVaultBlueprint :: fn assert_recallable
        @sig
            ensures
                final(api).state() == old(api).state(),
                ret is Ok ==> recallable(old(api).state()),
                !recallable(old(api).state()) ==> ret is Err,
                ret matches Err(e) ==> (e.is_application_error() ==> e == vault_err(VaultError::NotRecallable)),
        @*/

        /*@fn radix-engine/src/blueprints/resource/non_fungible/non_fungible_vault.rs :: impl NonFungibleVaultBlueprint :: fn take_non_fungibles
        @sig
            requires inv(old(api).state()), wf_vault(old(api).state())
            ensures
                // exactly the requested ids leave the vault into a fresh bucket; one WithdrawEvent names them
                ret matches Ok(b) ==> !frozen_for(old(api).state(), VaultFreezeFlags::WITHDRAW)
                    && withdrawn(old(api).state(), final(api).state(), b.0.0, non_fungible_local_ids@, EventG::Withdraw(non_fungible_local_ids@)),
                ret is Ok ==> inv(final(api).state()) && held(final(api).state()) =~= held(old(api).state()).difference(non_fungible_local_ids@),
                frozen_for(old(api).state(), VaultFreezeFlags::WITHDRAW) ==> ret is Err,
                // ids that are not liquid in this vault (absent, or locked behind a proof) cannot be withdrawn
                !non_fungible_local_ids@.subset_of(old(api).state().index) ==> ret is Err,
                handles_kept(old(api).state().handles, final(api).state().handles),
        @after <<Self::assert_not_frozen(>> #1
            let ghost sa = api.state();
            proof {
                assert forall|h1: Map<FieldHandle, (FieldIndex, bool)>| #[trigger] handles_kept(sa.handles, h1) implies handles_kept(old(api).state().handles, h1) by {
                    lemma_handles_trans(old(api).state().handles, sa.handles, h1);
                }
            }
        @before <<Ok(bucket)>> #1
            proof {
                lemma_take_inv(old(api).state(), api.state(), non_fungible_local_ids@);
            }
        @*/

        /*@fn radix-engine/src/blueprints/resource/non_fungible/non_fungible_vault.rs :: impl NonFungibleVaultBlueprint :: fn recall_non_fungibles
        @sig
            requires inv(old(api).state())
            ensures
                ret matches Ok(b) ==> recallable(old(api).state())
                    && withdrawn(old(api).state(), final(api).state(), b.0.0, non_fungible_local_ids@, EventG::Recall(non_fungible_local_ids@)),
                ret is Ok ==> inv(final(api).state()) && held(final(api).state()) =~= held(old(api).state()).difference(non_fungible_local_ids@),
                !recallable(old(api).state()) ==> ret is Err,
                // a recall cannot reach ids that are locked behind a proof either
                !non_fungible_local_ids@.subset_of(old(api).state().index) ==> ret is Err,
                handles_kept(old(api).state().handles, final(api).state().handles),
        @before <<Ok(bucket)>> #1
            proof {
                lemma_take_inv(old(api).state(), api.state(), non_fungible_local_ids@);
            }
        @*/

        /*@fn radix-engine/src/blueprints/resource/non_fungible/non_fungible_vault.rs :: impl NonFungibleVaultBlueprint :: fn take_advanced
        @sig
            requires inv(old(api).state()), wf_vault(old(api).state())
            ensures
                // some set T of liquid ids leaves the vault into a fresh bucket (T = the bucket's content); one
                // WithdrawEvent names exactly T; with the Exact strategy |T| is the requested amount
                ret matches Ok(b) ==> ({
                    let t = bucket_ids(final(api).state().objects[b.0.0]);
                    &&& !frozen_for(old(api).state(), VaultFreezeFlags::WITHDRAW)
                    &&& withdrawn(old(api).state(), final(api).state(), b.0.0, t, EventG::Withdraw(t))
                    &&& (withdraw_strategy is Exact ==> t.len() * one18() == amount.v())
                }),
                ret is Ok ==> inv(final(api).state()),
                frozen_for(old(api).state(), VaultFreezeFlags::WITHDRAW) ==> ret is Err,
                // more than the liquid ids cannot be withdrawn
                withdraw_strategy is Exact && amount.v() > old(api).state().index.len() * one18() ==> ret is Err,
                handles_kept(old(api).state().handles, final(api).state().handles),
        @subst <<|_| { RuntimeError::ApplicationError(ApplicationError::VaultError( VaultError::InvalidAmount(amount), )) }>> => <<|_e: ()| -> (r: RuntimeError) ensures r.is_application_error() { RuntimeError::ApplicationError(ApplicationError::VaultError( VaultError::InvalidAmount(amount), )) }>> why: Verus rejects the wildcard closure parameter `_`; naming the unused unit-typed parameter changes nothing (the ensures clause is the usual closure annotation)
        @after <<Self::assert_not_frozen(>> #1
            let ghost sa = api.state();
            proof {
                assert forall|h1: Map<FieldHandle, (FieldIndex, bool)>| #[trigger] handles_kept(sa.handles, h1) implies handles_kept(old(api).state().handles, h1) by {
                    lemma_handles_trans(old(api).state().handles, sa.handles, h1);
                }
                assert forall|nn: int| #![trigger nn * one18()] nn * one18() > old(api).state().index.len() * one18() implies nn > old(api).state().index.len() by {
                    lemma_count_gt(nn, old(api).state().index.len() as int);
                }
            }
        @before <<Ok(bucket)>> #1
            proof {
                assert(bucket_ids(api.state().objects[bucket.0.0]) == ids@);
                lemma_take_inv(old(api).state(), api.state(), ids@);
            }
        @*/

        /*@fn radix-engine/src/blueprints/resource/non_fungible/non_fungible_vault.rs :: impl NonFungibleVaultBlueprint :: fn take
        @sig
            requires inv(old(api).state()), wf_vault(old(api).state())
            ensures
                ret matches Ok(b) ==> ({
                    let t = bucket_ids(final(api).state().objects[b.0.0]);
                    &&& !frozen_for(old(api).state(), VaultFreezeFlags::WITHDRAW)
                    &&& withdrawn(old(api).state(), final(api).state(), b.0.0, t, EventG::Withdraw(t))
                    &&& t.len() * one18() == amount.v()
                }),
                ret is Ok ==> inv(final(api).state()),
                frozen_for(old(api).state(), VaultFreezeFlags::WITHDRAW) ==> ret is Err,
                amount.v() > old(api).state().index.len() * one18() ==> ret is Err,
                handles_kept(old(api).state().handles, final(api).state().handles),
        @*/

        /*@fn radix-engine/src/blueprints/resource/non_fungible/non_fungible_vault.rs :: impl NonFungibleVaultBlueprint :: fn recall
        @sig
            requires inv(old(api).state())
            ensures
                ret matches Ok(b) ==> ({
                    let t = bucket_ids(final(api).state().objects[b.0.0]);
                    &&& recallable(old(api).state())
                    &&& withdrawn(old(api).state(), final(api).state(), b.0.0, t, EventG::Recall(t))
                    &&& t.len() * one18() == amount.v()
                }),
                ret is Ok ==> inv(final(api).state()),
                !recallable(old(api).state()) ==> ret is Err,
                handles_kept(old(api).state().handles, final(api).state().handles),
        @subst <<|_| { RuntimeError::ApplicationError(ApplicationError::VaultError(VaultError::InvalidAmount( amount, ))) }>> => <<|_e: ()| -> (r: RuntimeError) ensures r.is_application_error() { RuntimeError::ApplicationError(ApplicationError::VaultError(VaultError::InvalidAmount( amount, ))) }>> why: Verus rejects the wildcard closure parameter `_`; naming the unused unit-typed parameter changes nothing (the ensures clause is the usual closure annotation)
        @before <<Ok(bucket)>> #1
            proof {
                assert(bucket_ids(api.state().objects[bucket.0.0]) == ids@);
                lemma_take_inv(old(api).state(), api.state(), ids@);
            }
        @*/

        /*@fn radix-engine/src/blueprints/resource/non_fungible/non_fungible_vault.rs :: impl NonFungibleVaultBlueprint :: fn put
        @sig
            requires
                inv(old(api).state()), wf_vault(old(api).state()),
                // argument validation + drop_object's outer-object check: a live node passed as bucket is a non-fungible bucket
                old(api).state().objects.contains_key(bucket.0.0) ==> is_nf_bucket(old(api).state().objects[bucket.0.0]),
                // no id is in two places: what the bucket holds is not also held by this vault
                old(api).state().objects.contains_key(bucket.0.0) ==> bucket_ids(old(api).state().objects[bucket.0.0]).disjoint(held(old(api).state())),
            ensures
                ret is Ok ==> !frozen_for(old(api).state(), VaultFreezeFlags::DEPOSIT) && deposited(old(api).state(), final(api).state(), bucket.0.0),
                ret is Ok ==> inv(final(api).state()) && held(final(api).state()) =~= held(old(api).state()).union(bucket_ids(old(api).state().objects[bucket.0.0])),
                frozen_for(old(api).state(), VaultFreezeFlags::DEPOSIT) ==> ret is Err,
                handles_kept(old(api).state().handles, final(api).state().handles),
        @after <<Self::assert_not_frozen(>> #1
            let ghost sa = api.state();
            proof {
                assert forall|h1: Map<FieldHandle, (FieldIndex, bool)>| #[trigger] handles_kept(sa.handles, h1) implies handles_kept(old(api).state().handles, h1) by {
                    lemma_handles_trans(old(api).state().handles, sa.handles, h1);
                }
            }
        @before <<Ok(())>> #1
            proof {
                lemma_put_inv(old(api).state(), api.state(), bucket_ids(old(api).state().objects[bucket.0.0]));
            }
        @*/

        /*@fn radix-engine/src/blueprints/resource/non_fungible/non_fungible_vault.rs :: impl NonFungibleVaultBlueprint :: fn liquid_amount
        @sig
            requires wf(old(api).state())
            ensures
                final(api).state().fields == old(api).state().fields, final(api).state().index == old(api).state().index,
                handles_kept(old(api).state().handles, final(api).state().handles),
                ret matches Ok(a) ==> a.v() == amount(old(api).state()),
                // under the invariant: the reported liquid amount IS the number of liquid ids
                ret matches Ok(a) ==> (inv(old(api).state()) ==> a.v() == old(api).state().index.len() * one18()),
        @*/

        /*@fn radix-engine/src/blueprints/resource/non_fungible/non_fungible_vault.rs :: impl NonFungibleVaultBlueprint :: fn locked_amount
        @sig
            requires wf(old(api).state())
            ensures
                final(api).state().fields == old(api).state().fields, final(api).state().index == old(api).state().index,
                handles_kept(old(api).state().handles, final(api).state().handles),
                // the number of ids behind live proofs
                ret matches Ok(a) ==> a.v() == locks(old(api).state()).dom().len() * one18(),
        @*/
    }
}
} // verus!
fn main() {}
