// Unit c09_worktop -- property C09 "Resources cannot vanish or be duplicated inside a transaction" (worktop level)
// Real code: radix-engine/src/blueprints/resource/worktop.rs :: WorktopBlueprint::{put, take, take_non_fungibles,
//   take_all, assert_contains, assert_contains_amount, assert_contains_non_fungibles, drain, drop}
//   radix-engine/src/system/system_substates.rs :: FieldSubstate::{new_field, new_unlocked_field, into_payload}
// Environment (trusted, shims/sysapi_c09.rs): ghost-heap SystemApi (fields / handles / live buckets), the native
//   bucket SDK calls, IndexedScryptoValue decode / encode, indexmap iteration extras.
// Abstract state: W = the worktop substate (resource -> bucket node), H = the heap of live buckets
//   (bucket node -> resource, amount, ids).
use vstd::prelude::*;
verus! {
/*@include shims/rt.rs @*/
/*@include shims/decimal.rs @*/
/*@include shims/maps.rs @*/
/*@include shims/sets.rs @*/

pub mod env {
    use vstd::prelude::*;
    use super::decimal::Decimal;
    use super::maps::IndexMap;
    use super::sets::IndexSet;
    use super::shim_sysapi::*;

    /*@item radix-engine/src/blueprints/resource/worktop.rs :: struct WorktopSubstate
    @derive
    @*/
    /*@item radix-engine/src/blueprints/resource/worktop.rs :: enum WorktopError
    @derive
    @*/
    /*@item radix-engine/src/blueprints/resource/worktop.rs :: struct WorktopBlueprint
    @*/
    /*@item radix-common/src/data/manifest/model/manifest_resource_assertion.rs :: enum ResourceConstraintsError
    @derive
    @*/
    /*@item radix-common/src/data/manifest/model/manifest_resource_assertion.rs :: enum ResourceConstraintError
    @derive
    @*/
    /*@item radix-engine-interface/src/blueprints/resource/bucket.rs :: struct Bucket
    @derive
    @*/
    /*@item radix-engine-interface/src/blueprints/resource/bucket.rs :: struct NonFungibleBucket
    @derive
    @*/
    // ---- invocation inputs (radix-engine-interface/src/blueprints/resource/worktop.rs) ----
    /*@item radix-engine-interface/src/blueprints/resource/worktop.rs :: struct OwnedWorktop
    @derive
    @*/
    /*@item radix-engine-interface/src/blueprints/resource/worktop.rs :: struct WorktopDropInput
    @derive
    @*/
    /*@item radix-engine-interface/src/blueprints/resource/worktop.rs :: struct WorktopPutInput
    @derive
    @*/
    /*@item radix-engine-interface/src/blueprints/resource/worktop.rs :: struct WorktopTakeInput
    @derive
    @*/
    /*@item radix-engine-interface/src/blueprints/resource/worktop.rs :: struct WorktopTakeNonFungiblesInput
    @derive
    @*/
    /*@item radix-engine-interface/src/blueprints/resource/worktop.rs :: struct WorktopTakeAllInput
    @derive
    @*/
    /*@item radix-engine-interface/src/blueprints/resource/worktop.rs :: struct WorktopAssertContainsInput
    @derive
    @*/
    /*@item radix-engine-interface/src/blueprints/resource/worktop.rs :: struct WorktopAssertContainsAmountInput
    @derive
    @*/
    /*@item radix-engine-interface/src/blueprints/resource/worktop.rs :: struct WorktopAssertContainsNonFungiblesInput
    @derive
    @*/
    /*@item radix-engine-interface/src/blueprints/resource/worktop.rs :: struct WorktopDrainInput
    @derive
    @*/
    // ---- raw field substate wrapper (radix-engine/src/system/system_substates.rs) ----
    /*@item radix-engine/src/system/system_substates.rs :: struct FieldSubstateV1
    @derive
    @*/
    /*@item radix-engine/src/system/system_substates.rs :: enum FieldSubstate
    @derive
    @*/
    /*@item radix-engine/src/system/system_substates.rs :: enum LockStatus
    @derive
    @*/

    /// radix-engine/src/errors.rs: only the variants constructed by the code under contract are named
    pub enum ApplicationError { InputDecodeError(DecodeError), WorktopError(WorktopError), Other }
    pub enum RuntimeError { ApplicationError(ApplicationError), Other }
}

/*@include shims/sysapi_c09.rs @*/

pub mod unit {
    use vstd::prelude::*;
    use super::rt::*;
    use super::decimal::*;
    use super::decimal::Decimal;
    use super::maps::*;
    use super::sets::*;
    use super::env::*;
    use super::shim_sysapi::*;
    broadcast use {group_decimal, group_sets};

    pub type Id = NonFungibleLocalId;
    pub type Fields = Map<FieldIndex, Wire>;
    pub type WMap = Map<ResourceAddress, Own>;

    // typed payloads of the worktop field
    impl SborVal for WorktopSubstate {
        open spec fn wire(&self) -> Wire { Wire::Worktop(self.resources@) }
        open spec fn accepts(w: Wire) -> bool { w is Worktop }
    }
    impl<T: SborVal> SborVal for FieldSubstate<T> {
        open spec fn wire(&self) -> Wire { match *self { FieldSubstate::V1(x) => x.payload.wire() } }
        open spec fn accepts(w: Wire) -> bool { T::accepts(w) }
    }

    // ==========================================================================================
    // ORACLE (from the property statement)
    // ==========================================================================================
    /// the worktop: resource -> bucket node
    pub open spec fn wt(f: Fields) -> WMap { f[I_WORKTOP()]->Worktop_0 }
    /// amount of resource r the worktop holds
    pub open spec fn on_worktop(w: WMap, h: Buckets, r: ResourceAddress) -> int {
        if w.contains_key(r) { h[w[r]].amount } else { 0 }
    }
    /// non-fungible ids of resource r the worktop holds
    pub open spec fn ids_on_worktop(w: WMap, h: Buckets, r: ResourceAddress) -> Set<Id> {
        if w.contains_key(r) { h[w[r]].ids } else { Set::<Id>::empty() }
    }
    /// worktop invariant: every entry is a live, NON-EMPTY bucket of the resource it is filed under
    /// ("Invariant: no empty buckets in the worktop!", worktop.rs) -- hence distinct resources have distinct buckets
    pub open spec fn wf(f: Fields, h: Buckets) -> bool {
        &&& f.contains_key(I_WORKTOP()) && f[I_WORKTOP()] is Worktop
        &&& forall|r: ResourceAddress| #[trigger] wt(f).contains_key(r) ==>
                h.contains_key(wt(f)[r]) && h[wt(f)[r]].resource == r && h[wt(f)[r]].amount > 0 && bucket_inv(h[wt(f)[r]])
    }
    /// only the worktop field may have been written
    pub open spec fn fields_frame(f0: Fields, f1: Fields) -> bool {
        f1 =~= f0.insert(I_WORKTOP(), f1[I_WORKTOP()])
    }
    pub open spec fn err_decode(e: DecodeError) -> RuntimeError { RuntimeError::ApplicationError(ApplicationError::InputDecodeError(e)) }
    pub open spec fn err_insufficient() -> RuntimeError {
        RuntimeError::ApplicationError(ApplicationError::WorktopError(WorktopError::InsufficientBalance))
    }
    pub open spec fn err_assertion(r: ResourceAddress, c: ResourceConstraintError) -> RuntimeError {
        RuntimeError::ApplicationError(ApplicationError::WorktopError(WorktopError::AssertionFailed(
            ResourceConstraintsError::ResourceConstraintFailed { resource_address: r, error: c })))
    }

    /// A bucket `b` of resource `r` has left the worktop (take / take_non_fungibles / take_all).
    /// Nothing vanishes, nothing is duplicated:
    pub open spec fn took(w0: WMap, h0: Buckets, w1: WMap, h1: Buckets, r: ResourceAddress, b: Own) -> bool {
        &&& h1.contains_key(b) && h1[b].resource == r
        // per-resource conservation: what is left on the worktop + what is returned == what was there
        &&& on_worktop(w1, h1, r) + h1[b].amount == on_worktop(w0, h0, r)
        &&& ids_on_worktop(w1, h1, r).union(h1[b].ids) =~= ids_on_worktop(w0, h0, r)
        &&& ids_on_worktop(w1, h1, r).disjoint(h1[b].ids)
        // nothing else changes: the other worktop entries ...
        &&& w1.remove(r) =~= w0.remove(r)
        &&& (w1.contains_key(r) ==> w0.contains_key(r) && w1[r] == w0[r])
        // ... and every bucket other than the returned one and r's worktop bucket
        &&& forall|o: Own| o != b && !(w0.contains_key(r) && o == w0[r]) ==> (h1.contains_key(o) == h0.contains_key(o) && h1[o] == h0[o])
        // the returned bucket is NEW, or it is r's former worktop bucket, which is then off the worktop and untouched
        &&& (!h0.contains_key(b) || (w0.contains_key(r) && b == w0[r] && !w1.contains_key(r) && h1 == h0))
    }

    impl WorktopBlueprint {
        /*@fn radix-engine/src/blueprints/resource/worktop.rs :: impl WorktopBlueprint :: fn take
        @sig
            requires wf(old(api).fields(), old(api).buckets())
            ensures
                // undecodable input: refused, nothing touched
                decode::<WorktopTakeInput>(*input) matches Err(e) ==> ret == Err::<IndexedScryptoValue, RuntimeError>(err_decode(e))
                    && untouched::<Y, RuntimeError>(old(api), final(api)),
                decode::<WorktopTakeInput>(*input) matches Ok(i) ==> ({
                    let r = i.resource_address; let a = i.amount.v();
                    let w0 = wt(old(api).fields()); let h0 = old(api).buckets();
                    let w1 = wt(final(api).fields()); let h1 = final(api).buckets();
                    // Ok ==> the returned bucket holds exactly a, the worktop amount of r decreases by a, nothing else changes
                    &&& ret matches Ok(v) ==> (v.wire() matches Wire::Own(b) && took(w0, h0, w1, h1, r, b) && h1[b].amount == a
                            && 0 <= a <= on_worktop(w0, h0, r)
                            && wf(final(api).fields(), h1) && fields_frame(old(api).fields(), final(api).fields())
                            && final(api).handles() =~= old(api).handles())
                    // a > held ==> Err
                    &&& a > on_worktop(w0, h0, r) ==> ret is Err
                    // the only refusal of the worktop itself is InsufficientBalance, exactly when more than held is asked
                    // (or a negative amount of a resource that is not there), and then nothing has been touched
                    &&& ret matches Err(e) && e.is_worktop_error() ==> e == err_insufficient()
                            && a != 0 && (a > on_worktop(w0, h0, r) || (a < 0 && !w0.contains_key(r)))
                            && final(api).fields() == old(api).fields() && h1 == h0
                }),
        @closure 1 := |e: DecodeError| -> (r: RuntimeError) ensures r == err_decode(e)
        @*/
    }
}
} // verus!
fn main() {}
