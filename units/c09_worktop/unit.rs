// Unit c09_worktop -- property C09 "Resources cannot vanish or be duplicated inside a transaction" (worktop level)
// Real code: radix-engine/src/blueprints/resource/worktop.rs :: WorktopBlueprint::{put, take, take_non_fungibles,
//   take_all, assert_contains, assert_contains_amount, assert_contains_non_fungibles, drain, drop}
//   radix-engine/src/system/system_substates.rs :: FieldSubstate::{new_field, new_unlocked_field, into_payload}
// Environment (trusted, shims/sysapi_c09.rs): ghost-heap SystemApi (fields / handles / live buckets), the native
//   bucket SDK calls, IndexedScryptoValue decode / encode, indexmap iteration extras.
// Abstract state: W = the worktop substate (resource -> bucket node), H = the heap of live buckets
//   (bucket node -> resource, amount, ids).
use vstd::prelude::*;
verus! {
/*@include shims/rt.rs @*/
/*@include shims/decimal.rs @*/
/*@include shims/maps.rs @*/
/*@include shims/sets.rs @*/

pub mod env {
    use vstd::prelude::*;
    use super::decimal::Decimal;
    use super::maps::IndexMap;
    use super::sets::IndexSet;
    use super::shim_sysapi::*;

    /*@item radix-engine/src/blueprints/resource/worktop.rs :: struct WorktopSubstate
    @derive
    @*/
    /*@item radix-engine/src/blueprints/resource/worktop.rs :: enum WorktopError
    @derive
    @*/
    /*@item radix-engine/src/blueprints/resource/worktop.rs :: struct WorktopBlueprint
    @*/
    /*@item radix-common/src/data/manifest/model/manifest_resource_assertion.rs :: enum ResourceConstraintsError
    @derive
    @*/
    /*@item radix-common/src/data/manifest/model/manifest_resource_assertion.rs :: enum ResourceConstraintError
    @derive
    @*/
    /*@item radix-engine-interface/src/blueprints/resource/bucket.rs :: struct Bucket
    @derive
    @*/
    /*@item radix-engine-interface/src/blueprints/resource/bucket.rs :: struct NonFungibleBucket
    @derive
    @*/
    // ---- invocation inputs (radix-engine-interface/src/blueprints/resource/worktop.rs) ----
    /*@item radix-engine-interface/src/blueprints/resource/worktop.rs :: struct OwnedWorktop
    @derive
    @*/
    /*@item radix-engine-interface/src/blueprints/resource/worktop.rs :: struct WorktopDropInput
    @derive
    @*/
    /*@item radix-engine-interface/src/blueprints/resource/worktop.rs :: struct WorktopPutInput
    @derive
    @*/
    /*@item radix-engine-interface/src/blueprints/resource/worktop.rs :: struct WorktopTakeInput
    @derive
    @*/
    /*@item radix-engine-interface/src/blueprints/resource/worktop.rs :: struct WorktopTakeNonFungiblesInput
    @derive
    @*/
    /*@item radix-engine-interface/src/blueprints/resource/worktop.rs :: struct WorktopTakeAllInput
    @derive
    @*/
    /*@item radix-engine-interface/src/blueprints/resource/worktop.rs :: struct WorktopAssertContainsInput
    @derive
    @*/
    /*@item radix-engine-interface/src/blueprints/resource/worktop.rs :: struct WorktopAssertContainsAmountInput
    @derive
    @*/
    /*@item radix-engine-interface/src/blueprints/resource/worktop.rs :: struct WorktopAssertContainsNonFungiblesInput
    @derive
    @*/
    /*@item radix-engine-interface/src/blueprints/resource/worktop.rs :: struct WorktopDrainInput
    @derive
    @*/
    // ---- raw field substate wrapper (radix-engine/src/system/system_substates.rs) ----
    /*@item radix-engine/src/system/system_substates.rs :: struct FieldSubstateV1
    @derive
    @*/
    /*@item radix-engine/src/system/system_substates.rs :: enum FieldSubstate
    @derive
    @*/
    /*@item radix-engine/src/system/system_substates.rs :: enum LockStatus
    @derive
    @*/

    /// radix-engine/src/errors.rs: only the variants constructed by the code under contract are named
    pub enum ApplicationError { InputDecodeError(DecodeError), WorktopError(WorktopError), Other }
    pub enum RuntimeError { ApplicationError(ApplicationError), Other }
}

/*@include shims/sysapi_c09.rs @*/

pub mod unit {
    use vstd::prelude::*;
    use super::rt::*;
    use super::decimal::*;
    use super::decimal::Decimal;
    use super::maps::*;
    use super::sets::*;
    use super::env::*;
    use super::shim_sysapi::*;
    broadcast use {group_decimal, group_sets};

    pub type Id = NonFungibleLocalId;
    pub type Fields = Map<FieldIndex, Wire>;
    pub type WMap = Map<ResourceAddress, Own>;

    // typed payloads of the worktop field
    impl SborVal for WorktopSubstate {
        open spec fn wire(&self) -> Wire { Wire::Worktop(self.resources@) }
        open spec fn accepts(w: Wire) -> bool { w is Worktop }
    }
    impl<T: SborVal> SborVal for FieldSubstate<T> {
        open spec fn wire(&self) -> Wire { match *self { FieldSubstate::V1(x) => x.payload.wire() } }
        open spec fn accepts(w: Wire) -> bool { T::accepts(w) }
    }

    // ==========================================================================================
    // ORACLE (from the property statement)
    // ==========================================================================================
    /// the worktop: resource -> bucket node
    pub open spec fn wt(f: Fields) -> WMap { f[I_WORKTOP()]->Worktop_0 }
    /// amount of resource r the worktop holds
    pub open spec fn on_worktop(w: WMap, h: Buckets, r: ResourceAddress) -> int {
        if w.contains_key(r) { h[w[r]].amount } else { 0 }
    }
    /// non-fungible ids of resource r the worktop holds
    pub open spec fn ids_on_worktop(w: WMap, h: Buckets, r: ResourceAddress) -> Set<Id> {
        if w.contains_key(r) { h[w[r]].ids } else { Set::<Id>::empty() }
    }
    /// worktop invariant: every entry is a live, NON-EMPTY bucket of the resource it is filed under
    /// ("Invariant: no empty buckets in the worktop!", worktop.rs) -- hence distinct resources have distinct buckets
    pub open spec fn wf(f: Fields, h: Buckets) -> bool {
        &&& f.contains_key(I_WORKTOP()) && f[I_WORKTOP()] is Worktop
        &&& forall|r: ResourceAddress| #[trigger] wt(f).contains_key(r) ==>
                h.contains_key(wt(f)[r]) && h[wt(f)[r]].resource == r && h[wt(f)[r]].amount > 0 && bucket_inv(h[wt(f)[r]])
    }
    /// only the worktop field may have been written
    pub open spec fn fields_frame(f0: Fields, f1: Fields) -> bool {
        f1 =~= f0.insert(I_WORKTOP(), f1[I_WORKTOP()])
    }
    pub open spec fn err_decode(e: DecodeError) -> RuntimeError { RuntimeError::ApplicationError(ApplicationError::InputDecodeError(e)) }
    pub open spec fn err_insufficient() -> RuntimeError {
        RuntimeError::ApplicationError(ApplicationError::WorktopError(WorktopError::InsufficientBalance))
    }
    pub open spec fn err_assertion(r: ResourceAddress, c: ResourceConstraintError) -> RuntimeError {
        RuntimeError::ApplicationError(ApplicationError::WorktopError(WorktopError::AssertionFailed(
            ResourceConstraintsError::ResourceConstraintFailed { resource_address: r, error: c })))
    }

    /// the (resource, id) reported by an AssertionFailed(ResourceConstraintFailed { NonFungibleMissing }) error
    pub open spec fn missing_of(e: RuntimeError) -> Option<(ResourceAddress, Id)> {
        match e {
            RuntimeError::ApplicationError(ApplicationError::WorktopError(WorktopError::AssertionFailed(
                ResourceConstraintsError::ResourceConstraintFailed { resource_address, error: ResourceConstraintError::NonFungibleMissing { missing_id } }))) =>
                Some((resource_address, missing_id)),
            _ => None,
        }
    }

    /// A bucket `b` of resource `r` has left the worktop (take / take_non_fungibles / take_all).
    /// Nothing vanishes, nothing is duplicated:
    pub open spec fn took(w0: WMap, h0: Buckets, w1: WMap, h1: Buckets, r: ResourceAddress, b: Own) -> bool {
        &&& h1.contains_key(b) && h1[b].resource == r
        // per-resource conservation: what is left on the worktop + what is returned == what was there
        &&& on_worktop(w1, h1, r) + h1[b].amount == on_worktop(w0, h0, r)
        &&& ids_on_worktop(w1, h1, r).union(h1[b].ids) =~= ids_on_worktop(w0, h0, r)
        &&& ids_on_worktop(w1, h1, r).disjoint(h1[b].ids)
        // nothing else changes: the other worktop entries ...
        &&& w1.remove(r) =~= w0.remove(r)
        &&& (w1.contains_key(r) ==> w0.contains_key(r) && w1[r] == w0[r])
        // ... and every bucket other than the returned one and r's worktop bucket
        &&& frame2(h0, h1, b, if w0.contains_key(r) { w0[r] } else { b })
        // the returned bucket is NEW, or it is r's former worktop bucket, which is then off the worktop and untouched
        &&& (!h0.contains_key(b) || (w0.contains_key(r) && b == w0[r] && !w1.contains_key(r) && h1 == h0))
    }

    /// The live bucket `bk` has been put on the worktop: its amount and ids are added to the worktop's holding of its
    /// resource, nothing else changes, and the bucket is either the worktop's bucket of that resource now or no
    /// longer exists (merged into it / dropped because empty)
    pub open spec fn was_put(w0: WMap, h0: Buckets, w1: WMap, h1: Buckets, bk: Own) -> bool {
        let r = h0[bk].resource;
        &&& h0.contains_key(bk)
        &&& on_worktop(w1, h1, r) == on_worktop(w0, h0, r) + h0[bk].amount
        &&& ids_on_worktop(w1, h1, r) =~= ids_on_worktop(w0, h0, r).union(h0[bk].ids)
        &&& w1.remove(r) =~= w0.remove(r)
        &&& (w0.contains_key(r) ==> w1.contains_key(r) && w1[r] == w0[r])
        &&& frame2(h0, h1, bk, if w0.contains_key(r) { w0[r] } else { bk })
        &&& ((w1.contains_key(r) && w1[r] == bk && !w0.contains_key(r) && h1 == h0) || !h1.contains_key(bk))
    }

    // ---- "total value is invariant across each call", per resource (amounts of different resources are not
    //      commensurable, so the per-resource statement is the strongest form of  Sigma_worktop + Sigma_returned) ----
    /// `took` conserves r (by definition: left + returned == before) and leaves EVERY other resource's holding as it was
    pub proof fn lemma_took_conserves(f0: Fields, h0: Buckets, f1: Fields, h1: Buckets, r: ResourceAddress, b: Own, r2: ResourceAddress)
        requires wf(f0, h0), took(wt(f0), h0, wt(f1), h1, r, b), r2 != r
        ensures on_worktop(wt(f1), h1, r2) == on_worktop(wt(f0), h0, r2),
                ids_on_worktop(wt(f1), h1, r2) == ids_on_worktop(wt(f0), h0, r2),
    {
        let w0 = wt(f0); let w1 = wt(f1);
        assert(w1.remove(r).contains_key(r2) == w0.remove(r).contains_key(r2));
        if w0.contains_key(r2) {
            assert(w1.remove(r)[r2] == w0.remove(r)[r2]);
            let o = w0[r2];
            let x = if w0.contains_key(r) { w0[r] } else { b };
            assert(wt(f0).contains_key(r2));
            if w0.contains_key(r) { assert(wt(f0).contains_key(r)); }
            lemma_frame2(h0, h1, b, x, o);
        }
    }
    /// `was_put` adds the bucket's amount to its resource and leaves EVERY other resource's holding as it was
    pub proof fn lemma_put_conserves(f0: Fields, h0: Buckets, f1: Fields, h1: Buckets, bk: Own, r2: ResourceAddress)
        requires wf(f0, h0), was_put(wt(f0), h0, wt(f1), h1, bk), r2 != h0[bk].resource
        ensures on_worktop(wt(f1), h1, r2) == on_worktop(wt(f0), h0, r2),
                ids_on_worktop(wt(f1), h1, r2) == ids_on_worktop(wt(f0), h0, r2),
    {
        let w0 = wt(f0); let w1 = wt(f1); let r = h0[bk].resource;
        assert(w1.remove(r).contains_key(r2) == w0.remove(r).contains_key(r2));
        if w0.contains_key(r2) {
            assert(w1.remove(r)[r2] == w0.remove(r)[r2]);
            let o = w0[r2];
            let x = if w0.contains_key(r) { w0[r] } else { bk };
            assert(wt(f0).contains_key(r2));
            if w0.contains_key(r) { assert(wt(f0).contains_key(r)); }
            lemma_frame2(h0, h1, bk, x, o);
        }
    }

    // ---- FieldSubstate (radix-engine/src/system/system_substates.rs), used by `drop` ----------------
    impl<V> FieldSubstate<V> {
        /*@fn radix-engine/src/system/system_substates.rs :: impl<V> FieldSubstate<V> :: fn new_field
        @sig
            ensures ret == (FieldSubstate::V1(FieldSubstateV1 { payload, lock_status }))
        @*/
        /*@fn radix-engine/src/system/system_substates.rs :: impl<V> FieldSubstate<V> :: fn new_unlocked_field
        @sig
            ensures ret == (FieldSubstate::V1(FieldSubstateV1 { payload, lock_status: LockStatus::Unlocked }))
        @*/
        /*@fn radix-engine/src/system/system_substates.rs :: impl<V> FieldSubstate<V> :: fn into_payload
        @sig
            ensures self matches FieldSubstate::V1(x) && ret == x.payload
        @*/
    }

    // ---- frame lemmas --------------------------------------------------------------------------
    pub proof fn lemma_frame2(h0: Buckets, h1: Buckets, a: Own, b: Own, o: Own)
        requires frame2(h0, h1, a, b), o != a, o != b
        ensures h1.contains_key(o) == h0.contains_key(o), h1[o] == h0[o]
    {
        assert(h1.remove(a).remove(b).contains_key(o) == h1.contains_key(o));
        assert(h0.remove(a).remove(b).contains_key(o) == h0.contains_key(o));
        assert(h1.remove(a).remove(b)[o] == h1[o]);
        assert(h0.remove(a).remove(b)[o] == h0[o]);
    }
    pub proof fn lemma_frame2_sym(h0: Buckets, h1: Buckets, a: Own, b: Own)
        requires frame2(h0, h1, a, b)
        ensures frame2(h0, h1, b, a)
    {
        assert(h1.remove(b).remove(a) =~= h1.remove(a).remove(b));
        assert(h0.remove(b).remove(a) =~= h0.remove(a).remove(b));
    }
    /// the heap changed only at r's worktop bucket `a` (still a good bucket of r) and at a bucket `nb` that
    /// was not live before: the worktop invariant is kept
    pub proof fn lemma_wf_keep(f: Fields, h0: Buckets, h1: Buckets, r: ResourceAddress, a: Own, nb: Own)
        requires
            wf(f, h0), wt(f).contains_key(r), wt(f)[r] == a, !h0.contains_key(nb), frame2(h0, h1, a, nb),
            h1.contains_key(a), h1[a].resource == r, h1[a].amount > 0, bucket_inv(h1[a]),
        ensures wf(f, h1)
    {
        assert forall|r2: ResourceAddress| #[trigger] wt(f).contains_key(r2) implies
            h1.contains_key(wt(f)[r2]) && h1[wt(f)[r2]].resource == r2 && h1[wt(f)[r2]].amount > 0 && bucket_inv(h1[wt(f)[r2]])
        by {
            if r2 != r { lemma_frame2(h0, h1, a, nb, wt(f)[r2]); }
        }
    }
    /// a bucket that was not live appears (or nothing changes at all): the worktop invariant is kept
    pub proof fn lemma_wf_fresh(f: Fields, h0: Buckets, h1: Buckets, nb: Own)
        requires wf(f, h0), !h0.contains_key(nb), h1 == h0.insert(nb, h1[nb])
        ensures wf(f, h1)
    {
        assert forall|r2: ResourceAddress| #[trigger] wt(f).contains_key(r2) implies
            h1.contains_key(wt(f)[r2]) && h1[wt(f)[r2]].resource == r2 && h1[wt(f)[r2]].amount > 0 && bucket_inv(h1[wt(f)[r2]])
        by { assert(wt(f)[r2] != nb); }
    }
    /// an entry leaves the worktop, the heap is untouched: the worktop invariant is kept
    pub proof fn lemma_wf_remove(f0: Fields, f1: Fields, h: Buckets, r: ResourceAddress)
        requires wf(f0, h), f1 == f0.insert(I_WORKTOP(), Wire::Worktop(wt(f0).remove(r)))
        ensures wf(f1, h)
    {
        assert(wt(f1) == wt(f0).remove(r));
        assert forall|r2: ResourceAddress| #[trigger] wt(f1).contains_key(r2) implies
            h.contains_key(wt(f1)[r2]) && h[wt(f1)[r2]].resource == r2 && h[wt(f1)[r2]].amount > 0 && bucket_inv(h[wt(f1)[r2]])
        by { assert(wt(f0).contains_key(r2)); }
    }

    /// set arithmetic behind the non-fungible side of bucket_inv
    pub proof fn lemma_nf_split(old_ids: Set<Id>, ids: Set<Id>)
        requires ids.subset_of(old_ids)
        ensures
            old_ids.difference(ids).len() == old_ids.len() - ids.len(),
            old_ids.difference(ids).len() * one18() == old_ids.len() * one18() - ids.len() * one18(),
            old_ids.len() == ids.len() ==> old_ids =~= ids,
    {
        vstd::set_lib::lemma_set_difference_len(old_ids, ids);
        assert(old_ids.intersect(ids) =~= ids);
        let a = old_ids.difference(ids).len() as int; let b = ids.len() as int; let c = one18();
        assert((a + b) * c == a * c + b * c) by (nonlinear_arith);
        if old_ids.len() == ids.len() { vstd::set_lib::lemma_subset_equality(ids, old_ids); }
    }
    pub proof fn lemma_nf_merge(x: Set<Id>, y: Set<Id>)
        requires x.disjoint(y)
        ensures x.union(y).len() * one18() == x.len() * one18() + y.len() * one18()
    {
        vstd::set_lib::lemma_set_disjoint_lens(x, y);
        let a = x.len() as int; let b = y.len() as int; let c = one18();
        assert((a + b) * c == a * c + b * c) by (nonlinear_arith);
    }
    /// an empty bucket `gone` that is not on the worktop is dropped: the worktop invariant is kept
    pub proof fn lemma_wf_drop_other(f: Fields, h0: Buckets, gone: Own)
        requires wf(f, h0), h0[gone].amount == 0
        ensures wf(f, h0.remove(gone))
    {
        let h1 = h0.remove(gone);
        assert forall|r2: ResourceAddress| #[trigger] wt(f).contains_key(r2) implies
            h1.contains_key(wt(f)[r2]) && h1[wt(f)[r2]].resource == r2 && h1[wt(f)[r2]].amount > 0 && bucket_inv(h1[wt(f)[r2]])
        by { assert(wt(f)[r2] != gone); }
    }
    /// a live bucket of a resource that is not on the worktop is filed under its resource
    pub proof fn lemma_wf_insert(f0: Fields, f1: Fields, h: Buckets, r: ResourceAddress, b: Own)
        requires wf(f0, h), !wt(f0).contains_key(r), h.contains_key(b), h[b].resource == r, h[b].amount > 0, bucket_inv(h[b]),
                 f1 == f0.insert(I_WORKTOP(), Wire::Worktop(wt(f0).insert(r, b)))
        ensures wf(f1, h)
    {
        assert(wt(f1) == wt(f0).insert(r, b));
        assert forall|r2: ResourceAddress| #[trigger] wt(f1).contains_key(r2) implies
            h.contains_key(wt(f1)[r2]) && h[wt(f1)[r2]].resource == r2 && h[wt(f1)[r2]].amount > 0 && bucket_inv(h[wt(f1)[r2]])
        by { if r2 != r { assert(wt(f0).contains_key(r2)); } }
    }
    /// `other` is merged into r's worktop bucket `a`
    pub proof fn lemma_wf_merge(f: Fields, h0: Buckets, h1: Buckets, r: ResourceAddress, a: Own, other: Own)
        requires
            wf(f, h0), wt(f).contains_key(r), wt(f)[r] == a, a != other, h0.contains_key(other), h0[other].resource == r,
            h1 == h0.remove(other).insert(a, h1[a]), h1[a].resource == r, h1[a].amount > 0, bucket_inv(h1[a]),
        ensures wf(f, h1), frame2(h0, h1, other, a)
    {
        assert forall|r2: ResourceAddress| #[trigger] wt(f).contains_key(r2) implies
            h1.contains_key(wt(f)[r2]) && h1[wt(f)[r2]].resource == r2 && h1[wt(f)[r2]].amount > 0 && bucket_inv(h1[wt(f)[r2]])
        by { if r2 != r { assert(wt(f)[r2] != a); assert(wt(f)[r2] != other); } }
    }
    /// the drained buckets: each worktop entry exactly once
    pub open spec fn is_drain_of(s: Seq<Own>, w: WMap, h: Buckets) -> bool {
        &&& s.no_duplicates()
        &&& s.len() == w.dom().len()
        // every worktop bucket is returned ...
        &&& forall|r: ResourceAddress| w.contains_key(r) ==> s.contains(#[trigger] w[r])
        // ... and nothing else: each returned bucket is the worktop's bucket of its own resource
        &&& forall|i: int| 0 <= i < s.len() ==> w.contains_key(h[#[trigger] s[i]].resource) && w[h[s[i]].resource] == s[i]
    }
    pub proof fn lemma_drain(m: &IndexMap<ResourceAddress, Own>, f: Fields, h: Buckets)
        requires wf(f, h), wt(f) == m@
        ensures is_drain_of(m.val_order(), m@, h)
    {
        let ks = m.key_order(); let s = m.val_order(); let w = m@;
        ks.unique_seq_to_set();
        assert forall|i: int| 0 <= i < ks.len() implies w.contains_key(#[trigger] ks[i]) by {
            assert(ks.to_set().contains(ks[i]));
        }
        assert forall|i: int, j: int| 0 <= i < s.len() && 0 <= j < s.len() && i != j implies s[i] != s[j] by {
            assert(wt(f).contains_key(ks[i]) && wt(f).contains_key(ks[j]));
            assert(h[w[ks[i]]].resource == ks[i] && h[w[ks[j]]].resource == ks[j]);
        }
        assert forall|r: ResourceAddress| w.contains_key(r) implies s.contains(#[trigger] w[r]) by {
            assert(ks.to_set().contains(r));
            let i = choose|i: int| 0 <= i < ks.len() && ks[i] == r;
            assert(s[i] == w[r]);
        }
        assert forall|i: int| 0 <= i < s.len() implies w.contains_key(h[#[trigger] s[i]].resource) && w[h[s[i]].resource] == s[i] by {
            assert(wt(f).contains_key(ks[i]) && w[ks[i]] == s[i]);
        }
    }

    /// structural part of the worktop invariant (all that `drop` needs): entries are live buckets of their resource
    pub open spec fn wf_struct(f: Fields, h: Buckets) -> bool {
        &&& f.contains_key(I_WORKTOP()) && f[I_WORKTOP()] is Worktop
        &&& forall|r: ResourceAddress| #[trigger] wt(f).contains_key(r) ==> h.contains_key(wt(f)[r]) && h[wt(f)[r]].resource == r
    }
    /// bucket `o` is one of the worktop's buckets
    pub open spec fn is_worktop_bucket(w: WMap, h: Buckets, o: Own) -> bool {
        h.contains_key(o) && w.contains_key(h[o].resource) && w[h[o].resource] == o
    }
    /// `drop` succeeded: EVERY worktop bucket went through drop_empty (so it was empty, and is gone), and no other
    /// bucket was touched
    pub open spec fn dropped_all(w0: WMap, h0: Buckets, h1: Buckets) -> bool {
        &&& forall|r: ResourceAddress| #[trigger] w0.contains_key(r) ==> h0[w0[r]].amount == 0 && !h1.contains_key(w0[r])
        &&& forall|o: Own| #[trigger] h1.contains_key(o) <==> h0.contains_key(o) && !is_worktop_bucket(w0, h0, o)
        &&& forall|o: Own| #[trigger] h1.contains_key(o) ==> h1[o] == h0[o]
    }
    /// loop invariant of `drop` after k entries
    pub open spec fn drop_inv(es: Seq<(ResourceAddress, Own)>, k: int, w0: WMap, h0: Buckets, hc: Buckets, dropped: Set<Own>) -> bool {
        &&& hc =~= h0.remove_keys(dropped)
        &&& forall|o: Own| #[trigger] dropped.contains(o) ==> is_worktop_bucket(w0, h0, o) && h0[o].amount == 0
        &&& forall|i: int| 0 <= i < k ==> dropped.contains((#[trigger] es[i]).1)
    }
    pub proof fn lemma_drop_done(m: IndexMap<ResourceAddress, Own>, f: Fields, h0: Buckets, h1: Buckets, dropped: Set<Own>)
        requires wf_struct(f, h0), wt(f) == m@, drop_inv(entry_order(m), entry_order(m).len() as int, m@, h0, h1, dropped)
        ensures dropped_all(m@, h0, h1), wf(f, h0) ==> m@ =~= Map::<ResourceAddress, Own>::empty()
    {
        let ks = m.key_order(); let es = entry_order(m); let w = m@;
        assert forall|r: ResourceAddress| #[trigger] w.contains_key(r) implies h0[w[r]].amount == 0 && !h1.contains_key(w[r]) by {
            assert(ks.to_set().contains(r));
            let i = choose|i: int| 0 <= i < ks.len() && ks[i] == r;
            assert(es[i].1 == w[r]);
            assert(dropped.contains(es[i].1));
        }
        assert forall|o: Own| #[trigger] h1.contains_key(o) <==> h0.contains_key(o) && !is_worktop_bucket(w, h0, o) by {
            if h0.contains_key(o) && is_worktop_bucket(w, h0, o) { assert(w.contains_key(h0[o].resource)); }
        }
        if wf(f, h0) {
            assert forall|r: ResourceAddress| !w.contains_key(r) by { if w.contains_key(r) { assert(wt(f).contains_key(r)); } }
        }
    }

    impl WorktopBlueprint {
        // loop_isolation(false): the loop body may use the facts established before the loop (here: that the
        // parameter `input`, shadowed by its decoded value, did decode)
        #[verifier::loop_isolation(false)]
        /*@fn radix-engine/src/blueprints/resource/worktop.rs :: impl WorktopBlueprint :: fn drop
        @sig
            requires wf_struct(old(api).fields(), old(api).buckets())
            ensures
                decode::<WorktopDropInput>(*input) matches Err(e) ==> ret == Err::<IndexedScryptoValue, RuntimeError>(err_decode(e))
                    && untouched::<Y, RuntimeError>(old(api), final(api)),
                decode::<WorktopDropInput>(*input) matches Ok(i) ==> ({
                    let w0 = wt(old(api).fields()); let h0 = old(api).buckets(); let h1 = final(api).buckets();
                    // Ok ==> every bucket of the worktop went through drop_empty (the loop visits all entries), nothing else touched
                    &&& ret matches Ok(v) ==> v.wire() is Unit && i.worktop.0.0 == old(api).worktop_node() && dropped_all(w0, h0, h1)
                    // C09 "leftover resources on the worktop make the transaction fail": with the worktop invariant
                    // (no empty buckets) `drop` succeeds only on an EMPTY worktop
                    &&& wf(old(api).fields(), h0) && ret is Ok ==> w0 =~= Map::<ResourceAddress, Own>::empty()
                    &&& ret matches Err(e) ==> !e.is_worktop_error()
                }),
        @closure 1 := |e: DecodeError| -> (r: RuntimeError) ensures r == err_decode(e)
        @entry
            let ghost input0 = *input;
        @before <<for (_, bucket) in resources>> #1
            let ghost es = entry_order(resources);
            let ghost res0 = resources;
            let ghost mut dropped: Set<Own> = Set::empty();
            let ghost h0 = old(api).buckets();
        @loop 1 iter it
            invariant
                it.seq() == es, decode::<WorktopDropInput>(input0) is Ok,
                es == entry_order(res0), res0@ == wt(old(api).fields()), h0 == old(api).buckets(),
                wf_struct(old(api).fields(), h0),
                drop_inv(es, it.index@ as int, res0@, h0, api.buckets(), dropped),
        @after <<bucket.drop_empty(api)?>> #1
            proof {
                let o = es[it.index@ as int].1;
                assert(res0@.contains_key(es[it.index@ as int].0)) by {
                    assert(res0.key_order().to_set().contains(res0.key_order()[it.index@ as int]));
                }
                assert(wt(old(api).fields()).contains_key(es[it.index@ as int].0));
                dropped = dropped.insert(o);
            }
        @before <<api.drop_object(>> #1
            proof { lemma_drop_done(res0, old(api).fields(), h0, api.buckets(), dropped); }
        @*/

        /*@fn radix-engine/src/blueprints/resource/worktop.rs :: impl WorktopBlueprint :: fn take
        @sig
            requires wf(old(api).fields(), old(api).buckets())
            ensures
                // undecodable input: refused, nothing touched
                decode::<WorktopTakeInput>(*input) matches Err(e) ==> ret == Err::<IndexedScryptoValue, RuntimeError>(err_decode(e))
                    && untouched::<Y, RuntimeError>(old(api), final(api)),
                decode::<WorktopTakeInput>(*input) matches Ok(i) ==> ({
                    let r = i.resource_address; let a = i.amount.v();
                    let w0 = wt(old(api).fields()); let h0 = old(api).buckets();
                    let w1 = wt(final(api).fields()); let h1 = final(api).buckets();
                    // Ok ==> the returned bucket holds exactly a, the worktop amount of r decreases by a, nothing else changes
                    &&& ret matches Ok(v) ==> (v.wire() matches Wire::Own(b) && took(w0, h0, w1, h1, r, b) && h1[b].amount == a
                            && 0 <= a <= on_worktop(w0, h0, r)
                            && wf(final(api).fields(), h1) && fields_frame(old(api).fields(), final(api).fields())
                            && final(api).handles() =~= old(api).handles())
                    // a > held ==> Err
                    &&& a > on_worktop(w0, h0, r) ==> ret is Err
                    // the only refusal of the worktop itself is InsufficientBalance, exactly when more than held is asked
                    // (or a negative amount of a resource that is not there), and then nothing has been touched
                    &&& ret matches Err(e) ==> (e.is_worktop_error() ==> e == err_insufficient()
                            && a != 0 && (a > on_worktop(w0, h0, r) || (a < 0 && !w0.contains_key(r)))
                            && final(api).fields() == old(api).fields() && h1 == h0)
                }),
        @closure 1 := |e: DecodeError| -> (r: RuntimeError) ensures r == err_decode(e)
        @before <<Ok(IndexedScryptoValue::from_typed(&bucket))>> #1
            proof {
                lemma_wf_fresh(api.fields(), old(api).buckets(), api.buckets(), bucket.0);
                assert(took(wt(old(api).fields()), old(api).buckets(), wt(api.fields()), api.buckets(), resource_address, bucket.0));
            }
        @before <<Ok(IndexedScryptoValue::from_typed(&existing_bucket))>> #1
            proof {
                lemma_wf_remove(old(api).fields(), api.fields(), api.buckets(), resource_address);
                assert(took(wt(old(api).fields()), old(api).buckets(), wt(api.fields()), api.buckets(), resource_address, existing_bucket.0));
            }
        @before <<Ok(IndexedScryptoValue::from_typed(&bucket))>> #2
            proof {
                lemma_frame2_sym(old(api).buckets(), api.buckets(), existing_bucket.0, bucket.0);
                lemma_wf_keep(api.fields(), old(api).buckets(), api.buckets(), resource_address, existing_bucket.0, bucket.0);
                assert(took(wt(old(api).fields()), old(api).buckets(), wt(api.fields()), api.buckets(), resource_address, bucket.0));
            }
        @*/

        /*@fn radix-engine/src/blueprints/resource/worktop.rs :: impl WorktopBlueprint :: fn take_non_fungibles
        @sig
            requires wf(old(api).fields(), old(api).buckets())
            ensures
                decode::<WorktopTakeNonFungiblesInput>(*input) matches Err(e) ==> ret == Err::<IndexedScryptoValue, RuntimeError>(err_decode(e))
                    && untouched::<Y, RuntimeError>(old(api), final(api)),
                decode::<WorktopTakeNonFungiblesInput>(*input) matches Ok(i) ==> ({
                    let r = i.resource_address; let ids = i.ids@;
                    let w0 = wt(old(api).fields()); let h0 = old(api).buckets();
                    let w1 = wt(final(api).fields()); let h1 = final(api).buckets();
                    // Ok ==> the returned bucket holds exactly the ids asked for, they (and their amount) left r's worktop
                    // bucket, nothing else changes
                    &&& ret matches Ok(v) ==> (v.wire() matches Wire::Own(b) && took(w0, h0, w1, h1, r, b) && h1[b].ids =~= ids
                            && ids.subset_of(ids_on_worktop(w0, h0, r))
                            && wf(final(api).fields(), h1) && fields_frame(old(api).fields(), final(api).fields())
                            && final(api).handles() =~= old(api).handles())
                    // an id that is not held ==> Err
                    &&& !ids.subset_of(ids_on_worktop(w0, h0, r)) ==> ret is Err
                    // the only refusal of the worktop itself is InsufficientBalance, exactly when an id is not held
                    &&& ret matches Err(e) ==> (e.is_worktop_error() ==> e == err_insufficient()
                            && !ids.subset_of(ids_on_worktop(w0, h0, r))
                            && final(api).fields() == old(api).fields() && h1 == h0)
                }),
        @closure 1 := |e: DecodeError| -> (r: RuntimeError) ensures r == err_decode(e)
        @before <<Ok(IndexedScryptoValue::from_typed(&bucket))>> #1
            proof {
                lemma_wf_fresh(api.fields(), old(api).buckets(), api.buckets(), bucket.0);
                assert(took(wt(old(api).fields()), old(api).buckets(), wt(api.fields()), api.buckets(), resource_address, bucket.0));
            }
        @before <<let existing_bucket>> #1
            proof {
                // a non-empty set of ids is not contained in the (empty) holding of an absent resource
                if ids@.subset_of(Set::<Id>::empty()) { assert(ids@ =~= Set::<Id>::empty()); }
            }
        @after <<let existing_non_fungibles>> #1
            proof {
                if ids@.subset_of(existing_non_fungibles@) { lemma_nf_split(existing_non_fungibles@, ids@); }
            }
        @before <<Ok(IndexedScryptoValue::from_typed(&existing_bucket))>> #1
            proof {
                lemma_wf_remove(old(api).fields(), api.fields(), api.buckets(), resource_address);
                assert(took(wt(old(api).fields()), old(api).buckets(), wt(api.fields()), api.buckets(), resource_address, existing_bucket.0));
            }
        @before <<Ok(IndexedScryptoValue::from_typed(&bucket))>> #2
            proof {
                lemma_frame2_sym(old(api).buckets(), api.buckets(), existing_bucket.0, bucket.0.0);
                lemma_wf_keep(api.fields(), old(api).buckets(), api.buckets(), resource_address, existing_bucket.0, bucket.0.0);
                assert(took(wt(old(api).fields()), old(api).buckets(), wt(api.fields()), api.buckets(), resource_address, bucket.0.0));
            }
        @*/

        /*@fn radix-engine/src/blueprints/resource/worktop.rs :: impl WorktopBlueprint :: fn take_all
        @sig
            requires wf(old(api).fields(), old(api).buckets())
            ensures
                decode::<WorktopTakeAllInput>(*input) matches Err(e) ==> ret == Err::<IndexedScryptoValue, RuntimeError>(err_decode(e))
                    && untouched::<Y, RuntimeError>(old(api), final(api)),
                decode::<WorktopTakeAllInput>(*input) matches Ok(i) ==> ({
                    let r = i.resource_address;
                    let w0 = wt(old(api).fields()); let h0 = old(api).buckets();
                    let w1 = wt(final(api).fields()); let h1 = final(api).buckets();
                    // Ok ==> the returned bucket holds everything the worktop held of r, and r's entry is gone
                    &&& ret matches Ok(v) ==> (v.wire() matches Wire::Own(b) && took(w0, h0, w1, h1, r, b)
                            && h1[b].amount == on_worktop(w0, h0, r) && h1[b].ids =~= ids_on_worktop(w0, h0, r)
                            && !w1.contains_key(r)
                            && wf(final(api).fields(), h1) && fields_frame(old(api).fields(), final(api).fields())
                            && final(api).handles() =~= old(api).handles())
                    // the worktop itself never refuses
                    &&& ret matches Err(e) ==> !e.is_worktop_error()
                }),
        @closure 1 := |e: DecodeError| -> (r: RuntimeError) ensures r == err_decode(e)
        @before <<Ok(IndexedScryptoValue::from_typed(&bucket))>> #1
            proof {
                lemma_wf_remove(old(api).fields(), api.fields(), api.buckets(), input.resource_address);
                assert(took(wt(old(api).fields()), old(api).buckets(), wt(api.fields()), api.buckets(), input.resource_address, bucket));
            }
        @before <<Ok(IndexedScryptoValue::from_typed(&bucket))>> #2
            proof {
                lemma_wf_fresh(api.fields(), old(api).buckets(), api.buckets(), bucket.0);
                assert(took(wt(old(api).fields()), old(api).buckets(), wt(api.fields()), api.buckets(), input.resource_address, bucket.0));
            }
        @*/

        /*@fn radix-engine/src/blueprints/resource/worktop.rs :: impl WorktopBlueprint :: fn drain
        @sig
            requires wf(old(api).fields(), old(api).buckets())
            ensures
                decode::<WorktopDrainInput>(*input) matches Err(e) ==> ret == Err::<IndexedScryptoValue, RuntimeError>(err_decode(e))
                    && untouched::<Y, RuntimeError>(old(api), final(api)),
                final(api).buckets() == old(api).buckets(),
                // Ok ==> every worktop bucket is returned exactly once, the worktop is empty, no bucket is touched
                ret matches Ok(v) ==> (v.wire() matches Wire::Owns(s) && is_drain_of(s, wt(old(api).fields()), old(api).buckets())
                        && wt(final(api).fields()) =~= Map::<ResourceAddress, Own>::empty()
                        && wf(final(api).fields(), final(api).buckets()) && fields_frame(old(api).fields(), final(api).fields())
                        && final(api).handles() =~= old(api).handles()),
                ret matches Err(e) ==> (e.is_worktop_error() ==> false),
        @closure 1 := |e: DecodeError| -> (r: RuntimeError) ensures r == err_decode(e)
        @after <<let buckets>> #1
            proof { lemma_drain(&worktop.resources, api.fields(), api.buckets()); }
        @*/

        /*@fn radix-engine/src/blueprints/resource/worktop.rs :: impl WorktopBlueprint :: fn put
        @sig
            requires wf(old(api).fields(), old(api).buckets())
            ensures
                decode::<WorktopPutInput>(*input) matches Err(e) ==> ret == Err::<IndexedScryptoValue, RuntimeError>(err_decode(e))
                    && untouched::<Y, RuntimeError>(old(api), final(api)),
                decode::<WorktopPutInput>(*input) matches Ok(i) ==> ({
                    let bk = i.bucket.0;
                    let w0 = wt(old(api).fields()); let h0 = old(api).buckets();
                    let w1 = wt(final(api).fields()); let h1 = final(api).buckets();
                    // Ok ==> put adds exactly the bucket's amount (merging into an existing bucket of that resource)
                    &&& ret matches Ok(v) ==> (v.wire() is Unit && was_put(w0, h0, w1, h1, bk)
                            && wf(final(api).fields(), h1) && fields_frame(old(api).fields(), final(api).fields())
                            && final(api).handles() =~= old(api).handles())
                    // the worktop itself never refuses
                    &&& ret matches Err(e) ==> !e.is_worktop_error()
                }),
        @closure 1 := |e: DecodeError| -> (r: RuntimeError) ensures r == err_decode(e)
        @before <<let resource_address>> #1
            let ghost bk = input.bucket.0;
        @before <<Ok(IndexedScryptoValue::from_typed(&()))>> #1
            proof {
                // the empty bucket was not a worktop bucket (those are non-empty): dropping it leaves the worktop as it was
                lemma_wf_drop_other(api.fields(), old(api).buckets(), bk);
                if wt(api.fields()).contains_key(resource_address) { assert(wt(api.fields())[resource_address] != bk); }
            }
        @before <<api.field_close(worktop_handle)?>> #1
            proof {
                let h0 = old(api).buckets(); let w0 = wt(old(api).fields());
                if w0.contains_key(resource_address) {
                    // merged into the worktop's bucket of that resource
                    let own = w0[resource_address];
                    lemma_nf_merge(h0[own].ids, h0[bk].ids);
                    lemma_wf_merge(api.fields(), h0, api.buckets(), resource_address, own, bk);
                } else {
                    // filed as the worktop's bucket of that resource
                    lemma_wf_insert(old(api).fields(), api.fields(), api.buckets(), resource_address, bk);
                }
            }
        @*/

        /*@fn radix-engine/src/blueprints/resource/worktop.rs :: impl WorktopBlueprint :: fn assert_contains
        @sig
            requires wf(old(api).fields(), old(api).buckets())
            ensures
                decode::<WorktopAssertContainsInput>(*input) matches Err(e) ==> ret == Err::<IndexedScryptoValue, RuntimeError>(err_decode(e))
                    && untouched::<Y, RuntimeError>(old(api), final(api)),
                // an assertion changes nothing
                final(api).fields() == old(api).fields(), final(api).buckets() == old(api).buckets(),
                decode::<WorktopAssertContainsInput>(*input) matches Ok(i) ==> ({
                    let held = on_worktop(wt(old(api).fields()), old(api).buckets(), i.resource_address);
                    // Ok <==> the worktop holds a non-zero amount of r   (Ok ==> cond; !cond ==> Err; own error ==> !cond)
                    &&& ret matches Ok(v) ==> held > 0 && v.wire() is Unit && final(api).handles() =~= old(api).handles()
                    &&& held == 0 ==> ret is Err
                    &&& ret matches Err(e) ==> (e.is_worktop_error() ==> held == 0
                            && e == err_assertion(i.resource_address, ResourceConstraintError::ExpectedNonZeroAmount))
                }),
        @closure 1 := |e: DecodeError| -> (r: RuntimeError) ensures r == err_decode(e)
        @*/

        /*@fn radix-engine/src/blueprints/resource/worktop.rs :: impl WorktopBlueprint :: fn assert_contains_amount
        @sig
            requires wf(old(api).fields(), old(api).buckets())
            ensures
                decode::<WorktopAssertContainsAmountInput>(*input) matches Err(e) ==> ret == Err::<IndexedScryptoValue, RuntimeError>(err_decode(e))
                    && untouched::<Y, RuntimeError>(old(api), final(api)),
                final(api).fields() == old(api).fields(), final(api).buckets() == old(api).buckets(),
                decode::<WorktopAssertContainsAmountInput>(*input) matches Ok(i) ==> ({
                    let held = on_worktop(wt(old(api).fields()), old(api).buckets(), i.resource_address);
                    // Ok <==> held >= asserted amount
                    &&& ret matches Ok(v) ==> held >= i.amount.v() && v.wire() is Unit && final(api).handles() =~= old(api).handles()
                    &&& held < i.amount.v() ==> ret is Err
                    &&& ret matches Err(e) ==> (e.is_worktop_error() ==> held < i.amount.v()
                            && e == err_assertion(i.resource_address, ResourceConstraintError::ExpectedAtLeastAmount {
                                    expected_at_least_amount: i.amount, actual_amount: Decimal::of(held) }))
                }),
        @closure 1 := |e: DecodeError| -> (r: RuntimeError) ensures r == err_decode(e)
        @before <<let worktop_error>> #1
            proof { assert(Decimal::of(amount.v()).v() == amount.v()); assert(Decimal::of(amount.v()) == amount); }
        @*/

        /*@fn radix-engine/src/blueprints/resource/worktop.rs :: impl WorktopBlueprint :: fn assert_contains_non_fungibles
        @sig
            requires wf(old(api).fields(), old(api).buckets())
            ensures
                decode::<WorktopAssertContainsNonFungiblesInput>(*input) matches Err(e) ==> ret == Err::<IndexedScryptoValue, RuntimeError>(err_decode(e))
                    && untouched::<Y, RuntimeError>(old(api), final(api)),
                final(api).fields() == old(api).fields(), final(api).buckets() == old(api).buckets(),
                decode::<WorktopAssertContainsNonFungiblesInput>(*input) matches Ok(i) ==> ({
                    let held = ids_on_worktop(wt(old(api).fields()), old(api).buckets(), i.resource_address);
                    // Ok <==> every asserted id is held
                    &&& ret matches Ok(v) ==> i.ids@.subset_of(held) && v.wire() is Unit && final(api).handles() =~= old(api).handles()
                    &&& !i.ids@.subset_of(held) ==> ret is Err
                    &&& ret matches Err(e) ==> (e.is_worktop_error() ==> (missing_of(e) matches Some(rm)
                            && rm.0 == i.resource_address && i.ids@.contains(rm.1) && !held.contains(rm.1)))
                }),
        @closure 1 := |e: DecodeError| -> (r: RuntimeError) ensures r == err_decode(e)
        @before <<let worktop_error>> #1
            let ghost m0 = *missing_id;
            proof { assert(input.ids@.contains(m0) && !bucket_ids@.contains(m0)); }
        @*/
    }
}
} // verus!
fn main() {}
