// Unit c08_auth_zone -- property C08 "Protected calls succeed exactly when the access rule is satisfied"
// (the part that unit c08_authorization leaves as ASSUMED callees: the auth-zone stack walkers)
// Real code: radix-engine/src/system/system_modules/auth/authorization.rs
//   Authorization::{proof_matches, global_auth_zone_matches, auth_zone_stack_matches,
//                   auth_zone_stack_has_amount, auth_zone_stack_matches_rule}
//   (incl. the three closures: the `check` closures of has_amount / matches_rule and the immediately
//    invoked closure of auth_zone_stack_matches)
// radix-engine/src/blueprints/resource/auth_zone/auth_zone_substates.rs
//   AuthZone::{proofs, simulate_all_proofs_under_resources, implicit_non_fungible_proofs,
//              local_implicit_non_fungible_proofs}
// radix-common/src/types/non_fungible_global_id.rs
//   GlobalCaller::is_actually_frame_owned, NonFungibleGlobalId::{resource_address, local_id}
// radix-engine/src/system/system_substates.rs  FieldSubstate::into_payload
// Kernel substate reads, the native proof SDK calls (resource_address / amount / non_fungible_local_ids)
// and the collections are ASSUMED-contract environment calls over the ghost `ApiState` (shims/auth_env.rs,
// shims/auth_zone_env.rs); an auth zone is what the kernel returns for (zone node, MAIN_BASE_PARTITION, Field 0),
// proofs are ghost records {resource, amount, ids} keyed by the proof's node id.
use vstd::prelude::*;

// the real macro; `#[macro_export]` (dropped by rewrite R2) is put back so that `$crate::..` resolves
#[macro_export]
/*@item radix-rust/src/rust.rs :: macro btreeset
@*/
// `$crate::rust::collections::btree_set::BTreeSet` in the macro above
pub mod rust { pub mod collections { pub mod btree_set { pub use crate::auth_zone_env::BTreeSet; } } }

verus! {
/*@include shims/rt.rs @*/
/*@include shims/auth_env.rs @*/
/*@include shims/auth_zone_env.rs @*/

// =================================================================================================
// ENVIRONMENT that depends on the extracted types: the kernel API trait and the native proof SDK
// with their ASSUMED contracts, std-derived impls, generated field enum.
// =================================================================================================
pub mod env {
    use vstd::prelude::*;
    use vstd::std_specs::convert::*;
    use super::auth_env::{RuntimeError, DecodeError, NodeId, ResourceAddress, GlobalAddress, BlueprintId, NonFungibleLocalId,
        NonFungibleGlobalId, SubstateHandle, LockFlags, IndexedScryptoValue, SubKey, Loc, AuthEnv, ApiState, ok_or_fault};
    use super::auth_env::Decimal;
    use super::auth_zone_env::*;
    use super::unit::*;

    pub open spec fn key_view(k: SubstateKey) -> SubKey {
        match k {
            SubstateKey::Field(f) => SubKey::Field(f),
            SubstateKey::Map(m) => SubKey::Map(m@),
            SubstateKey::Sorted(s) => SubKey::Sorted(s.0@, s.1@),
        }
    }

    /// the ghost state every system / kernel API object carries
    pub trait ApiGhost {
        spec fn st(&self) -> ApiState;
    }
    /// radix_engine_interface::api::SystemObjectApi<E> -- used only through the native proof SDK below
    pub trait SystemObjectApi<E>: ApiGhost {}

    /// radix_engine::kernel::kernel_api::KernelSubstateApi<L> (the three methods used), ASSUMED
    /// contracts over the ghost `ApiState` (identical to the ones in unit c08_authorization):
    ///  open  : Ok(h) => h is a fresh handle, now open at exactly (node, partition, key); nothing else changes
    ///  read  : Ok(v) => h is open and v is the substate at its location; nothing changes
    ///  close : Ok    => h is no longer open; nothing else changes
    ///  Err(e) from any of them => e is appended to the error history, the environment is unchanged
    pub trait KernelSubstateApi<L>: ApiGhost {
        fn kernel_open_substate(
            &mut self,
            node_id: &NodeId,
            partition_num: PartitionNumber,
            substate_key: &SubstateKey,
            flags: LockFlags,
            lock_data: L,
        ) -> (r: Result<SubstateHandle, RuntimeError>)
            ensures
                r matches Ok(h) ==> !old(self).st().handles.contains_key(h) && final(self).st() == (ApiState {
                    handles: old(self).st().handles.insert(h, Loc { node: *node_id, partition: partition_num.0, key: key_view(*substate_key) }),
                    ..old(self).st() }),
                r is Err ==> ok_or_fault(old(self).st(), final(self).st(), r);

        fn kernel_close_substate(&mut self, lock_handle: SubstateHandle) -> (r: Result<(), RuntimeError>)
            ensures
                r is Ok ==> final(self).st() == (ApiState { handles: old(self).st().handles.remove(lock_handle), ..old(self).st() }),
                r is Err ==> ok_or_fault(old(self).st(), final(self).st(), r);

        fn kernel_read_substate(&mut self, lock_handle: SubstateHandle) -> (r: Result<&IndexedScryptoValue, RuntimeError>)
            ensures
                ok_or_fault(old(self).st(), final(self).st(), r),
                r matches Ok(v) ==> old(self).st().handles.contains_key(lock_handle)
                    && *v == old(self).st().env.substate(old(self).st().handles[lock_handle]);
    }

    /// radix_native_sdk::resource::{NativeProof, NativeNonFungibleProof} for `Proof` (system calls
    /// `get_outer_object`, `Proof_get_amount`, `NonFungibleProof_get_local_ids` + SBOR decoding of the
    /// answer): ASSUMED to answer with the ghost record of the proof node and to leave the ghost state
    /// (auth-relevant substates, this frame's open handles) as it was; an error is recorded.
    impl Proof {
        #[verifier::external_body]
        pub fn resource_address<Y: SystemObjectApi<RuntimeError>>(&self, api: &mut Y) -> (r: Result<ResourceAddress, RuntimeError>)
            ensures
                ok_or_fault(old(api).st(), final(api).st(), r),
                r matches Ok(a) ==> a == proof_resource(old(api).st().env, self.0.0),
        { unimplemented!() }
        #[verifier::external_body]
        pub fn amount<Y: SystemObjectApi<RuntimeError>>(&self, api: &mut Y) -> (r: Result<Decimal, RuntimeError>)
            ensures
                ok_or_fault(old(api).st(), final(api).st(), r),
                r matches Ok(a) ==> a == proof_amount(old(api).st().env, self.0.0),
        { unimplemented!() }
        #[verifier::external_body]
        pub fn non_fungible_local_ids<Y: SystemObjectApi<RuntimeError>>(&self, api: &mut Y) -> (r: Result<IndexSet<NonFungibleLocalId>, RuntimeError>)
            ensures
                ok_or_fault(old(api).st(), final(api).st(), r),
                r matches Ok(s) ==> s@ == proof_ids(old(api).st().env, self.0.0),
        { unimplemented!() }
    }

    /// `AuthZoneField` is generated by declare_native_blueprint_state! (the blueprint has the single
    /// field `auth_zone`); its conversion to a SubstateKey is `SubstateKey::Field(self as u8)`
    pub enum AuthZoneField { AuthZone }
    impl From<AuthZoneField> for SubstateKey {
        #[verifier::external_body]
        fn from(value: AuthZoneField) -> (r: SubstateKey) ensures r == SubstateKey::Field(0u8) { unimplemented!() }
    }
    impl FromSpecImpl<AuthZoneField> for SubstateKey {
        open spec fn obeys_from_spec() -> bool { true }
        open spec fn from_spec(v: AuthZoneField) -> Self { SubstateKey::Field(0u8) }
    }

    /// radix-common/src/types/node_and_substate.rs `impl From<Reference> for NodeId`: the wrapped id
    impl From<Reference> for NodeId {
        #[verifier::external_body]
        fn from(value: Reference) -> (r: NodeId) ensures r == value.0 { unimplemented!() }
    }
    impl FromSpecImpl<Reference> for NodeId {
        open spec fn obeys_from_spec() -> bool { true }
        open spec fn from_spec(v: Reference) -> Self { v.0 }
    }

    /// radix-common native_addresses.rs: FRAME_OWNED_GLOBAL_MARKER = the node id of TRANSACTION_TRACKER
    /// (bytes read from /repo on every run)
    pub const FRAME_OWNED_GLOBAL_MARKER: GlobalAddress = GlobalAddress(NodeId(
        /*@expr-after radix-common/src/constants/native_addresses.rs :: const TRANSACTION_TRACKER :: <<new_or_panic(>> @*/
    ));

    // derived Clone of GlobalCaller (BlueprintId inside): std-generated, not under contract
    impl Clone for GlobalCaller {
        #[verifier::external_body]
        fn clone(&self) -> (r: Self) ensures r == *self { unimplemented!() }
    }
    /// `T: Into<T>` (core's blanket `impl<T> From<T> for T`) is the identity
    pub assume_specification<T>[<T as From<T>>::from](t: T) -> (r: T) ensures r == t;

    /// ghost: the non-fungible id `hash(scrypto_encode(global_caller))` under GLOBAL_CALLER_RESOURCE
    pub uninterp spec fn global_caller_badge_spec(g: GlobalCaller) -> NonFungibleGlobalId;
    impl NonFungibleGlobalId {
        /// radix-common NonFungibleGlobalId::global_caller_badge (hashing + encoding: not under contract)
        #[verifier::external_body]
        pub fn global_caller_badge<T: Into<GlobalCaller>>(global_caller: T) -> (ret: Self)
            ensures exists|g: GlobalCaller| call_ensures(T::into, (global_caller,), g) && ret == global_caller_badge_spec(g)
        { unimplemented!() }
    }
}

pub mod unit {
    use vstd::prelude::*;
    use super::rt::*;
    use super::auth_env::{RuntimeError, DecodeError, NodeId, ResourceAddress, GlobalAddress, BlueprintId, NonFungibleLocalId,
        NonFungibleGlobalId, SubstateHandle, LockFlags, IndexedScryptoValue, SubKey, Loc, AuthEnv, ApiState, ok_or_fault};
    use super::auth_env::Decimal;
    use super::auth_zone_env::*;
    use super::env::*;

    // ---- types -----------------------------------------------------------------------------------
    /*@item radix-engine-interface/src/blueprints/resource/proof_rule.rs :: enum ResourceOrNonFungible
    @derive
    @*/
    /*@item radix-engine/src/system/system_modules/auth/authorization.rs :: struct Authorization
    @derive
    @*/
    /*@item radix-common/src/types/non_fungible_global_id.rs :: enum GlobalCaller
    @derive
    @*/
    /*@item radix-common/src/data/scrypto/model/own.rs :: struct Own
    @derive Clone, Copy
    @*/
    /*@item radix-common/src/data/scrypto/model/reference.rs :: struct Reference
    @derive Clone, Copy
    @*/
    /*@item radix-engine-interface/src/blueprints/resource/proof.rs :: struct Proof
    @derive
    @*/
    /*@item radix-engine/src/blueprints/resource/auth_zone/auth_zone_substates.rs :: struct AuthZone
    @derive
    @*/
    // ---- substates -------------------------------------------------------------------------------
    /*@item radix-common/src/types/node_and_substate.rs :: struct PartitionNumber
    @derive Clone, Copy
    @*/
    /*@item radix-common/src/types/node_and_substate.rs :: type FieldKey
    @*/
    /*@item radix-common/src/types/node_and_substate.rs :: type MapKey
    @*/
    /*@item radix-common/src/types/node_and_substate.rs :: type SortedKey
    @*/
    /*@item radix-common/src/types/node_and_substate.rs :: enum SubstateKey
    @derive
    @*/
    /*@item radix-engine-interface/src/types/node_layout.rs :: const MAIN_BASE_PARTITION
    @*/
    /*@item radix-engine/src/system/system_substates.rs :: enum LockStatus
    @derive Clone, Copy
    @*/
    /*@item radix-engine/src/system/system_substates.rs :: struct FieldSubstateV1
    @derive
    @*/
    /*@item radix-engine/src/system/system_substates.rs :: enum FieldSubstate
    @derive
    @*/

    // ==========================================================================================
    // ORACLE -- written from the documented semantics (radix-engine/book/src/native/auth/system_module.md:
    // "Auth verification checks the resolved permission against the AuthZones in the current global
    // context as well as the Global Caller's context"; an AuthZone "references a global caller AuthZone
    // and a parent AuthZone"; the callee's own new AuthZone is not consulted) and from the rule
    // constructors (`require`, `require_amount`).
    // ==========================================================================================
    /// what a caller can be asked to show: a resource / a specific non-fungible, or an amount of a resource
    pub ghost enum Query {
        Rule(ResourceOrNonFungible),
        Amount(ResourceAddress, Decimal),
    }

    /// ONE proof meets `require(r)`: it is a proof of that resource (and, for a specific non-fungible, contains that id)
    pub open spec fn proof_shows(env: AuthEnv, p: Proof, r: ResourceOrNonFungible) -> bool {
        match r {
            ResourceOrNonFungible::Resource(a) => proof_resource(env, p.0.0) == a,
            ResourceOrNonFungible::NonFungible(id) => proof_resource(env, p.0.0) == id.0 && proof_ids(env, p.0.0).contains(id.1),
        }
    }
    /// ONE proof meets `require_amount(amount, res)`: a proof of that resource attesting at least that amount
    pub open spec fn proof_has_amount(env: AuthEnv, p: Proof, res: ResourceAddress, amount: Decimal) -> bool {
        proof_resource(env, p.0.0) == res && dec_val(proof_amount(env, p.0.0)) >= dec_val(amount)
    }
    /// what ONE frame (the proofs of an auth zone, the resources it simulates all non-fungible proofs
    /// of, its implicit non-fungible badges) shows for a query.  Amounts are NEVER added up over proofs.
    pub open spec fn frame_sat(env: AuthEnv, q: Query, proofs: Seq<Proof>, simulated: Set<ResourceAddress>, implicit: Set<NonFungibleGlobalId>) -> bool {
        match q {
            Query::Rule(r) =>
                (r matches ResourceOrNonFungible::NonFungible(id) && (implicit.contains(id) || simulated.contains(id.0)))
                || exists|i: int| 0 <= i < proofs.len() && proof_shows(env, #[trigger] proofs[i], r),
            Query::Amount(res, amount) =>
                exists|i: int| 0 <= i < proofs.len() && proof_has_amount(env, #[trigger] proofs[i], res, amount),
        }
    }

    // ---- the auth zone substates ------------------------------------------------------------------
    /// the AuthZone blueprint keeps its state in field 0 of the main partition (64) of the auth zone node
    pub open spec fn zone_loc(z: NodeId) -> Loc { Loc { node: z, partition: 64, key: SubKey::Field(0) } }
    pub open spec fn zone_decoded(env: AuthEnv, z: NodeId) -> Result<FieldSubstate<AuthZone>, DecodeError> {
        env.substate(zone_loc(z)).typed::<FieldSubstate<AuthZone>>()
    }
    pub open spec fn zone_ok(env: AuthEnv, z: NodeId) -> bool { zone_decoded(env, z) is Ok }
    pub open spec fn zone_at(env: AuthEnv, z: NodeId) -> AuthZone { zone_decoded(env, z)->Ok_0->V1_0.payload }
    /// ghost: position of an auth zone in the call stack (auth zones are created per call frame and
    /// `parent` refers to the auth zone of an OLDER frame)
    pub uninterp spec fn zone_rank(env: AuthEnv, z: NodeId) -> nat;
    /// ASSUMPTION used as precondition: every auth zone on the parent chain from `z` is a schema-valid
    /// AuthZone substate and the chain is a stack (each parent is older)
    pub open spec fn chain_ok(env: AuthEnv, z: NodeId) -> bool
        decreases zone_rank(env, z)
    {
        zone_ok(env, z) && match zone_at(env, z).parent {
            None => true,
            Some(p) => zone_rank(env, p.0) < zone_rank(env, z) && chain_ok(env, p.0),
        }
    }
    /// ASSUMPTION used as precondition of the stack walk starting at the callee's own auth zone
    pub open spec fn stack_ok(env: AuthEnv, z: NodeId) -> bool {
        &&& zone_ok(env, z)
        &&& zone_at(env, z).global_caller matches Some(gc) ==> chain_ok(env, gc.1.0)
        &&& zone_at(env, z).parent matches Some(p) ==> chain_ok(env, p.0)
    }

    /// what the auth zone `z` itself shows
    pub open spec fn zone_sat(env: AuthEnv, z: NodeId, q: Query) -> bool {
        frame_sat(env, q, zone_at(env, z).proofs@, zone_at(env, z).simulate_all_proofs_under_resources@, zone_at(env, z).implicit_non_fungible_proofs@)
    }
    /// a "context": the auth zone `z` and all its ancestors
    pub open spec fn chain_sat(env: AuthEnv, z: NodeId, q: Query) -> bool
        decreases zone_rank(env, z)
    {
        zone_sat(env, z, q) || match zone_at(env, z).parent {
            None => false,
            Some(p) => zone_rank(env, p.0) < zone_rank(env, z) && chain_sat(env, p.0, q),
        }
    }
    /// the implicit badges of the callee's own auth zone: package of the direct caller, and the global
    /// caller (unless it is the frame-owned marker)
    pub open spec fn local_implicit(zone: AuthZone) -> Set<NonFungibleGlobalId> {
        let a = match zone.direct_caller_package_address {
            Some(p) => Set::<NonFungibleGlobalId>::empty().insert(package_of_direct_caller_badge_spec(p)),
            None => Set::<NonFungibleGlobalId>::empty(),
        };
        match zone.global_caller {
            Some(gc) => if gc.0 == GlobalCaller::GlobalObject(FRAME_OWNED_GLOBAL_MARKER) { a } else { a.insert(global_caller_badge_spec(gc.0)) },
            None => a,
        }
    }
    /// THE visibility rule: from the callee's auth zone `z` a query can be met by
    ///  (1) the implicit badges of `z` (no proofs, nothing simulated),
    ///  (2) the global caller's context: the referenced auth zone and its ancestors,
    ///  (3) the current global context: the parent of `z` and its ancestors (not `z`'s own proofs).
    pub open spec fn stack_sat(env: AuthEnv, z: NodeId, q: Query) -> bool {
        let zone = zone_at(env, z);
        ||| frame_sat(env, q, Seq::<Proof>::empty(), Set::<ResourceAddress>::empty(), local_implicit(zone))
        ||| (zone.global_caller matches Some(gc) && chain_sat(env, gc.1.0, q))
        ||| (zone.parent matches Some(p) && chain_sat(env, p.0, q))
    }
    /// the two oracles that unit c08_authorization assumes of the callees (`env.shows_amount`, `req_sat`)
    pub open spec fn shows_amount(env: AuthEnv, z: NodeId, res: ResourceAddress, amount: Decimal) -> bool {
        stack_sat(env, z, Query::Amount(res, amount))
    }
    pub open spec fn req_sat(env: AuthEnv, z: NodeId, r: ResourceOrNonFungible) -> bool {
        stack_sat(env, z, Query::Rule(r))
    }

    /// sanity of the oracle (the reviewer's scenario): two proofs in one frame satisfy an amount query only
    /// if one of them does on its own -- e.g. two proofs of 5 created against the same 5 tokens do not show 10
    pub proof fn lemma_amounts_are_never_added_up(env: AuthEnv, p1: Proof, p2: Proof, res: ResourceAddress, amount: Decimal,
        simulated: Set<ResourceAddress>, implicit: Set<NonFungibleGlobalId>)
        ensures frame_sat(env, Query::Amount(res, amount), seq![p1, p2], simulated, implicit)
            == (proof_has_amount(env, p1, res, amount) || proof_has_amount(env, p2, res, amount))
    {
        let ps = seq![p1, p2];
        assert(ps[0] == p1 && ps[1] == p2);
        if proof_has_amount(env, p1, res, amount) { assert(proof_has_amount(env, ps[0], res, amount)); }
        if proof_has_amount(env, p2, res, amount) { assert(proof_has_amount(env, ps[1], res, amount)); }
    }

    // ---- contracts of the `check` callbacks ----------------------------------------------------------
    /// the callback may be called on anything and behaves like a system call: Ok leaves the ghost state
    /// as it was, Err records the error
    #[verifier::prophetic]
    pub open spec fn callable<Y: ApiGhost, F: Fn(&[Proof], &BTreeSet<ResourceAddress>, BTreeSet<NonFungibleGlobalId>, &mut Y) -> Result<bool, RuntimeError>>(f: F) -> bool {
        &&& forall|p: &[Proof], s: &BTreeSet<ResourceAddress>, n: BTreeSet<NonFungibleGlobalId>, a: &mut Y| #[trigger] f.requires((p, s, n, a))
        &&& forall|p: &[Proof], s: &BTreeSet<ResourceAddress>, n: BTreeSet<NonFungibleGlobalId>, a: &mut Y, r: Result<bool, RuntimeError>|
                #[trigger] f.ensures((p, s, n, a), r) ==> ok_or_fault((*a).st(), (*final(a)).st(), r)
    }
    /// the callback decides query `q` on the frame it is handed
    #[verifier::prophetic]
    pub open spec fn decides<Y: ApiGhost, F: Fn(&[Proof], &BTreeSet<ResourceAddress>, BTreeSet<NonFungibleGlobalId>, &mut Y) -> Result<bool, RuntimeError>>(f: F, q: Query) -> bool {
        forall|p: &[Proof], s: &BTreeSet<ResourceAddress>, n: BTreeSet<NonFungibleGlobalId>, a: &mut Y, r: Result<bool, RuntimeError>|
            #[trigger] f.ensures((p, s, n, a), r) ==> (r matches Ok(b) ==> b == frame_sat((*a).st().env, q, p@, s@, n@))
    }

    // ---- open-handle bookkeeping ----------------------------------------------------------------------
    /// `cur` = `base` plus the handles hs[k..], all fresh and distinct
    pub open spec fn handles_open(base: Map<SubstateHandle, Loc>, hs: Seq<SubstateHandle>, k: int, cur: Map<SubstateHandle, Loc>) -> bool {
        &&& hs.no_duplicates()
        &&& forall|i: int| 0 <= i < hs.len() ==> !base.contains_key(#[trigger] hs[i])
        &&& forall|h: SubstateHandle| #[trigger] cur.contains_key(h) <==> (base.contains_key(h) || exists|i: int| k <= i < hs.len() && hs[i] == h)
        &&& forall|h: SubstateHandle| base.contains_key(h) ==> #[trigger] cur[h] == base[h]
    }
    pub proof fn lemma_handles_push(base: Map<SubstateHandle, Loc>, hs: Seq<SubstateHandle>, cur: Map<SubstateHandle, Loc>, h: SubstateHandle, l: Loc)
        requires handles_open(base, hs, 0, cur), !cur.contains_key(h)
        ensures handles_open(base, hs.push(h), 0, cur.insert(h, l))
    {
        let hs2 = hs.push(h);
        let cur2 = cur.insert(h, l);
        assert forall|i: int, j: int| 0 <= i < hs2.len() && 0 <= j < hs2.len() && i != j implies hs2[i] != hs2[j] by {
            if i < hs.len() { assert(cur.contains_key(hs[i])); }
            if j < hs.len() { assert(cur.contains_key(hs[j])); }
        }
        assert forall|x: SubstateHandle| #[trigger] cur2.contains_key(x) <==> (base.contains_key(x) || exists|i: int| 0 <= i < hs2.len() && hs2[i] == x) by {
            if cur2.contains_key(x) {
                if x == h { assert(hs2[hs.len() as int] == x); }
                else if !base.contains_key(x) {
                    let i = choose|i: int| 0 <= i < hs.len() && hs[i] == x;
                    assert(hs2[i] == x);
                }
            } else {
                if exists|i: int| 0 <= i < hs2.len() && hs2[i] == x {
                    let i = choose|i: int| 0 <= i < hs2.len() && hs2[i] == x;
                    if i < hs.len() { assert(hs[i] == x); }
                }
            }
        }
    }
    // ---- helpers under contract ------------------------------------------------------------------------
    impl NonFungibleGlobalId {
        /*@fn radix-common/src/types/non_fungible_global_id.rs :: impl NonFungibleGlobalId :: fn resource_address
        @sig
            ensures ret == self.0
        @*/
        /*@fn radix-common/src/types/non_fungible_global_id.rs :: impl NonFungibleGlobalId :: fn local_id
        @sig
            ensures *ret == self.1
        @*/
    }
    impl GlobalCaller {
        /*@fn radix-common/src/types/non_fungible_global_id.rs :: impl GlobalCaller :: fn is_actually_frame_owned
        @sig
            ensures ret == (*self == GlobalCaller::GlobalObject(FRAME_OWNED_GLOBAL_MARKER))
        @*/
    }
    impl<V> FieldSubstate<V> {
        /*@fn radix-engine/src/system/system_substates.rs :: impl<V> FieldSubstate<V> :: fn into_payload
        @sig
            ensures ret == self->V1_0.payload
        @*/
    }
    impl AuthZone {
        /*@fn radix-engine/src/blueprints/resource/auth_zone/auth_zone_substates.rs :: impl AuthZone :: fn proofs
        @sig
            ensures ret@ == self.proofs@
        @*/
        /*@fn radix-engine/src/blueprints/resource/auth_zone/auth_zone_substates.rs :: impl AuthZone :: fn simulate_all_proofs_under_resources
        @sig
            ensures *ret == self.simulate_all_proofs_under_resources
        @*/
        /*@fn radix-engine/src/blueprints/resource/auth_zone/auth_zone_substates.rs :: impl AuthZone :: fn implicit_non_fungible_proofs
        @sig
            ensures *ret == self.implicit_non_fungible_proofs
        @*/
        /*@fn radix-engine/src/blueprints/resource/auth_zone/auth_zone_substates.rs :: impl AuthZone :: fn local_implicit_non_fungible_proofs
        @sig
            ensures ret@ =~= local_implicit(*self)
        @*/
    }

    impl Authorization {
        /*@fn radix-engine/src/system/system_modules/auth/authorization.rs :: impl Authorization :: fn proof_matches
        @sig
            ensures
                ok_or_fault(old(api).st(), final(api).st(), ret),
                ret matches Ok(b) ==> b == proof_shows(old(api).st().env, *proof, *resource_rule),
        @*/

        /*@fn radix-engine/src/system/system_modules/auth/authorization.rs :: impl Authorization :: fn global_auth_zone_matches
        @sig
            requires
                callable::<Y, _>(*check),
                chain_ok(old(api).st().env, *auth_zone_id),
            ensures
                ok_or_fault(old(api).st(), final(api).st(), ret),
                forall|q: Query| #![trigger chain_sat(old(api).st().env, *auth_zone_id, q)] decides::<Y, _>(*check, q)
                    ==> (ret matches Ok(b) ==> b == chain_sat(old(api).st().env, *auth_zone_id, q)),
        @loop 1
            invariant_except_break
                !pass,
                chain_ok(old(api).st().env, current_auth_zone_id),
                forall|q: Query| #![trigger chain_sat(old(api).st().env, *auth_zone_id, q)] decides::<Y, _>(*check, q)
                    ==> chain_sat(old(api).st().env, *auth_zone_id, q) == chain_sat(old(api).st().env, current_auth_zone_id, q),
            invariant
                api.st().env == old(api).st().env,
                api.st().faults == old(api).st().faults,
                handles_open(old(api).st().handles, handles@, 0, api.st().handles),
                callable::<Y, _>(*check),
            ensures
                forall|q: Query| #![trigger chain_sat(old(api).st().env, *auth_zone_id, q)] decides::<Y, _>(*check, q)
                    ==> chain_sat(old(api).st().env, *auth_zone_id, q) == pass,
            decreases zone_rank(old(api).st().env, current_auth_zone_id)
        @before <<let handle = api.kernel_open_substate(>> #1
            let ghost hs0 = handles@; let ghost cur0 = api.st().handles;
        @before <<let mut implicit_non_fungible_proofs>> #1
            proof {
                lemma_handles_push(old(api).st().handles, hs0, cur0, handle, zone_loc(current_auth_zone_id));
                assert(api.st().handles =~= cur0.insert(handle, zone_loc(current_auth_zone_id)));
                assert(auth_zone == zone_at(old(api).st().env, current_auth_zone_id));
            }
        @before <<let proofs = auth_zone.proofs()>> #1
            proof { assert(implicit_non_fungible_proofs@ =~= auth_zone.implicit_non_fungible_proofs@); }
        @loop 2 iter it
            invariant
                api.st().env == old(api).st().env,
                api.st().faults == old(api).st().faults,
                vstd::std_specs::iter::IteratorSpec::remaining(&it.snapshot@) == handles@,
                handles_open(old(api).st().handles, handles@, it.index@ as int, api.st().handles),
                it.index@ == handles@.len() ==> api.st().handles =~= old(api).st().handles,
        @*/

        /*@fn radix-engine/src/system/system_modules/auth/authorization.rs :: impl Authorization :: fn auth_zone_stack_matches
        @subst <<(|| -> Result<bool, RuntimeError> {>> => <<(|api: &mut Y| -> (rtn: Result<bool, RuntimeError>) requires old(api).st().handles.contains_key(handle), old(api).st().handles[handle] == zone_loc(zid), stack_ok(old(api).st().env, zid), callable::<Y, _>(check) ensures ok_or_fault(old(api).st(), final(api).st(), rtn), forall|q: Query| #![trigger stack_sat(old(api).st().env, zid, q)] decides::<Y, _>(check, q) ==> (rtn matches Ok(b) ==> b == stack_sat(old(api).st().env, zid, q)) {>> why: Verus rejects closures that capture a `&mut` variable; the immediately-invoked closure captured `api`, which is now handed in as the closure's parameter of the same name (same unique borrow for the duration of the call); the contract text is woven in with it
        @subst <<})()?>> => <<})(api)?>> why: the call site of the same immediately-invoked closure: passes `api`
        @sig
            requires
                callable::<Y, _>(check),
                stack_ok(old(api).st().env, *auth_zone),
            ensures
                ok_or_fault(old(api).st(), final(api).st(), ret),
                forall|q: Query| #![trigger stack_sat(old(api).st().env, *auth_zone, q)] decides::<Y, _>(check, q)
                    ==> (ret matches Ok(b) ==> b == stack_sat(old(api).st().env, *auth_zone, q)),
        @entry
            let ghost zid = *auth_zone;
        @before <<Ok(rtn)>> #1
            proof { assert(api.st().handles =~= old(api).st().handles); }
        @*/

        /*@fn radix-engine/src/system/system_modules/auth/authorization.rs :: impl Authorization :: fn auth_zone_stack_has_amount
        @sig
            requires
                stack_ok(old(api).st().env, *auth_zone),
            ensures
                ok_or_fault(old(api).st(), final(api).st(), ret),
                ret matches Ok(b) ==> b == shows_amount(old(api).st().env, *auth_zone, *resource, amount),
        @closure 1 := |proofs: &[Proof], _virtual_resources: &BTreeSet<ResourceAddress>, _virtual_non_fungibles: BTreeSet<NonFungibleGlobalId>, api: &mut Y| -> (r: Result<bool, RuntimeError>) ensures ok_or_fault(old(api).st(), final(api).st(), r), r matches Ok(b) ==> b == frame_sat(old(api).st().env, Query::Amount(*resource, amount), proofs@, _virtual_resources@, _virtual_non_fungibles@)
        @loop 1 iter it
            invariant
                api.st() == old(api).st(),
                forall|i: int| 0 <= i < it.index@ ==> !proof_has_amount(old(api).st().env, #[trigger] proofs@[i], *resource, amount),
        @*/

        /*@fn radix-engine/src/system/system_modules/auth/authorization.rs :: impl Authorization :: fn auth_zone_stack_matches_rule
        @sig
            requires
                stack_ok(old(api).st().env, *auth_zone),
            ensures
                ok_or_fault(old(api).st(), final(api).st(), ret),
                ret matches Ok(b) ==> b == req_sat(old(api).st().env, *auth_zone, *resource_rule),
        @closure 1 := |proofs: &[Proof], virtual_resources: &BTreeSet<ResourceAddress>, virtual_non_fungibles: BTreeSet<NonFungibleGlobalId>, api: &mut Y| -> (r: Result<bool, RuntimeError>) ensures ok_or_fault(old(api).st(), final(api).st(), r), r matches Ok(b) ==> b == frame_sat(old(api).st().env, Query::Rule(*resource_rule), proofs@, virtual_resources@, virtual_non_fungibles@)
        @loop 1 iter it
            invariant
                api.st() == old(api).st(),
                forall|i: int| 0 <= i < it.index@ ==> !proof_shows(old(api).st().env, #[trigger] proofs@[i], *resource_rule),
        @*/
    }
}
} // verus!
fn main() {}
